"""Shared machinery of all property checks (see DESIGN.md section 2).

One run of `./check Cxx --tier T`:
  1. translators of the property regenerate lean/SdcModel/Generated/*.lean from /repo (rewritten only on change)
  2. `lake build` of the property's theorem module + its driver executable (flock'ed)
  3. axiom audit (`#print axioms` of every theorem in Properties/Cxx.lean) + hygiene grep
  4. correspondence (model driver vs implementation) and the property's oracle on the implementation
  5. decision rule, evidence file, VIOLATION / KNOWN-FINDING lines
"""
from __future__ import annotations

import fcntl
import hashlib
import json
import os
import random
import re
import subprocess
import sys
import time
import traceback

VERIF = os.path.dirname(os.path.dirname(os.path.abspath(__file__)))
OUT = os.path.join(VERIF, 'out')
LEAN = os.path.join(VERIF, 'lean')
if os.path.realpath(os.environ.get('VERIF_REPO', '/repo')) != '/repo':
    # mutation experiment against another checkout: use a private copy of the lake project (incl. its build cache), so
    # that regenerated Generated/*.lean files and builds do not disturb checks of the real /repo running at the same time
    _key = hashlib.sha1(os.path.realpath(os.environ['VERIF_REPO']).encode()).hexdigest()[:10]
    LEAN = os.path.join(OUT, 'lean_mut_' + _key)
    os.makedirs(OUT, exist_ok=True)
    subprocess.run(['rsync', '-a', '--delete', os.path.join(VERIF, 'lean') + '/', LEAN + '/'], check=True)
REPLAYS = os.path.join(OUT, 'replays')
EVIDENCE = os.path.join(VERIF, 'evidence')
if os.path.realpath(os.environ.get('VERIF_REPO', '/repo')) != '/repo':
    EVIDENCE = os.path.join(OUT, 'evidence_mut')   # mutation experiments never overwrite the evidence of the real tree
    REPLAYS = os.path.join(OUT, 'replays_mut')
GENERATED = os.path.join(LEAN, 'SdcModel', 'Generated')
ALLOWED_AXIOMS = {'propext', 'Classical.choice', 'Quot.sound'}
FORBIDDEN = re.compile(r'\b(sorry|admit|native_decide|bv_decide|implemented_by|unsafe)\b|^\s*axiom\s|maxHeartbeats\s+0\b',
                       re.M)

TRUSTED_BASE_COMMON = [
    'Lean 4.33.0 kernel (thorough tier: re-checked with leanchecker)',
    'axioms per theorem as printed by #print axioms; allowed: propext, Classical.choice, Quot.sound',
    'translators in /verif/harness (runtime introspection of /repo) and the correspondence harness incl. generators',
    'CPython 3.12 semantics of the transcribed constructs',
]


def strip_lean_comments(src: str) -> str:
    """Remove block comments (nested) and line comments."""
    out = []
    i, depth, n = 0, 0, len(src)
    while i < n:
        if src.startswith('/-', i):
            depth += 1
            i += 2
        elif depth and src.startswith('-/', i):
            depth -= 1
            i += 2
        elif depth:
            i += 1
        elif src.startswith('--', i):
            j = src.find('\n', i)
            i = n if j < 0 else j
        else:
            out.append(src[i])
            i += 1
    return ''.join(out)


class Ctx:
    def __init__(self, prop: str, tier: str, seed: int):
        self.prop = prop
        self.tier = tier
        self.seed = seed
        self.rng = random.Random(seed)
        self.t0 = time.time()
        self.evaluations = 0
        self._distinct = set()
        self.nontrivial_rule = ''
        self.samples = []
        self.disagreements = []   # model != implementation
        self.failures = []        # oracle failures on the implementation: dict(signature, detail, case)
        self.notes = {}
        self.assumptions = []
        self.hist = {}
        self.traces = 0
        self.exhaustive = None
        self.proof_problems = []  # broken build / audit / hygiene
        self.obligations = 0
        self.discharged = 0
        self.axioms = {}
        self.max_samples = 6
        self.deadline = None

    # ---- budget helpers
    def n(self, quick, thorough):
        return thorough if self.tier == 'thorough' else quick

    def subrng(self, *key):
        h = hashlib.sha1(repr((self.seed,) + key).encode()).hexdigest()
        return random.Random(int(h[:16], 16))

    # ---- bookkeeping
    def case(self, canon, nontrivial=True, sample=None):
        """Count one evaluated case; canon = canonical (hashable/serialisable) description."""
        self.evaluations += 1
        if nontrivial:
            h = hashlib.sha1(json.dumps(canon, sort_keys=True, default=str).encode()).digest()[:10]
            self._distinct.add(h)
        if sample is not None and len(self.samples) < self.max_samples:
            self.samples.append(sample)
        elif sample is None and len(self.samples) < self.max_samples and nontrivial:
            self.samples.append(canon)

    def count(self, key, inc=1):
        self.hist[key] = self.hist.get(key, 0) + inc

    def disagree(self, what, case, model=None, impl=None):
        if len(self.disagreements) < 50:
            self.disagreements.append({'correspondence': what, 'case': case, 'model': model, 'impl': impl})
        self.count('disagreement:' + what)

    def fail(self, signature, detail, case):
        """Oracle failure on the implementation (a concrete input on which the property does not hold)."""
        self.count('oracle-failure:' + signature)
        if sum(1 for f in self.failures if f['signature'] == signature) < 3:
            self.failures.append({'signature': signature, 'detail': detail, 'case': case})

    # ---- lean side
    def driver(self, exe: str, lines, args=()):
        """Run a compiled model driver on the op lines; returns the list of output lines."""
        path = os.path.join(LEAN, '.lake', 'build', 'bin', exe)
        data = '\n'.join(lines) + '\n'
        r = subprocess.run([path, *args], input=data.encode(), capture_output=True, timeout=1800)
        if r.returncode != 0:
            raise RuntimeError(f'driver {exe} failed: {r.stderr.decode()[:2000]}')
        out = r.stdout.decode().split('\n')
        if out and out[-1] == '':
            out.pop()
        if len(out) != len(lines):
            raise RuntimeError(f'driver {exe}: {len(lines)} lines in, {len(out)} lines out; stderr={r.stderr.decode()[:500]}')
        return out


def write_if_changed(path: str, content: str) -> bool:
    os.makedirs(os.path.dirname(path), exist_ok=True)
    try:
        with open(path) as f:
            if f.read() == content:
                return False
    except FileNotFoundError:
        pass
    with open(path, 'w') as f:
        f.write(content)
    return True


def lake_build(targets, timeout=3000):
    os.makedirs(os.path.join(LEAN, '.lake'), exist_ok=True)
    with open(os.path.join(LEAN, '.lake', 'verif.lock'), 'w') as lk:
        fcntl.flock(lk, fcntl.LOCK_EX)
        try:
            r = subprocess.run(['lake', 'build', *targets], cwd=LEAN, capture_output=True, timeout=timeout)
        finally:
            fcntl.flock(lk, fcntl.LOCK_UN)
    return r.returncode == 0, (r.stdout.decode() + r.stderr.decode())


def theorem_names(prop: str, modules=None):
    """theorem names of Properties/<module>.lean for every property module of the check (default: Properties/<prop>.lean)"""
    names = []
    for mod in (modules or [prop]):
        path = os.path.join(LEAN, 'SdcModel', 'Properties', f'{mod}.lean')
        if not os.path.exists(path):
            continue
        src = strip_lean_comments(open(path).read())
        names += re.findall(r'^\s*theorem\s+([A-Za-z_][A-Za-z0-9_\.\']*)', src, re.M)
    return names


def audit(prop: str, modules=None):
    """Returns dict theorem -> list of axioms (or None when not found)."""
    names = theorem_names(prop, modules)
    src = ''.join(f'import SdcModel.Properties.{m}\n' for m in (modules or [prop])) + f'open Sdc.{prop}\n' \
        + ''.join(f'#print axioms {n}\n' for n in names)
    with open(os.path.join(LEAN, '.lake', 'verif.lock'), 'w') as lk:     # no build may rewrite .olean files meanwhile
        fcntl.flock(lk, fcntl.LOCK_EX)
        try:
            r = subprocess.run(['lake', 'env', 'lean', '--stdin'], cwd=LEAN, input=src.encode(), capture_output=True, timeout=900)
        finally:
            fcntl.flock(lk, fcntl.LOCK_UN)
    out = r.stdout.decode() + r.stderr.decode()
    res = {n: None for n in names}
    for m in re.finditer(r"'([^']+)' depends on axioms: \[([^\]]*)\]", out, re.S):
        short = m.group(1).split('.')[-1]
        for n in names:
            if m.group(1) == n or m.group(1).endswith('.' + n) or short == n:
                res[n] = [a.strip() for a in m.group(2).replace('\n', ' ').split(',') if a.strip()]
    for m in re.finditer(r"'([^']+)' does not depend on any axioms", out):
        for n in names:
            if m.group(1) == n or m.group(1).endswith('.' + n):
                res[n] = []
    return res, out


def import_closure(roots):
    """Lean source files of this project reachable from the given module names through `import` lines."""
    seen, todo = {}, list(roots)
    while todo:
        mod = todo.pop()
        if mod in seen:
            continue
        path = os.path.join(LEAN, *mod.split('.')) + '.lean'
        if not os.path.exists(path):
            continue
        seen[mod] = path
        for m in re.finditer(r'^\s*(?:public\s+)?import\s+([A-Za-z0-9_\.]+)', open(path).read(), re.M):
            if m.group(1).split('.')[0] in ('SdcModel', 'Driver'):
                todo.append(m.group(1))
    return seen


def hygiene(roots=None):
    """Forbidden constructs in the Lean files the property depends on (all project files when roots is None)."""
    bad = []
    if roots is None:
        files = [os.path.join(r, f) for r, _, fs in os.walk(LEAN) if '.lake' not in r for f in fs if f.endswith('.lean')]
    else:
        files = list(import_closure(roots).values())
    for p in sorted(files):
        src = strip_lean_comments(open(p).read())
        # strings may legitimately contain words; drop string literals
        src = re.sub(r'"(\\.|[^"\\])*"', '""', src)
        for m in FORBIDDEN.finditer(src):
            bad.append(f'{os.path.relpath(p, LEAN)}: {m.group(0).strip()}')
    return bad


def load_known():
    """known_findings/*.json (one list per property; never written at run time)"""
    res = []
    d = os.path.join(VERIF, 'known_findings')
    for f in sorted(os.listdir(d)) if os.path.isdir(d) else []:
        if f.endswith('.json'):
            res.extend(json.load(open(os.path.join(d, f))))
    return res


def write_replay(prop, seed, idx, obj):
    os.makedirs(REPLAYS, exist_ok=True)
    p = os.path.join(REPLAYS, f'{prop}-{seed}-{idx}.json')
    with open(p, 'w') as f:
        json.dump(obj, f, indent=1, default=str)
    return p


def write_evidence(ctx: Ctx, extra_trusted, checker_cmd, violations, level='proof'):
    os.makedirs(EVIDENCE, exist_ok=True)
    cov = {
        'obligations': ctx.obligations,
        'discharged': ctx.discharged,
        'checker_cmd': checker_cmd,
        'trusted_base': TRUSTED_BASE_COMMON + list(extra_trusted),
        'evaluations': ctx.evaluations,
        'distinct_nontrivial': len(ctx._distinct),
        'rule': ctx.nontrivial_rule,
        'samples': ctx.samples[:ctx.max_samples] or ['(no case executed)'],
        'traces_validated_against_impl': ctx.traces or ctx.evaluations,
        'disagreements_checked': len(ctx.disagreements),
        'theorem_axioms': ctx.axioms,
        'histogram': dict(sorted(ctx.hist.items())),
        'proof_problems': ctx.proof_problems,
    }
    if ctx.exhaustive is not None:
        cov['exhaustive'] = bool(ctx.exhaustive)
    cov.update(ctx.notes)
    ev = {
        'property_id': ctx.prop,
        'tier': ctx.tier,
        'seed': ctx.seed,
        'level': level,
        'coverage': cov,
        'assumptions': ctx.assumptions,
        'wall_s': round(time.time() - ctx.t0, 2),
        'violations': violations,
    }
    with open(os.path.join(EVIDENCE, f'{ctx.prop}.json'), 'w') as f:
        json.dump(ev, f, indent=1, default=str)


def run_check(mod, prop, tier, seed):
    ctx = Ctx(prop, tier, seed)
    ctx.assumptions = list(getattr(mod, 'ASSUMPTIONS', []))
    ctx.nontrivial_rule = getattr(mod, 'RULE', '')
    # 1. translators
    try:
        if hasattr(mod, 'translate'):
            mod.translate(ctx)
    except Exception:
        ctx.proof_problems.append('translator failed: ' + traceback.format_exc()[-1500:])
    # 2. build
    pmods = list(getattr(mod, 'PROPERTY_MODULES', [prop]))
    pmods = [m for m in pmods if os.path.exists(os.path.join(LEAN, 'SdcModel', 'Properties', f'{m}.lean'))]
    targets = [f'SdcModel.Properties.{m}' for m in pmods] + list(getattr(mod, 'DRIVERS', []))
    ok, log = lake_build(targets)
    driver_ok = True
    if not ok:
        ctx.proof_problems.append('lake build failed: ' + log[-3000:])
        # the driver alone may still build (it never imports Generated/ or Properties/)
        drv = list(getattr(mod, 'DRIVERS', []))
        if drv:
            driver_ok, dlog = lake_build(drv)
            if not driver_ok:
                ctx.proof_problems.append('driver build failed: ' + dlog[-2000:])
    # 3. audit + hygiene
    names = theorem_names(prop, pmods)
    ctx.obligations = len(names)
    if ok:
        ax, alog = audit(prop, pmods)
        ctx.axioms = ax
        for n, a in ax.items():
            if a is None:
                ctx.proof_problems.append(f'audit: theorem {n} not found in #print axioms output')
            elif not set(a) <= ALLOWED_AXIOMS:
                ctx.proof_problems.append(f'audit: theorem {n} depends on {a}')
            else:
                ctx.discharged += 1
    bad = hygiene([f'SdcModel.Properties.{m}' for m in pmods] + ['Driver.' + d.split('_')[1].upper() for d in getattr(mod, 'DRIVERS', [])])
    if bad:
        ctx.proof_problems.append('hygiene: ' + '; '.join(bad[:10]))
    if tier == 'thorough' and ok:
        r = subprocess.run(['lake', 'env', 'leanchecker'] + [f'SdcModel.Properties.{m}' for m in pmods], cwd=LEAN, capture_output=True,
                           timeout=3000)
        ctx.notes['leanchecker_exit'] = r.returncode
        if r.returncode != 0:
            ctx.proof_problems.append('leanchecker failed: ' + (r.stdout.decode() + r.stderr.decode())[-1500:])
    # 4. correspondence + oracle
    ctx.driver_ok = driver_ok
    try:
        mod.run(ctx)
    except Exception:
        tb = traceback.format_exc()
        ctx.proof_problems.append('harness exception (correspondence could not be evaluated): ' + tb[-3000:])
    # 5. if the proof or the correspondence is broken and no failing input is known yet: search deeper
    known_sigs = {k['signature'] for k in load_known() if k.get('property') == prop and k.get('kind') == 'known'}
    unknown_failures = [f for f in ctx.failures if f['signature'] not in known_sigs]
    if (ctx.proof_problems or ctx.disagreements) and not unknown_failures and hasattr(mod, 'search'):
        try:
            mod.search(ctx)
        except Exception:
            ctx.proof_problems.append('search exception: ' + traceback.format_exc()[-1500:])
    return finish(ctx, mod)


def finish(ctx: Ctx, mod):
    known = [k for k in load_known() if k.get('property') == ctx.prop and k.get('kind') == 'known']
    known_sigs = {k['signature']: k for k in known}
    violations = 0
    lines = []
    printed_known = set()
    idx = 0
    for f in ctx.failures:
        if f['signature'] in known_sigs:
            if f['signature'] not in printed_known:
                printed_known.add(f['signature'])
                lines.append(f"KNOWN-FINDING: property={ctx.prop} {f['signature']}: {known_sigs[f['signature']].get('description', '')}")
            continue
        idx += 1
        p = write_replay(ctx.prop, ctx.seed, idx, {'property': ctx.prop, 'kind': 'failing-input', **f})
        lines.append(f'VIOLATION property={ctx.prop} replay={p}')
        violations += 1
    unexplained = bool(ctx.proof_problems or ctx.disagreements)
    if unexplained and violations == 0:
        idx += 1
        p = write_replay(ctx.prop, ctx.seed, idx, {
            'property': ctx.prop, 'kind': 'broken-proof-or-correspondence',
            'no_longer_checks': ctx.proof_problems, 'disagreements': ctx.disagreements[:10]})
        lines.append(f'VIOLATION property={ctx.prop} replay={p} no-failing-input-found')
        violations += 1
    checker = (f'cd /verif/lean && lake build SdcModel.Properties.{ctx.prop} && '
               f'lake env lean --stdin <<< "import SdcModel.Properties.{ctx.prop} #print axioms ..."')
    write_evidence(ctx, getattr(mod, 'TRUSTED', []), checker, violations)
    for ln in lines:
        print(ln)
    dt = time.time() - ctx.t0
    print(f'[{ctx.prop}] tier={ctx.tier} seed={ctx.seed} theorems={ctx.discharged}/{ctx.obligations} '
          f'evaluations={ctx.evaluations} distinct={len(ctx._distinct)} disagreements={len(ctx.disagreements)} '
          f'oracle_failures={len(ctx.failures)} proof_problems={len(ctx.proof_problems)} wall={dt:.1f}s')
    if ctx.proof_problems:
        for p in ctx.proof_problems:
            print('  problem:', p[-1800:].replace('\n', ' | '))
    for d in ctx.disagreements[:3]:
        print('  disagreement:', json.dumps(d, default=str)[:600])
    return 1 if violations else 0
