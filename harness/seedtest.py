"""Evaluate seeded defects: /verif/seeded/<name>/{patch.diff, demo.py, meta.json}.

usage: /venv/bin/python harness/seedtest.py <name> [--tier quick] [--seeds 0,1] [--tests]
  1. demo.py on the unchanged /repo must exit 0
  2. scratch worktree of /repo HEAD (outside /repo and /verif), patch applied (git apply, falls back to --3way)
  3. demo.py on the patched tree must exit != 0
  4. optional --tests: the test modules named in meta.json (tests_run) on the patched tree
  5. ./check <property> with VERIF_REPO=<patched tree>: expected exit 1 with a VIOLATION line
  6. worktree removed
Prints one summary line: SEED <name> property=<id> demo_clean=<rc> demo_patched=<rc> check=<CAUGHT|MISSED|...> (<first VIOLATION line>)
"""
from __future__ import annotations

import argparse
import json
import os
import shutil
import subprocess
import sys
import tempfile

VERIF = os.path.dirname(os.path.dirname(os.path.abspath(__file__)))


def sh(cmd, **kw):
    return subprocess.run(cmd, shell=isinstance(cmd, str), capture_output=True, text=True, **kw)


def main():
    ap = argparse.ArgumentParser()
    ap.add_argument('name')
    ap.add_argument('--tier', default='quick')
    ap.add_argument('--seeds', default='0')
    ap.add_argument('--tests', action='store_true')
    ap.add_argument('--keep', action='store_true')
    a = ap.parse_args()
    d = os.path.join(VERIF, 'seeded', a.name)
    meta = json.load(open(os.path.join(d, 'meta.json')))
    prop = meta['property']
    env = dict(os.environ)
    env['PYTHONDONTWRITEBYTECODE'] = '1'

    def demo(tree):
        e = dict(env, PYTHONPATH=f'{tree}/src:{tree}')
        r = sh(['/venv/bin/python', os.path.join(d, 'demo.py')], env=e, timeout=600, cwd=tempfile.gettempdir())
        return r.returncode, (r.stdout + r.stderr)[-600:]
    rc_clean, out_clean = demo('/repo')
    wt = tempfile.mkdtemp(prefix=f'seedwt_{a.name}_', dir='/tmp')
    os.rmdir(wt)
    res = {'name': a.name, 'property': prop, 'demo_clean': rc_clean}
    try:
        r = sh(['git', '-C', '/repo', 'worktree', 'add', '--detach', wt, 'HEAD'])
        if r.returncode:
            print('worktree failed', r.stderr)
            sys.exit(2)
        r = sh(['git', '-C', wt, 'apply', '--whitespace=nowarn', os.path.join(d, 'patch.diff')])
        if r.returncode:
            r = sh(['git', '-C', wt, 'apply', '--3way', '--whitespace=nowarn', os.path.join(d, 'patch.diff')])
        res['applied'] = r.returncode == 0
        if not res['applied']:
            res['apply_error'] = r.stderr[-400:]
        else:
            res['demo_patched'], res['demo_out'] = demo(wt)
            if a.tests and meta.get('tests_run'):
                import re
                mods = sorted(set(re.findall(r'tests/[\w/]+\.py', ' '.join(meta['tests_run']))))
                res['tests_mods'] = mods
                e = dict(env, PYTHONPATH=f'{wt}/src:{wt}')
                r = sh(['/venv/bin/python', '-m', 'pytest', '-q', '-p', 'no:cacheprovider', '-x', *mods], env=e, cwd=wt, timeout=3000)
                res['tests_rc'] = r.returncode
                res['tests_tail'] = r.stdout[-300:]
            res['checks'] = []
            for seed in a.seeds.split(','):
                e = dict(env, VERIF_REPO=wt, VERIF_SEED=seed)
                r = sh([os.path.join(VERIF, 'check'), prop, '--tier', a.tier], env=e, cwd=VERIF, timeout=7200)
                viol = [ln for ln in r.stdout.split('\n') if ln.startswith('VIOLATION')]
                summ = [ln for ln in r.stdout.split('\n') if ln.startswith(f'[{prop}]')]
                res['checks'].append({'seed': seed, 'rc': r.returncode, 'violations': viol[:3], 'summary': summ[-1:] })
    finally:
        if not a.keep:
            sh(['git', '-C', '/repo', 'worktree', 'remove', '--force', wt])
            shutil.rmtree(wt, ignore_errors=True)
            sh(['git', '-C', '/repo', 'worktree', 'prune'])
            import glob
            import hashlib
            key = hashlib.sha1(os.path.realpath(wt).encode()).hexdigest()[:10]
            shutil.rmtree(os.path.join(VERIF, 'out', 'lean_mut_' + key), ignore_errors=True)
    caught = [c for c in res.get('checks', []) if c['rc'] == 1 and c['violations']]
    with_replay = [c for c in caught if any('no-failing-input-found' not in v for v in c['violations'])]
    verdict = 'NOT-APPLIED' if not res.get('applied') else ('CAUGHT-WITH-REPLAY' if with_replay else ('CAUGHT-NO-INPUT' if caught else 'MISSED'))
    res['verdict'] = verdict
    print(f"SEED {a.name} property={prop} demo_clean={rc_clean} demo_patched={res.get('demo_patched')} check={verdict} "
          f"{(caught[0]['violations'][0] if caught else '')}")
    print(json.dumps(res, indent=1)[:3000])
    # record what was run and what came out next to the seeded change
    if 'tests_rc' in res:
        # the last run of the named test modules on the patched tree is kept, also when later evaluations skip the tests
        meta['tests_verification'] = {'modules': res.get('tests_mods', []), 'exit': res['tests_rc'],
                                      'tail': (res.get('tests_tail') or '').strip().split('\n')[-1][:160],
                                      'repo_head': sh(['git', '-C', '/repo', 'rev-parse', '--short', 'HEAD']).stdout.strip()}
    meta['verification'] = {
        'ran': [f'demo.py on /repo (exit {rc_clean})', f"demo.py on scratch worktree of /repo HEAD + patch (exit {res.get('demo_patched')})"]
               + ([f"pytest {' '.join(res.get('tests_mods', []))} on the patched tree (exit {res.get('tests_rc')})"] if 'tests_rc' in res else [])
               + [f"VERIF_REPO=<patched tree> VERIF_SEED={c['seed']} ./check {prop} --tier {a.tier} (exit {c['rc']})" for c in res.get('checks', [])],
        'verdict': verdict,
        'violation_lines': [v for c in res.get('checks', []) for v in c['violations']][:4],
    }
    json.dump(meta, open(os.path.join(d, 'meta.json'), 'w'), indent=1)
    os.makedirs(os.path.join(VERIF, 'out', 'seedtests'), exist_ok=True)
    json.dump(res, open(os.path.join(VERIF, 'out', 'seedtests', a.name + '.json'), 'w'), indent=1)


if __name__ == '__main__':
    main()
