"""In-process provider bench + lock/access tracing for the query properties C20 and C07.

Part 1 – `Bench`: a real `SdcProvider` (tests.mockstuff.SomeDevice, never started: no sockets, no threads) whose
port type implementations are reached through the real *consumer service clients* (`GetServiceClient`,
`ContextServiceClient`, `LocalizationServiceClient`) over a loop-back "soap client": the request is built and
serialised (schema validated) by the consumer's message factory, parsed by the provider's message reader,
dispatched by the real hosted service (`hosting_service.on_post` -> `_on_get_md_state` …), the answer is
serialised by the provider's factory and parsed by the consumer's reader.

Part 2 – tracing (C07): `TracedRLock` replaces `mdib.mdib_lock`; `install_tracing` switches the MDIB object to a
traced subclass whose `__getattribute__` reports reads of the shared attributes, and wraps the three tables so that
reads of `objects` and of the indices (`get`, `get_one`, `[]`, `in`) are reported. Every report carries "does the
current thread hold mdib_lock". A hook (`Tracer.on_event`) may block – that is how schedules are forced.
"""
from __future__ import annotations

import sys
import threading
import types

sys.path.insert(0, '/repo')

import sdc11073.definitions_sdc  # noqa: F401,E402  (protocol registry must exist before an MDIB is loaded)
from sdc11073.definitions_sdc import SdcV1Definitions  # noqa: E402
from sdc11073.dispatch.request import RequestData  # noqa: E402

TESTS = '/repo/tests/'
MDIB_SINGLE = '70041_MDIB_Final.xml'
MDIB_TWO = 'mdib_two_mds.xml'
MDIB_MULTI = '70041_MDIB_multi.xml'


class LoopSoapClient:
    """Stands in for `SoapClient`: same `post_message_to` contract, no socket."""

    def __init__(self, bench, port_impl):
        self._bench = bench
        self._port_impl = port_impl
        self.last_request = None
        self.last_response = None

    def post_message_to(self, path, created_message, msg='', request_manipulator=None, validate=True):  # noqa: ARG002
        bench = self._bench
        xml_request = bench.consumer.msg_factory.serialize_message(created_message, request_manipulator=request_manipulator,
                                                                   validate=validate)
        self.last_request = xml_request
        request = RequestData({}, path, 'verif')
        request.message_data = bench.device.msg_reader.read_received_message(xml_request)
        response = self._port_impl.hosting_service.on_post(request)
        xml_response = bench.device.msg_factory.serialize_message(response)
        self.last_response = xml_response
        return bench.consumer.msg_reader.read_received_message(xml_response)

    def is_closed(self):
        return False

    def close(self):
        pass


class Bench:
    def __init__(self, mdib_file=MDIB_TWO, validate=True):
        from sdc11073.consumer.consumerimpl import SdcConsumer
        from sdc11073.consumer.serviceclients.contextservice import ContextServiceClient
        from sdc11073.consumer.serviceclients.getservice import GetServiceClient
        from sdc11073.consumer.serviceclients.localizationservice import LocalizationServiceClient
        from sdc11073.xml_types import mex_types
        from sdc11073.xml_types.addressing_types import EndpointReferenceType
        from tests import mockstuff
        self.wsd = mockstuff.MockWsDiscovery('127.0.0.1')
        self.device = mockstuff.SomeDevice.from_mdib_file(self.wsd, None, mdib_file, validate=validate)
        self.mdib = self.device.mdib
        self.consumer = SdcConsumer('http://127.0.0.1:1/verif', SdcV1Definitions, ssl_context_container=None,
                                    validate=validate)
        hs = self.device.hosted_services

        def client(cls, impl, name):
            hosted = mex_types.HostedServiceType()
            epr = EndpointReferenceType()
            epr.Address = f'http://127.0.0.1:1/verif/{name}'
            hosted.EndpointReference.append(epr)
            hosted.ServiceId = name
            return cls(self.consumer, LoopSoapClient(self, impl), hosted, impl.port_type_name)
        self.get_client = client(GetServiceClient, hs.get_service, 'Get')
        self.context_client = client(ContextServiceClient, hs.context_service, 'StateEvent')
        self.loc_client = client(LocalizationServiceClient, hs.localization_service, 'LocalizationService')

    # ---- table scans (no index of the library is used: this is the independent reference side)
    def descriptors(self):
        return list(self.mdib.descriptions.objects)

    def parent_of(self):
        return {d.Handle: d.parent_handle for d in self.mdib.descriptions.objects}

    def mds_handles(self):
        from sdc11073.xml_types import pm_qnames as pm
        return [d.Handle for d in self.mdib.descriptions.objects if d.NODETYPE == pm.MdsDescriptor]


# ------------------------------------------------------------------------------------------------------------
# Part 2: tracing
# ------------------------------------------------------------------------------------------------------------

SHARED_ATTRS = ('mdib_version', 'sequence_id', 'instance_id', 'mdib_version_group', 'descriptions', 'states',
                'context_states', 'mdstate_version', 'mddescription_version')
VERSION_ATTRS = ('mdib_version', 'sequence_id', 'instance_id', 'mdib_version_group')


class Tracer:
    """Collects events of the traced thread(s): ('acq'|'rel', depth_after) and ('rd', what, holds_lock)."""

    def __init__(self):
        self.events = []
        self.enabled = False
        self.on_event = None        # callable(kind, what, holds) run in the acting thread; may block
        self._suspend = threading.local()

    def emit(self, kind, what, holds):
        if not self.enabled or getattr(self._suspend, 'on', False):
            return
        self.events.append((threading.get_ident(), kind, what, holds))
        if self.on_event is not None:
            self._suspend.on = True
            try:
                self.on_event(kind, what, holds)
            finally:
                self._suspend.on = False


class TracedRLock:
    """Re-entrant lock that reports acquire / release (with the nesting depth) to a tracer."""

    def __init__(self, tracer, name='mdib_lock'):
        self._lock = threading.RLock()
        self._tracer = tracer
        self._owner = None
        self._depth = 0
        self.name = name

    def held_by_me(self):
        return self._owner == threading.get_ident()

    def acquire(self, blocking=True, timeout=-1):
        # the yield point lies *before* the acquisition (the hook may run other threads to completion)
        if not self.held_by_me():
            self._tracer.emit('before-acq', self.name, False)
        ok = self._lock.acquire(blocking, timeout)
        if ok:
            self._owner = threading.get_ident()
            self._depth += 1
            if self._depth == 1:
                self._tracer.emit('acq', self.name, True)
        return ok

    def release(self):
        self._depth -= 1
        outer = self._depth == 0
        if outer:
            self._owner = None
        self._lock.release()
        if outer:
            self._tracer.emit('rel', self.name, False)

    __enter__ = acquire

    def __exit__(self, *exc):
        self.release()


class _TracedIndex:
    """Wraps one `IndexDefinition` (a dict): reads are reported, everything else is passed through."""

    def __init__(self, idx, table_name, tracer, lock):
        object.__setattr__(self, '_idx', idx)
        object.__setattr__(self, '_rd', lambda: tracer.emit('rd', table_name, lock.held_by_me()))

    def get(self, *a, **k):
        self._rd()
        return self._idx.get(*a, **k)

    def get_one(self, *a, **k):
        self._rd()
        return self._idx.get_one(*a, **k)

    def __getitem__(self, key):
        self._rd()
        return self._idx[key]

    def __contains__(self, key):
        self._rd()
        return key in self._idx

    def __iter__(self):
        self._rd()
        return iter(self._idx)

    def __len__(self):
        self._rd()
        return len(self._idx)

    def keys(self):
        self._rd()
        return self._idx.keys()

    def values(self):
        self._rd()
        return self._idx.values()

    def items(self):
        self._rd()
        return self._idx.items()

    def __getattr__(self, name):
        return getattr(self._idx, name)


def install_tracing(mdib, tracer=None):
    """Replace `mdib.mdib_lock` by a TracedRLock and make reads of the shared MDIB data observable.

    Returns (tracer, lock). Writers (transactions) use the same replaced lock object, so mutual exclusion is the
    library's own; only the *observation* is added.
    """
    tracer = tracer or Tracer()
    lock = TracedRLock(tracer)
    # tables: traced subclass per table instance (objects property + index access through __getattr__)
    for table_name in ('descriptions', 'states', 'context_states'):
        table = getattr(mdib, table_name)
        base = type(table)

        def _objects(self, _n=table_name, _b=base):
            tracer.emit('rd', _n, lock.held_by_me())
            return _b.objects.fget(self)

        def _getattr(self, name, _n=table_name, _b=base):
            idx = _b.__getattr__(self, name)
            return _TracedIndex(idx, _n, tracer, lock)
        traced = type('Traced' + base.__name__, (base,), {'objects': property(_objects), '__getattr__': _getattr})
        table.__class__ = traced
    base_mdib = type(mdib)

    def _getattribute(self, name, _b=base_mdib):
        if name in VERSION_ATTRS or name in ('mdstate_version', 'mddescription_version'):
            if name != 'mdib_version_group':  # the property reads the three members itself (reported there)
                tracer.emit('rd', 'version', lock.held_by_me())
        return _b.__getattribute__(self, name)
    mdib.__class__ = type('Traced' + base_mdib.__name__, (base_mdib,), {'__getattribute__': _getattribute})
    mdib.mdib_lock = lock
    return tracer, lock


def collapse(events, thread_id=None):
    """Event list -> action list of the model: acq, rel, rdC (table read), rdV (version read).

    Re-entrant inner acquire/release pairs are not reported by TracedRLock at all (depth > 1), consecutive reads of
    the same kind inside the same lock state are merged (the model's read actions are idempotent observations).
    """
    out = []
    for tid, kind, what, _holds in events:
        if thread_id is not None and tid != thread_id:
            continue
        if kind == 'before-acq':
            continue
        if kind in ('acq', 'rel'):
            out.append(kind)
        else:
            act = 'rdV' if what == 'version' else 'rdC'
            if out and out[-1] == act:
                continue
            out.append(act)
    return out
