"""In-process provider bench + lock/access tracing for the query properties C20 and C07.

Part 1 – `Bench`: a real `SdcProvider` (tests.mockstuff.SomeDevice, never started: no sockets, no threads) whose
port type implementations are reached through the real *consumer service clients* (`GetServiceClient`,
`ContextServiceClient`, `LocalizationServiceClient`) over a loop-back "soap client": the request is built and
serialised (schema validated) by the consumer's message factory, parsed by the provider's message reader,
dispatched by the real hosted service (`hosting_service.on_post` -> `_on_get_md_state` …), the answer is
serialised by the provider's factory and parsed by the consumer's reader.

Part 2 – tracing (C07): `install_tracing(mdib)` replaces `mdib.mdib_lock` / `mdib._tr_lock` by `TracedLock`s, switches the
MDIB object and its three tables to traced subclasses (reads / writes of the version members, `objects`, index access
`get` / `get_one` / `[]` / `in`, table mutators) and patches `ContainerBase.update_node` (serialisation = read of object
content) and the in-place update methods of descriptor containers at class level. Every event carries "does the
current thread hold mdib_lock". `Tracer.on_event` runs in the acting thread and may block – that is how schedules are
forced. `to_actions` turns an event list into the action list of the Lean model (`Sdc.LockLts.Act`).
"""
from __future__ import annotations

import os
import sys
import threading

REPO = os.environ.get('VERIF_REPO', '/repo')   # mutation experiments run against a copy of the repository
if REPO not in sys.path:
    sys.path.insert(0, REPO)

import sdc11073.definitions_sdc  # noqa: F401,E402  (protocol registry must exist before an MDIB is loaded)
from sdc11073.definitions_sdc import SdcV1Definitions  # noqa: E402
from sdc11073.dispatch.request import RequestData  # noqa: E402

TESTS = REPO + '/tests/'
MDIB_SINGLE = '70041_MDIB_Final.xml'
MDIB_TWO = 'mdib_two_mds.xml'
MDIB_MULTI = '70041_MDIB_multi.xml'


class LoopSoapClient:
    """Stands in for `SoapClient`: same `post_message_to` contract, no socket."""

    def __init__(self, bench, port_impl):
        self._bench = bench
        self._port_impl = port_impl
        self.last_request = None
        self.last_response = None

    def post_message_to(self, path, created_message, msg='', request_manipulator=None, validate=True):  # noqa: ARG002
        bench = self._bench
        xml_request = bench.consumer.msg_factory.serialize_message(created_message, request_manipulator=request_manipulator,
                                                                   validate=validate)
        self.last_request = xml_request
        request = RequestData({}, path, 'verif')
        request.message_data = bench.device.msg_reader.read_received_message(xml_request)
        response = self._port_impl.hosting_service.on_post(request)
        # the handler returned an unserialised message (the http layer serialises later): `before_serialise` (one-shot)
        # lets other requests / transactions happen in between, as with overlapping connections
        hook = bench.before_serialise
        if hook is not None:
            bench.before_serialise = None
            hook()
        xml_response = bench.device.msg_factory.serialize_message(response)
        self.last_response = xml_response
        return bench.consumer.msg_reader.read_received_message(xml_response)

    def is_closed(self):
        return False

    def close(self):
        pass


class Bench:
    def __init__(self, mdib_file=MDIB_TWO, validate=True, role_providers=True):
        from sdc11073.consumer.consumerimpl import SdcConsumer
        from sdc11073.consumer.serviceclients.contextservice import ContextServiceClient
        from sdc11073.consumer.serviceclients.getservice import GetServiceClient
        from sdc11073.consumer.serviceclients.localizationservice import LocalizationServiceClient
        from sdc11073.xml_types import mex_types
        from sdc11073.xml_types.addressing_types import EndpointReferenceType
        from tests import mockstuff
        self.wsd = mockstuff.MockWsDiscovery('127.0.0.1')
        kw = {}
        if not role_providers:
            # the example role providers run worker threads that commit transactions on their own (alert self check)
            from sdc11073.provider.providerimpl import RoleProviderComponents
            kw['role_provider_components'] = RoleProviderComponents(role_provider_class=None, waveform_provider_class=None)
        self.device = mockstuff.SomeDevice.from_mdib_file(self.wsd, None, mdib_file, validate=validate, **kw)
        self.mdib = self.device.mdib
        self.before_serialise = None
        self.consumer = SdcConsumer('http://127.0.0.1:1/verif', SdcV1Definitions, ssl_context_container=None,
                                    validate=validate)
        hs = self.device.hosted_services

        def client(cls, impl, name):
            hosted = mex_types.HostedServiceType()
            epr = EndpointReferenceType()
            epr.Address = f'http://127.0.0.1:1/verif/{name}'
            hosted.EndpointReference.append(epr)
            hosted.ServiceId = name
            return cls(self.consumer, LoopSoapClient(self, impl), hosted, impl.port_type_name)
        self.get_client = client(GetServiceClient, hs.get_service, 'Get')
        self.context_client = client(ContextServiceClient, hs.context_service, 'StateEvent')
        self.loc_client = client(LocalizationServiceClient, hs.localization_service, 'LocalizationService')

    # ---- table scans (no index of the library is used: this is the independent reference side)
    def descriptors(self):
        return list(self.mdib.descriptions.objects)

    def parent_of(self):
        return {d.Handle: d.parent_handle for d in self.mdib.descriptions.objects}

    def mds_handles(self):
        from sdc11073.xml_types import pm_qnames as pm
        return [d.Handle for d in self.mdib.descriptions.objects if d.NODETYPE == pm.MdsDescriptor]


# ------------------------------------------------------------------------------------------------------------
# Part 2: tracing
# ------------------------------------------------------------------------------------------------------------

VERSION_ATTRS = ('mdib_version', 'sequence_id', 'instance_id', 'mdstate_version', 'mddescription_version')
TABLES = ('descriptions', 'states', 'context_states')
TABLE_WRITERS = ('add_object', 'add_object_no_lock', 'add_objects', 'add_objects_no_lock', 'remove_object',
                 'remove_object_no_lock', 'remove_objects', 'remove_objects_no_lock', 'update_object',
                 'update_object_no_lock', 'update_objects', 'update_objects_no_lock', 'clear')


class Tracer:
    """Collects events (thread name, kind, what, holds_mdib_lock).

    kinds: 'before-acq' / 'acq' / 'rel' (outermost level of a traced lock only), 'acq-timed' (acquire with a timeout or
    non-blocking) / 'acq-expired' (that acquire gave up), 'rdV' / 'wrV' (version members),
    'rdC' / 'wrC' (tables; what = table name, 'descriptor-object' for an in-place update of a descriptor, 'state-object'
    for an assignment to an attribute of a state object that is in a table),
    'deref' (serialisation of a container = read of object content; what = 'descriptor' | 'state').
    `on_event(kind, what, holds)` runs in the acting thread and may block: that is how schedules are forced.
    """

    def __init__(self):
        self.events = []
        self.enabled = False
        self.on_event = None
        self.mdib_lock = None
        self.locks = {}
        self.state_tables = []
        self.on_before_release = None  # callable(lock name), run by the releasing thread while it still holds the lock
        self.expire_timeouts = False   # False | True (when another thread holds the lock) | 'always'
        self._suspend = threading.local()

    def holds(self):
        return self.mdib_lock is not None and self.mdib_lock.held_by_me()

    def suspended(self):
        """context manager: nothing the current thread does is reported"""
        tracer = self

        class _S:
            def __enter__(self):
                self.prev = getattr(tracer._suspend, 'on', False)  # noqa: SLF001
                tracer._suspend.on = True  # noqa: SLF001

            def __exit__(self, *exc):
                tracer._suspend.on = self.prev  # noqa: SLF001
        return _S()

    def emit(self, kind, what=''):
        if not self.enabled or getattr(self._suspend, 'on', False):
            return
        holds = self.holds()
        self.events.append((threading.current_thread().name, kind, what, holds))
        if self.on_event is not None:
            self._suspend.on = True
            try:
                self.on_event(kind, what, holds)
            finally:
                self._suspend.on = False


class TracedLock:
    """Lock / RLock stand-in that reports the outermost acquire / release of the owning thread."""

    def __init__(self, tracer, name, reentrant=True):
        self._lock = threading.RLock() if reentrant else threading.Lock()
        self._tracer = tracer
        self._owner = None
        self._depth = 0
        self.name = name

    def held_by_me(self):
        return self._owner == threading.get_ident()

    def acquire(self, blocking=True, timeout=-1):
        mine = self.held_by_me()
        timed = (not blocking) or (timeout is not None and timeout >= 0)
        if timed and not mine:
            # an acquire that can give up: reported, and - virtual time - it gives up at once when the tracer says that
            # the current owner keeps the lock longer than any timeout (`expire_timeouts`), without waiting for real
            self._tracer.emit('acq-timed', self.name)
            if self._tracer.expire_timeouts and (self._owner is not None or self._tracer.expire_timeouts == 'always'):
                self._tracer.emit('acq-expired', self.name)
                return False
        if not mine:
            self._tracer.emit('before-acq', self.name)   # yield point before the thread may block
        ok = self._lock.acquire(blocking, timeout)
        if ok:
            self._owner = threading.get_ident()
            self._depth += 1
            if self._depth == 1:
                self._tracer.emit('acq', self.name)
        return ok

    def release(self):
        self._depth -= 1
        outer = self._depth == 0
        if outer and self._tracer.on_before_release is not None and self._tracer.enabled:
            # still holding the lock: what the thread leaves behind can be looked at consistently (no event, no yield point)
            with self._tracer.suspended():
                self._tracer.on_before_release(self.name)
        if outer:
            self._owner = None
        self._lock.release()
        if outer:
            self._tracer.emit('rel', self.name)

    def __enter__(self):
        return self.acquire()

    def __exit__(self, *exc):
        self.release()


class _TracedIndex:
    """Wraps one `IndexDefinition` (a dict): reads are reported, everything else is passed through."""

    def __init__(self, idx, table_name, tracer):
        object.__setattr__(self, '_idx', idx)
        object.__setattr__(self, '_rd', lambda: tracer.emit('rdC', table_name))

    def get(self, *a, **k):
        self._rd()
        return self._idx.get(*a, **k)

    def get_one(self, *a, **k):
        self._rd()
        return self._idx.get_one(*a, **k)

    def __getitem__(self, key):
        self._rd()
        return self._idx[key]

    def __contains__(self, key):
        self._rd()
        return key in self._idx

    def __iter__(self):
        self._rd()
        return iter(self._idx)

    def __len__(self):
        self._rd()
        return len(self._idx)

    def keys(self):
        self._rd()
        return self._idx.keys()

    def values(self):
        self._rd()
        return self._idx.values()

    def items(self):
        self._rd()
        return self._idx.items()

    def __getattr__(self, name):
        return getattr(self._idx, name)


def install_tracing(mdib, tracer=None):
    """Make the shared MDIB data of `mdib` observable; returns the tracer.

    * `mdib.mdib_lock` / `mdib._tr_lock` are replaced by TracedLocks (mutual exclusion stays the interpreter's own),
    * the MDIB object gets a traced subclass: reads / writes of the version members are reported,
    * each table gets a traced subclass: `objects`, index access (via `__getattr__`) and the mutators are reported,
    * `ContainerBase.update_node` (serialisation of a descriptor / state object) is reported as 'deref'
      (class level patch, active while `tracer.enabled`).
    """
    from sdc11073.mdib import containerbase
    tracer = tracer or Tracer()
    lock = TracedLock(tracer, 'mdib_lock', reentrant=True)
    tracer.mdib_lock = lock
    tracer.locks['mdib_lock'] = lock
    for table_name in TABLES:
        table = getattr(mdib, table_name)
        base = type(table)
        ns = {}

        def _objects(self, _n=table_name, _b=base):
            tracer.emit('rdC', _n)
            return _b.objects.fget(self)
        ns['objects'] = property(_objects)

        def _getattr(self, name, _n=table_name, _b=base):
            return _TracedIndex(_b.__getattr__(self, name), _n, tracer)
        ns['__getattr__'] = _getattr
        for meth in TABLE_WRITERS:
            if hasattr(base, meth):
                def _w(self, *a, _m=meth, _n=table_name, _b=base, **k):
                    tracer.emit('wrC', _n)
                    # the library's own implementation; nested mutator calls are reported again (merged later)
                    return getattr(_b, _m)(self, *a, **k)
                ns[meth] = _w
        table.__class__ = type('Traced' + base.__name__, (base,), ns)
    base_mdib = type(mdib)

    def _getattribute(self, name, _b=base_mdib):
        if name in VERSION_ATTRS:
            tracer.emit('rdV', name)
        return _b.__getattribute__(self, name)

    def _setattr(self, name, value, _b=base_mdib):
        if name in VERSION_ATTRS:
            tracer.emit('wrV', name)
        return _b.__setattr__(self, name, value)
    mdib.__class__ = type('Traced' + base_mdib.__name__, (base_mdib,), {'__getattribute__': _getattribute,
                                                                       '__setattr__': _setattr})
    mdib.mdib_lock = lock
    if hasattr(mdib, '_tr_lock'):
        mdib._tr_lock = TracedLock(tracer, 'tr_lock', reentrant=False)  # noqa: SLF001
        tracer.locks['tr_lock'] = mdib._tr_lock  # noqa: SLF001
    if not getattr(containerbase.ContainerBase, '_verif_traced', False):
        from sdc11073.mdib import descriptorcontainers
        orig = containerbase.ContainerBase.update_node

        def update_node(self, *a, **k):
            tr = _ACTIVE_TRACER[0]
            if tr is not None:
                tr.emit('deref', 'descriptor' if getattr(self, 'is_descriptor_container', False) else 'state')
            return orig(self, *a, **k)
        containerbase.ContainerBase.update_node = update_node
        # descriptor objects in the table are updated in place by descriptor transactions: a write of the description
        dcls = descriptorcontainers.AbstractDescriptorContainer
        for meth in ('update_from_other_container', 'increment_descriptor_version'):
            o = getattr(dcls, meth)

            def _w(self, *a, _o=o, **k):
                tr = _ACTIVE_TRACER[0]
                if tr is not None:
                    tr.emit('wrC', 'descriptor-object')
                return _o(self, *a, **k)
            setattr(dcls, meth, _w)
        # in-place write to a state object that IS in a table (published): the model's `mutate`
        from sdc11073.mdib import statecontainers
        scls = statecontainers.AbstractStateContainer
        orig_setattr = scls.__setattr__

        def _state_setattr(self, name, value, _o=orig_setattr):
            tr = _ACTIVE_TRACER[0]
            if tr is not None and tr.enabled and not name.startswith('_') and name not in ('node', 'descriptor_container'):
                if any(self in t._objects for t in tr.state_tables):  # noqa: SLF001
                    tr.emit('wrC', 'state-object')
            return _o(self, name, value)
        scls.__setattr__ = _state_setattr
        containerbase.ContainerBase._verif_traced = True  # noqa: SLF001
    tracer.state_tables = [mdib.states, mdib.context_states]
    _ACTIVE_TRACER[0] = tracer
    return tracer


_ACTIVE_TRACER = [None]

LOCK_IDS = {'mdib_lock': 0, 'tr_lock': 1}


def to_actions(events, thread_id=None):
    """Event list -> action list of the Lean model (`Sdc.LockLts.Act`).

    Normalisation (so that the program does not depend on how many attribute reads / objects an implementation
    touches): re-entrant inner acquire/release pairs never show up (TracedLock reports the outermost level only);
    within a run of read-type events (rdV, rdC, deref) that is not interrupted by a lock operation or a write, every
    kind is kept once, in order of first occurrence (in the model a repeated read in the same lock state without an
    own write in between observes the same value); consecutive writes of one kind are merged. Everything that concerns
    the description (table `descriptions`, descriptor objects) becomes `rdD` / `wrD k`, state tables `rdC` / `wrC k`,
    serialisation of state objects `deref`, assignment to an attribute of a state object that is in a table `mutate k`;
    k = number of the write burst (every burst installs a new content).
    """
    out = []
    seen = set()
    n_wr = 0
    for tid, kind, what, _holds in events:
        if thread_id is not None and tid != thread_id:
            continue
        if kind in ('before-acq', 'acq-timed', 'acq-expired'):
            continue
        if kind in ('acq', 'rel'):
            out.append(f'{kind} {LOCK_IDS[what]}')
            seen = set()
            continue
        act = {'rdV': 'rdV', 'rdC': 'rdC', 'deref': 'deref', 'wrV': 'incV', 'wrC': 'wrC'}[kind]
        # the description (descriptions table, descriptor objects) is content that is read / written by value
        if what in ('descriptions', 'descriptor', 'descriptor-object'):
            act = {'rdC': 'rdD', 'deref': 'rdD', 'wrC': 'wrD'}.get(act, act)
        if what == 'state-object':
            act = 'mutate'       # attribute of a published state object assigned in place
        if act in ('incV', 'wrC', 'wrD', 'mutate'):
            seen = set()
            if out and out[-1].split()[0] == act:
                continue
            if act in ('wrC', 'wrD', 'mutate'):
                n_wr += 1
                act = f'{act} {n_wr}'
            out.append(act)
        elif act not in seen:
            seen.add(act)
            out.append(act)
    return out
