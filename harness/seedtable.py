"""Markdown table of the seeded changes and what the checks made of them (from seeded/*/meta.json)."""
import glob, json, os
V = os.path.dirname(os.path.dirname(os.path.abspath(__file__)))
rows = []
for f in sorted(glob.glob(os.path.join(V, 'seeded', '*', 'meta.json'))):
    m = json.load(open(f))
    name = os.path.basename(os.path.dirname(f))
    v = m.get('verification', {})
    title = (m.get('title') or m.get('what_breaks') or '')[:110].replace('|', '/').replace('\n', ' ')
    needs = (m.get('needs_to_manifest') or '')[:150].replace('|', '/').replace('\n', ' ')
    viol = (v.get('violation_lines') or [''])[0]
    kind = 'replay' if (viol and 'no-failing-input-found' not in viol) else ('no-failing-input-found' if viol else '-')
    rows.append(f"| {name} | {title} | {needs} | {v.get('verdict', 'not run')} ({kind}) |")
print('| seed | change | needs to manifest | result of the check |\n|---|---|---|---|')
print('\n'.join(rows))
