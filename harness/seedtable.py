"""Markdown table of the seeded changes and what the checks made of them (from seeded/*/meta.json).
usage: seedtable.py [--into-design]   (replaces the text between the SEEDTABLE markers of DESIGN.md)"""
import glob, json, os, re, sys
V = os.path.dirname(os.path.dirname(os.path.abspath(__file__)))


def key(f):
    name = os.path.basename(os.path.dirname(f))
    a, b = name.split('-')
    return a, int(b)


rows, n_tests = [], 0
for f in sorted(glob.glob(os.path.join(V, 'seeded', '*', 'meta.json')), key=key):
    m = json.load(open(f))
    name = os.path.basename(os.path.dirname(f))
    v = m.get('verification', {})
    tv = m.get('tests_verification') or {}
    title = (m.get('title') or m.get('what_breaks') or '')[:110].replace('|', '/').replace('\n', ' ')
    needs = (m.get('needs_to_manifest') or '')[:150].replace('|', '/').replace('\n', ' ')
    viol = (v.get('violation_lines') or [''])[0]
    kind = 'replay' if (viol and 'no-failing-input-found' not in viol) else ('no-failing-input-found' if viol else '-')
    if tv.get('exit') == 0:
        tests = f"pass ({len(tv.get('modules', []))} modules, re-run here)"
        n_tests += 1
    elif tv:
        tests = f"exit {tv.get('exit')}"
    else:
        tests = 'as reported by the seeding agent'
    rows.append(f"| {name} | {title} | {needs} | {tests} | {v.get('verdict', 'not run')} ({kind}) |")
head = (f'{len(rows)} seeded changes; named test modules re-run on the patched tree by `seedtest.py --tests` for {n_tests} of them '
        '(the others: as run and reported by the seeding agent in `meta.json`).\n\n'
        '| seed | change | needs to manifest | existing tests on the patched tree | result of the check |\n|---|---|---|---|---|')
table = head + '\n' + '\n'.join(rows)
if '--into-design' in sys.argv:
    p = os.path.join(V, 'DESIGN.md')
    s = open(p).read()
    b, e = '<!-- SEEDTABLE BEGIN -->', '<!-- SEEDTABLE END -->'
    if b in s:
        s = s[:s.index(b) + len(b)] + '\n' + table + '\n' + s[s.index(e):]
    else:
        s = s.rstrip('\n') + '\n\n' + b + '\n' + table + '\n' + e + '\n'
    open(p, 'w').write(s)
else:
    print(table)
