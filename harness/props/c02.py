"""C02 — MDIB version counters are monotonic, gap-free and referentially consistent.

Tie: correspondence of the Lean provider model (SdcModel/Mdib.lean, MdibDescr.lean) with the real ProviderMdib on
random transaction histories over all seven transaction kinds (harness/txharness.py); after every script the outcome,
the TransactionResult and the complete table dump (+ saved-version lookups) are compared.
Oracle: the five clauses of the property evaluated on canonical snapshots of the real tables.
"""
from __future__ import annotations

import copy
import json
import os

import core
import loopback as lb
import txharness as tx

READY = True
DRIVERS = ['drv_c02']
MANIFEST = dict(
    technique='Lean 4 invariant proofs by induction over transaction histories on a transcribed model of the provider '
              'transactions (all seven kinds, classic and entity interface) + differential correspondence with ProviderMdib on '
              'random histories',
    text='Properties/C02.lean (23 theorems): MdibVersion +1 exactly on a commit and unchanged on empty / aborted / rejected '
         'transactions (all kinds); the referential well-formedness invariant (every state refers to an existing descriptor with '
         'its current version, one single state per descriptor, parents exist, unique handles) is preserved by every state and '
         'context script and by every descriptor script under two decidable side conditions (kind discipline KOK; entities '
         'written are well-formed Entity objects, DScriptOK), lifted to histories; per-object version counters (live or saved) '
         'never decrease, also across delete / re-create, and a content change strictly increases them. The model is executed '
         'side by side with the real ProviderMdib on random histories (hot handles, stale entities, related objects in both '
         'orders, aborts, rejected calls) and compared on outcome, TransactionResult and full table dumps incl. the saved-version '
         'lookups after every transaction; the oracle evaluates the clauses of the property on snapshots of the real tables.',
    note='Trusted: Lean kernel, harness/txharness.py (generator, canonicaliser: container content abstracted to an interned '
         'body id; DeterminationTime and the self-updating clock time excluded), role-provider pre_commit hooks not installed, '
         'scripts use adjust_version_counter=True only, write_entities is expanded by the harness after its all-or-nothing '
         'pre-check. Descriptor-transaction theorems are _partial (hypotheses KOK, DScriptOK; negative witnesses for the '
         'unconditional statements are proved).',
    ref='9 C02')
RULE = ('one case = one transaction script (state / context / descriptor kind, classic or entity calls, optional abort or '
        'rejected call) executed inside a history on the real ProviderMdib; distinct by the canonical script + position; '
        'non-trivial = the script contains at least one call (committed, aborted or rejected)')
TRUSTED = ['container content abstracted to an interned canonical body (all _props, implied values resolved)',
           'Python object identity of table objects abstracted to unique keys (handles)']
ASSUMPTIONS = ['pre_commit / post_commit handlers of role providers are not installed',
               'adjust_version_counter / adjust_state_version are left at their default (True)']

MDIBS = [lb.MDIB_1, lb.MDIB_2]


def snapshot_versions(snap):
    v = {}
    for h, d in snap['descriptors'].items():
        v['D:' + h] = (d['ver'], d['body'], d['parent'])
    for h, s in snap['states'].items():
        v['S:' + h] = (s['sv'], (s['body'], s['dv']))
    for h, s in snap['context_states'].items():
        v['C:' + h] = (s['sv'], (s['body'], s['dv'], s['dh']))
    return v


def norm_snap(snap):
    """remove the self-updating parts"""
    s = copy.deepcopy(snap)
    for tab in ('states', 'context_states'):
        for st in s[tab].values():
            st['body'] = tx.strip_keys(st['body'], ('DeterminationTime', 'DateAndTime'))
    return s


class Oracle:
    """The clauses of C02 on snapshots of the real tables (independent of the Lean model)."""

    def __init__(self, ctx, snap, mdib_path=None):
        self.ctx = ctx
        self.mdib_path = mdib_path
        self.last_ver = {}     # key -> highest version counter ever seen (survives deletion)
        self.prev = norm_snap(snap)
        self._note(self.prev)

    def _note(self, snap):
        for k, (ver, *_rest) in snapshot_versions(snap).items():
            self.last_ver[k] = max(self.last_ver.get(k, -1), ver)

    def check(self, snap, outcome, history):
        snap = norm_snap(snap)
        prev = self.prev
        fails = []
        changed = any(prev[t] != snap[t] for t in ('descriptors', 'states', 'context_states'))
        dv = snap['version'] - prev['version']
        if outcome in ('aborted', 'rejected', 'empty', 'commit-failed'):
            if dv != 0:
                fails.append(('mdib-version-changed-without-commit', f'{outcome} transaction: MdibVersion {prev["version"]} -> {snap["version"]}'))
            if changed:
                fails.append(('tables-changed-without-commit', f'{outcome} transaction changed the tables: {lb.diff_snapshots(prev, snap)[:4]}'))
        elif outcome == 'committed':
            if changed and dv != 1:
                fails.append(('mdib-version-step', f'changing commit: MdibVersion {prev["version"]} -> {snap["version"]}'))
            if dv not in (0, 1):
                fails.append(('mdib-version-step', f'MdibVersion {prev["version"]} -> {snap["version"]}'))
        pv, nv = snapshot_versions(prev), snapshot_versions(snap)
        for k, (ver, *content) in nv.items():
            last = self.last_ver.get(k)
            if last is not None and ver < last:
                fails.append(('version-counter-decreased', f'{k}: version {ver} after {last} was already used'))
            if k in pv:
                if content != list(pv[k][1:]) and ver <= pv[k][0]:
                    fails.append(('content-changed-without-version-increase', f'{k}: content changed, version {pv[k][0]} -> {ver}'))
            elif last is not None and ver <= last:
                fails.append(('recreated-with-old-version', f'{k}: re-created with version {ver}, last version was {last}'))
        # referential consistency
        for h, s in snap['states'].items():
            d = snap['descriptors'].get(h)
            if d is None:
                fails.append(('state-without-descriptor', f'state {h} has no descriptor'))
            elif d['ver'] != s['dv']:
                fails.append(('state-descriptor-version-mismatch', f'state {h}: DescriptorVersion {s["dv"]}, descriptor has {d["ver"]}'))
        for h, s in snap['context_states'].items():
            d = snap['descriptors'].get(s['dh'])
            if d is None:
                fails.append(('state-without-descriptor', f'context state {h} has no descriptor {s["dh"]}'))
            elif d['ver'] != s['dv']:
                fails.append(('state-descriptor-version-mismatch', f'context state {h}: DescriptorVersion {s["dv"]}, descriptor has {d["ver"]}'))
        for h, d in snap['descriptors'].items():
            if d['parent'] is not None and d['parent'] not in snap['descriptors']:
                fails.append(('descriptor-without-parent', f'descriptor {h}: parent {d["parent"]} does not exist'))
        self._note(snap)
        self.prev = snap
        for sig, detail in fails:
            self.ctx.fail(sig, detail, {'history': history, 'mdib': self.mdib_path})
        return fails


def single_state_counts(mdib):
    """more than one single state per descriptor (scan of the objects, not the unique index)"""
    seen = {}
    for s in mdib.states.objects:
        seen[s.DescriptorHandle] = seen.get(s.DescriptorHandle, 0) + 1
    return [h for h, n in seen.items() if n > 1]


def run_history(ctx, mdib_path, rng, n_tx, hooks=(), scripts=None, instance_id=1):
    """Run one history on a fresh provider; returns (world, history, infos)."""
    p = lb.Provider(mdib_path=mdib_path, start=False, role_providers=False, instance_id=instance_id)
    w = tx.World(p, rng)
    w.mdib_path = mdib_path
    history, infos = [], []
    try:
        w.load_lines()
        for h in hooks:
            h.start(w)
        if callable(scripts):
            scripts = scripts(w)
        k = 0
        while True:
            if scripts is not None:
                if k >= len(scripts):
                    break
                script = scripts[k]
            else:
                if k >= n_tx:
                    break
                script = w.gen_script()
            k += 1
            bd = {d.Handle: d.mk_copy() for d in p.mdib.descriptions.objects}
            bs = {s.DescriptorHandle: s.mk_copy() for s in p.mdib.states.objects}
            bc = {s.Handle: s.mk_copy() for s in p.mdib.context_states.objects}
            for h in hooks:
                h.before(w, script)
            info = w.execute(script)
            w.note_removed(bd, bs, bc)
            history.append(script)
            infos.append(info)
            for h in hooks:
                h.after(w, script, info, history)
    finally:
        w.close()
    return w, history, infos


class C02Hook:
    def __init__(self, ctx):
        self.ctx = ctx

    def start(self, w):
        # the application keeps writing into what it was handed after the transaction ended (aborted or committed): content
        # that changes this way changes without a version increase
        w.late_writes = True
        self.oracle = Oracle(self.ctx, lb.snapshot(w.mdib), w.mdib_path)

    def before(self, w, script):
        pass

    def after(self, w, script, info, history):
        self.oracle.check(lb.snapshot(w.mdib), info['outcome'], list(history))
        dup = single_state_counts(w.mdib)
        if dup:
            self.ctx.fail('more-than-one-single-state', f'descriptors with several single states: {dup}', {'history': list(history), 'mdib': w.mdib_path})
        for sig, detail in info.get('isolation_failures', []):
            if sig == 'rejected-call-changed-transaction':
                self.ctx.count('note:' + sig)
            elif sig == 'late-write-changed-mdib':
                # the application wrote into what it had been handed after the transaction was over and the published content
                # changed with it: no transaction, no version counter moved
                self.ctx.fail('content-changed-without-version-increase', detail, {'history': list(history), 'mdib': w.mdib_path})
        if info['outcome'] == 'commit-failed':
            # no clause of C02 by itself; C03 owns it. It is recorded so that the distribution is visible.
            self.ctx.count('commit-failed:' + str(info['error'])[:60])
        self.ctx.count('outcome:' + info['outcome'])
        self.ctx.count('tx:' + script['tx'] + (':' + script.get('kind', '') if script['tx'] == 'S' else ''))
        for c in script['calls']:
            self.ctx.count('call:' + script['tx'] + '.' + c[0])


def order_free(line, text):
    """Canonical form for the comparison: the order of states inside one result list / report part, and the order of the
    parts of one state report, are not part of any property (order of descriptors in U/N/X and of the parts of a
    description modification report is kept: children must come before / after their parents)."""
    if line.startswith('end'):
        head, _, rest = text.partition(' ')
        secs = []
        for sec in rest.split('|'):
            name, _, items = sec.partition(' ')
            if name in ('U', 'N', 'X'):
                secs.append(sec)
            else:
                secs.append(name + ' ' + ';'.join(sorted(items.split(';'))))
        return head + ' ' + '|'.join(secs)
    if line.startswith('reports'):
        reps = []
        for rep in text.split(' ## '):
            if rep.startswith('DESCR') or ' :: ' not in rep:
                reps.append(rep)
                continue
            head, _, parts = rep.partition(' :: ')
            ps = []
            for part in parts.split(' && '):
                mds, _, items = part.partition('=[')
                ps.append(mds + '=[' + ';'.join(sorted(items.rstrip(']').split(';'))) + ']')
            reps.append(head + ' :: ' + ' && '.join(sorted(ps)))
        return ' ## '.join(sorted(reps))
    return text


def compare_model(ctx, w, history, drv):
    if not ctx.driver_ok:
        return
    out = ctx.driver(drv, w.model_lines)
    k = 0
    for i, (line, exp, got) in enumerate(zip(w.model_lines, w.expected, out)):
        if line.startswith('begin'):
            k += 1
        if exp is not None and order_free(line, exp) != order_free(line, got):
            what = 'transaction outcome + TransactionResult' if line.startswith('end') else (
                'table dump after transaction' if line == 'dump' else 'driver op')
            j = i
            while j > 0 and not w.model_lines[j].startswith('begin'):
                j -= 1
            ctx.disagree(f'provider model vs ProviderMdib: {what}', {'mdib': w.mdib_path, 'history': history[:k], 'script_lines': w.model_lines[j:i + 1]},
                         _short_diff(got, exp), _short_diff(exp, got))
            return


def _short_diff(a, b):
    pa, pb = a.split('|'), b.split('|')
    out = []
    for x, y in zip(pa, pb):
        if x != y:
            sx, sy = x.split(';'), set(y.split(';'))
            out.append(x.split(' ')[0] + ': ' + ';'.join([e for e in sx if e not in sy][:6]) + (' (order)' if set(sx) == sy else ''))
    return ' | '.join(out)[:800] or a[:300]


def load_corpus(prop):
    d = os.path.join(core.VERIF, 'corpus', prop)
    res = []
    if os.path.isdir(d):
        for f in sorted(os.listdir(d)):
            if f.endswith('.json'):
                res.append(json.load(open(os.path.join(d, f))))
    return res


def run(ctx, hook_cls=C02Hook, prop='C02', drv='drv_c02'):
    lb.quiet()
    n_hist = ctx.n(10, 150)
    n_tx = ctx.n(30, 40)
    for ci, c in enumerate(load_corpus(prop)):
        w, history, infos = run_history(ctx, MDIBS[c.get('mdib_index', 0)], ctx.subrng('corpus', ci), 0, [hook_cls(ctx)], scripts=c['history'])
        compare_model(ctx, w, history, drv)
        ctx.count('corpus-cases')
    for mi, path in enumerate(MDIBS):
        w, history, infos = run_history(ctx, path, ctx.subrng('classsweep', mi), 0, [hook_cls(ctx)], scripts=lambda w_: w_.class_sweep_scripts())
        for s, info in zip(history, infos):
            ctx.case({'sweep': mi, 's': s}, nontrivial=True)
            ctx.count('class-sweep:' + info['outcome'])
        compare_model(ctx, w, history, drv)
    for hi in range(n_hist):
        rng = ctx.subrng('hist', hi)
        path = MDIBS[hi % len(MDIBS)]
        w, history, infos = run_history(ctx, path, rng, n_tx, [hook_cls(ctx)], instance_id=[1, 0, None, 7][hi % 4])
        for s, info in zip(history, infos):
            ctx.case({'h': hi, 's': s}, nontrivial=bool(s['calls']),
                     sample={'script': s, 'outcome': info['outcome']} if (hi == 0 and len(ctx.samples) < 5 and s['calls']) else None)
        compare_model(ctx, w, history, drv)
    if prop == 'C02':
        writer_exclusion_scenario(ctx)
    ctx.traces = ctx.evaluations


TX_OPENERS = {'metric': 'metric_state_transaction', 'alert': 'alert_state_transaction', 'component': 'component_state_transaction',
              'context': 'context_state_transaction', 'descriptor': 'descriptor_transaction'}


def writer_exclusion_scenario(ctx, pairs=None):
    """The model's histories are sequences of whole transactions. That is what `ProviderMdib._transaction_manager` (transaction
    lock + mdib lock around the body AND the commit) is there to guarantee; this scenario checks it on the real code with a
    forced schedule: thread A is held inside an open transaction (after it got its copy), thread B then tries to open a
    second transaction of any kind. B must not get into its body before A has committed, and what B is handed must be the
    copy of what A committed (version = A's + 1); afterwards MdibVersion and the state version went up by exactly two."""
    import threading
    failures_before = len(ctx.failures)
    p = lb.Provider(mdib_path=MDIBS[0], start=False, role_providers=False)
    w = tx.World(p, ctx.subrng('excl'))
    w.mdib_path = MDIBS[0]
    m = p.mdib
    try:
        metrics = w.states_of_kind('metric')
        if not metrics:
            ctx.count('exclusion-scenario-skipped')
            return
        h = metrics[0]
        for kind_a, kind_b in (pairs or [('metric', 'metric'), ('metric', 'descriptor'), ('descriptor', 'metric'), ('context', 'metric'),
                                         ('alert', 'metric'), ('metric', 'component')]):
            case = {'exclusion_scenario': [kind_a, kind_b], 'handle': h}
            v0 = m.mdib_version
            sv0 = m.states.descriptor_handle.get_one(h).StateVersion
            a_in, a_go, b_in = threading.Event(), threading.Event(), threading.Event()
            seen = {}
            errors = []

            def body(mgr, kind, who):
                if kind in ('metric', 'descriptor'):
                    if kind == 'descriptor':
                        mgr.get_descriptor(h)
                    st = mgr.get_state(h)
                    seen[who] = st.StateVersion
                    w.mutate_state(st, 11 if who == 'a' else 23)

            def thread_a():
                try:
                    with getattr(m, TX_OPENERS[kind_a])() as mgr:
                        body(mgr, kind_a, 'a')
                        a_in.set()
                        a_go.wait(10)
                except Exception as ex:  # noqa: BLE001
                    errors.append(repr(ex))
                    a_in.set()

            def thread_b():
                try:
                    with getattr(m, TX_OPENERS[kind_b])() as mgr:
                        seen['b_entered_at'] = m.mdib_version
                        b_in.set()
                        body(mgr, kind_b, 'b')
                except Exception as ex:  # noqa: BLE001
                    errors.append(repr(ex))
                    b_in.set()
            ta, tb = threading.Thread(target=thread_a, daemon=True), threading.Thread(target=thread_b, daemon=True)
            ta.start()
            a_in.wait(10)
            tb.start()
            early = b_in.wait(0.25)
            a_go.set()
            ta.join(10)
            tb.join(10)
            n_commits = (1 if kind_a in ('metric', 'descriptor') else 0) + (1 if kind_b in ('metric', 'descriptor') else 0)
            sv1 = m.states.descriptor_handle.get_one(h).StateVersion
            if errors:
                ctx.fail('exclusion-scenario-raised', str(errors), case)
            if early:
                ctx.fail('second-writer-entered-open-transaction',
                         f'a {kind_b} transaction got into its body while a {kind_a} transaction of another thread was still open', case)
            if 'b_entered_at' in seen and kind_a in ('metric', 'descriptor') and seen['b_entered_at'] != v0 + 1:
                ctx.fail('second-writer-entered-open-transaction',
                         f'second writer started at MdibVersion {seen["b_entered_at"]}, the first one committed {v0 + 1}', case)
            if m.mdib_version != v0 + n_commits:
                ctx.fail('mdib-version-step-under-two-writers', f'{v0} -> {m.mdib_version} after {n_commits} committed transactions', case)
            if sv1 != sv0 + n_commits:
                ctx.fail('state-version-step-under-two-writers',
                         f'StateVersion of {h}: {sv0} -> {sv1} after {n_commits} transactions that changed it (handed out: {seen})', case)
            if kind_a in ('metric', 'descriptor') and kind_b in ('metric', 'descriptor') and seen.get('b') != sv0 + 2:
                ctx.fail('second-writer-got-stale-copy', f'handed out StateVersion {seen.get("b")}, first writer committed {sv0 + 1}', case)
            ctx.case(case, nontrivial=True)
            ctx.count('exclusion-scenarios')
    finally:
        w.close()
    return len(ctx.failures) > failures_before


def search(ctx, hook_cls=C02Hook):
    """Failing-input search after a broken proof / correspondence: the oracle over many more histories (no model needed)."""
    lb.quiet()
    for hi in range(ctx.n(60, 300)):
        if ctx.failures:
            return
        rng = ctx.subrng('search', hi)
        run_history(ctx, MDIBS[hi % len(MDIBS)], rng, 35, [hook_cls(ctx)])
        ctx.count('search-histories')


def replay(ctx, obj):
    lb.quiet()
    case = obj['case']
    ctx2 = core.Ctx('C02', 'quick', 0)
    if 'exclusion_scenario' in case:
        writer_exclusion_scenario(ctx2, [tuple(case['exclusion_scenario'])])
        for f in ctx2.failures:
            print('  ', f['signature'], ':', f['detail'])
        return any(f['signature'] == obj['signature'] for f in ctx2.failures)
    run_history(ctx2, case.get('mdib', MDIBS[0]), ctx2.subrng('replay'), 0, [C02Hook(ctx2)], scripts=case['history'])
    for f in ctx2.failures:
        print('  ', f['signature'], ':', f['detail'])
    return any(f['signature'] == obj['signature'] for f in ctx2.failures)
