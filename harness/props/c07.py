"""C07 — Get responses are consistent snapshots under concurrent transactions.

Model: lean/SdcModel/LockLts.lean (interleaving semantics, any number of threads, any schedule).
Theorems: lean/SdcModel/Properties/C07.lean (`wellLocked_snapshot`, `progs_wellLocked` over the generated programs).
Tie:
 * translator: every request kind / shape and every transaction kind is run single-threaded through the real code with
   `mdib_lock` / `_tr_lock` replaced by traced locks and the MDIB tables / version members / container serialisation
   made observable (harness/locktrace.py); the normalised action lists are written to Generated/LockProgs.lean;
   `progs_wellLocked … := by decide` breaks when a shared read or write leaves the critical section.
 * forced schedules (always on): reader thread = one real Get request, writer thread(s) = real transactions that change
   requested data; the writer is started at a chosen yield point of the reader (every lock operation boundary, every
   access outside the lock, first/last access inside a section) and has priority whenever it can run. The same
   schedule is run on the Lean LTS with the programs traced in that very run; observations are compared.
Oracle: the serialised answer must equal the per-version snapshot of the provider tables at the MdibVersion the answer
states (version group, set of entities, every descriptor / state element), independent of the model.
"""
from __future__ import annotations

import itertools
import threading
from decimal import Decimal

import core
import locktrace as lt
from props import c20

READY = True
MANIFEST = dict(
    technique='Lean 4 theorem over an interleaving semantics (unbounded threads, arbitrary schedules) for programs that satisfy a decidable lock discipline; the reader / writer programs are generated from dynamic lock + access traces of the real handlers and transactions; forced schedules on the real code as correspondence and oracle',
    text='wellLocked_snapshot: for any number of threads whose programs are WellLocked (every shared access inside a critical section on mdib_lock, all shared reads of a thread in one section) and never mutate published state objects, under ANY schedule every completed read-only thread has observed exactly one published (MdibVersion, description, states) triple - also when it serialises the state objects after releasing the lock. history_functional / snapshot_at_version: if every section that changes content also increments mdib_version (Committing), a version is never published with two contents, so the triple is THE content at the stated MdibVersion. Generated/LockProgs.lean holds the action lists traced from GetMdib, GetMdDescription, GetMdState, GetContextStates (each with and without handles) and from metric / context / descriptor transactions; progs_wellLocked (WellLocked, ReadOnly, NoMutate, Committing for every generated program) is proved by decide, generated_snapshot instantiates the theorem for any mix of them. Negative witnesses (executed by the kernel): version read after the release, in-place mutation, content write without version increment.',
    note='Full at lock granularity. Trusted: the tracer sees every access that matters (MDIB version members, the three tables incl. index access, container serialisation); GIL atomicity of single reads; published objects are not mutated in place (property C03; additionally checked here after every forced commit). Content is abstracted to an identifier per committed version.',
    ref='5 C07')
DRIVERS = ['drv_c07']
RULE = ('one case = (request kind + handle shape, transaction kind(s), injection point(s) in the reader event sequence); distinct by canonical '
        'JSON; non-trivial = the transaction committed while the request was in flight (after its first and before its last event)')
TRUSTED = ['lock/access instrumentation sees every shared access (tables, index look-ups, version members, serialisation of containers)',
           'GIL atomicity of a single attribute / dict read', 'published state / descriptor objects are never mutated in place (C03); checked after every forced commit',
           'threading.RLock provides mutual exclusion']
ASSUMPTIONS = ['provider not started (no sockets); requests go through the consumer service clients looped back in-process',
               'writer has priority whenever it can run (deterministic forced schedule); other interleavings are covered by the theorem']


# ------------------------------------------------------------------------------------------------------------
# readers (requests) and writers (transactions)
# ------------------------------------------------------------------------------------------------------------

METRIC = 'numeric.ch0.vmd1'
CTX_DESCR = 'PC.mds0'
LOC_STATE = 'LC.mds0State'
ALERT_COND = 'ac0.mds0'
TOGGLE = 'EC.toggle'     # descriptor that toggleTx creates, gives a context state, removes again (3 phases)

READERS = {
    'getMdib': lambda b: b.get_client.get_mdib(),
    'getMdDescription_all': lambda b: b.get_client.get_md_description(),
    'getMdDescription_handles': lambda b: b.get_client.get_md_description([ALERT_COND, 'nope']),
    'getMdState_all': lambda b: b.get_client.get_md_state(),
    'getMdState_handles': lambda b: b.get_client.get_md_state([METRIC, CTX_DESCR, LOC_STATE, ALERT_COND]),
    'getContextStates_all': lambda b: b.context_client.get_context_states(),
    'getContextStates_handles': lambda b: b.context_client.get_context_states(['mds0', CTX_DESCR, LOC_STATE]),
    # requests whose SELECTION depends on an entity that a concurrent transaction creates / removes
    'getMdDescription_toggled': lambda b: b.get_client.get_md_description([TOGGLE, 'nope']),
    'getMdState_toggled': lambda b: b.get_client.get_md_state([TOGGLE, 'nope']),
    'getContextStates_toggled': lambda b: b.context_client.get_context_states([TOGGLE, 'nope']),
}
TOGGLED = ('getMdDescription_toggled', 'getMdState_toggled', 'getContextStates_toggled')
READER_HANDLES = {'getMdDescription_all': [], 'getMdDescription_handles': [ALERT_COND, 'nope'], 'getMdState_all': [],
                  'getMdState_handles': [METRIC, CTX_DESCR, LOC_STATE, ALERT_COND], 'getContextStates_all': [],
                  'getContextStates_handles': ['mds0', CTX_DESCR, LOC_STATE], 'getMdib': [],
                  'getMdDescription_toggled': [TOGGLE, 'nope'], 'getMdState_toggled': [TOGGLE, 'nope'],
                  'getContextStates_toggled': [TOGGLE, 'nope']}


def _pause(pause):
    """yield point INSIDE the open transaction (after it fetched / changed its objects, before the commit)"""
    if pause is not None:
        pause()


def w_metric(b, n, pause=None):
    with b.mdib.metric_state_transaction() as tr:
        st = tr.get_state(METRIC)
        if st.MetricValue is None:
            st.mk_metric_value()
        st.MetricValue.Value = Decimal(n)
        _pause(pause)


def w_context_new(b, n, pause=None):
    with b.mdib.context_state_transaction() as tr:
        st = tr.mk_context_state(CTX_DESCR, f'pat{n}', set_associated=False)
        st.CoreData.Givenname = f'given{n}'
        _pause(pause)


def w_context_update(b, n, pause=None):
    with b.mdib.context_state_transaction() as tr:
        st = tr.get_context_state(LOC_STATE)
        st.LocationDetail.Room = f'room{n}'
        _pause(pause)


def w_descriptor(b, n, pause=None):
    from sdc11073.xml_types.pm_types import AlertConditionPriority as P
    with b.mdib.descriptor_transaction() as tr:
        d = tr.get_descriptor(ALERT_COND)
        d.Priority = [P.LOW, P.MEDIUM, P.HIGH][n % 3]
        _pause(pause)


def w_descriptor_add(b, n, pause=None):
    from sdc11073.xml_types import pm_qnames as pm
    dm = b.mdib.data_model
    with b.mdib.descriptor_transaction() as tr:
        cls = dm.get_descriptor_container_class(pm.EnsembleContextDescriptor)   # 0..n per SystemContext
        d = cls(handle=f'EC.new{n}', parent_handle='SC.mds0')
        tr.add_descriptor(d)
        _pause(pause)


# ---- writes at depth >= 2 through the transaction's own objects (values below a first-level member of the state)

def w_metric_nested(b, n, pause=None):
    from sdc11073.xml_types import pm_types
    V = pm_types.MeasurementValidity
    with b.mdib.metric_state_transaction() as tr:
        st = tr.get_state(METRIC)
        if st.MetricValue is None:
            st.mk_metric_value()
        st.MetricValue.MetricQuality.Validity = [V.VALID, V.QUESTIONABLE, V.INVALID, V.CALIBRATION_ONGOING][n % 4]
        st.MetricValue.Annotation.append(pm_types.Annotation(pm_types.CodedValue(f'{n}')))
        del st.MetricValue.Annotation[:-2]
        _pause(pause)


def w_context_nested(b, n, pause=None):
    """list inside CoreData of an existing patient context state"""
    with b.mdib.context_state_transaction() as tr:
        st = tr.get_context_state(b.patient_handle)
        st.CoreData.Middlename.append(f'middle{n}')
        del st.CoreData.Middlename[:-2]
        _pause(pause)


# ---- a transaction followed by a COMPLETE second request in the same thread: injected at a yield point of request A it is
#      the overlap of two requests INSIDE the handler (B passes its critical section while A is between lock and response)

def _then_request(tx, reader):
    def w(b, n, pause=None):
        tx(b, n)
        READERS[reader](b)
    return w


# ---- a descriptor transaction whose commit is interrupted by an application observer that raises

class ObserverError(Exception):
    pass


def _raising_observer(_value):
    raise ObserverError('application observer of deleted_descriptors_by_handle raises')


def w_descriptor_delete_raising(b, n, pause=None):
    """cycling: create descriptor EC.raise<k> with a context state -> delete it while an application observer bound to
    mdib.deleted_descriptors_by_handle raises (it is called synchronously from inside the commit)"""
    from sdc11073 import observableproperties as properties
    from sdc11073.xml_types import pm_qnames as pm
    with _TOGGLE_GUARD:
        phase = getattr(b, 'raise_phase', 0)
        b.raise_phase = (phase + 1) % 2
        if phase == 0:
            b.raise_handle = f'EC.raise{n}'
        handle = b.raise_handle
    if phase == 0:
        cls = b.mdib.data_model.get_descriptor_container_class(pm.EnsembleContextDescriptor)
        with b.mdib.descriptor_transaction() as tr:
            tr.add_descriptor(cls(handle=handle, parent_handle='SC.mds0'))
            _pause(pause)
        return
    properties.bind(b.mdib, deleted_descriptors_by_handle=_raising_observer)
    try:
        with b.mdib.descriptor_transaction() as tr:
            tr.remove_descriptor(handle)
            _pause(pause)
    except ObserverError:
        pass     # the application sees its own exception; what matters is what the MDIB looks like afterwards
    finally:
        properties.unbind(b.mdib, deleted_descriptors_by_handle=_raising_observer)


# ---- writers that use the ENTITY work flow (entities.by_handle -> edit entity.states -> write_entity)

def w_entity_admit(b, n, pause=None):
    """a new associated patient: the entity's associated states are disassociated in the entity, then written"""
    pm_types = b.mdib.data_model.pm_types
    with b.mdib.context_state_transaction() as mgr:
        entity = b.mdib.entities.by_handle(CTX_DESCR)
        handles = b.mdib.xtra.disassociate_all(entity, unbinding_mdib_version=mgr.new_mdib_version)
        new_state = entity.new_state()
        new_state.ContextAssociation = pm_types.ContextAssociation.ASSOCIATED
        new_state.BindingMdibVersion = mgr.new_mdib_version
        new_state.CoreData.Givenname = f'admit{n}'
        mgr.write_entity(entity, [*handles, new_state.Handle])
        _pause(pause)


def w_entity_edit(b, n, pause=None):
    """an existing context state is edited in the entity (nested value) and written"""
    with b.mdib.context_state_transaction() as mgr:
        entity = b.mdib.entities.by_handle('LC.mds0')
        st = entity.states[LOC_STATE]
        st.LocationDetail.Floor = f'floor{n}'
        mgr.write_entity(entity, [LOC_STATE])
        _pause(pause)


def w_set_location(b, n, pause=None):
    """ProviderMdibMethods.set_location: disassociate_all of the transaction manager + new associated location"""
    from sdc11073.location import SdcLocation
    b.mdib.xtra.set_location(SdcLocation(fac='fac', poc='poc', bed=f'bed{n}'), location_context_descriptor_handle='LC.mds0')
    _pause(None)


def w_set_context_state(b, n, pause=None):
    """the SetContextState handler of the example role provider (tutorial/productandroles/contextprovider.py), called with
    a proposal for a new associated patient exactly like the SCO does"""
    import types

    from tutorial.productandroles.contextprovider import GenericContextProvider
    pm_types = b.mdib.data_model.pm_types
    provider = GenericContextProvider(b.mdib)
    with lt._ACTIVE_TRACER[0].suspended():   # noqa: SLF001  building the proposal is the client's business, not the handler's
        descr = b.mdib.descriptions.handle.get_one(CTX_DESCR)
        proposed = b.mdib.data_model.mk_state_container(descr)
    proposed.Handle = CTX_DESCR            # Handle == DescriptorHandle: "new state"
    proposed.ContextAssociation = pm_types.ContextAssociation.ASSOCIATED
    proposed.CoreData.Givenname = f'set{n}'
    params = types.SimpleNamespace(operation_request=types.SimpleNamespace(argument=[proposed]),
                                   operation_instance=types.SimpleNamespace(operation_target_handle=CTX_DESCR))
    provider._set_context_state(params)  # noqa: SLF001


def w_toggle(b, n, pause=None):
    """one transaction per call, cycling: create the descriptor TOGGLE -> give it a context state -> remove the descriptor
    (and with it the state). The phase is kept by the harness, so the transaction itself does not read the MDIB before it starts."""
    from sdc11073.xml_types import pm_qnames as pm
    with _TOGGLE_GUARD:   # claimed when the writer starts: two toggle writers of one run take consecutive phases
        phase = getattr(b, 'toggle_phase', 0)
        b.toggle_phase = (phase + 1) % 3
    if phase == 0:
        cls = b.mdib.data_model.get_descriptor_container_class(pm.EnsembleContextDescriptor)
        with b.mdib.descriptor_transaction() as tr:
            tr.add_descriptor(cls(handle=TOGGLE, parent_handle='SC.mds0'))
            _pause(pause)
    elif phase == 1:
        with b.mdib.context_state_transaction() as tr:
            tr.mk_context_state(TOGGLE, f'ens{n}', set_associated=False)
            _pause(pause)
    else:
        with b.mdib.descriptor_transaction() as tr:
            tr.remove_descriptor(TOGGLE)
            _pause(pause)


_TOGGLE_GUARD = threading.Lock()


def w_context_delete(b, n, pause=None):
    """cycling: create a context state of CTX_DESCR -> a transaction whose ONLY content is the deletion of that state
    (entity work flow: pop it from entity.states, write_entity(entity, [handle]))"""
    with _TOGGLE_GUARD:
        phase = getattr(b, 'delete_phase', 0)
        b.delete_phase = (phase + 1) % 2
        if phase == 0:
            b.delete_handle = f'del{n}'
        handle = b.delete_handle
    if phase == 0:
        with b.mdib.context_state_transaction() as tr:
            tr.mk_context_state(CTX_DESCR, handle, set_associated=False)
            _pause(pause)
    else:
        with b.mdib.context_state_transaction() as mgr:
            entity = b.mdib.entities.by_handle(CTX_DESCR)
            entity.states.pop(handle)
            mgr.write_entity(entity, [handle])
            _pause(pause)


WRITERS = {'toggleTx': w_toggle, 'metricTx': w_metric, 'contextNewTx': w_context_new, 'contextUpdateTx': w_context_update,
           'descriptorTx': w_descriptor, 'descriptorAddTx': w_descriptor_add,
           'entityAdmitTx': w_entity_admit, 'entityEditTx': w_entity_edit, 'setLocationTx': w_set_location,
           'setContextStateTx': w_set_context_state, 'contextDeleteTx': w_context_delete}
WRITERS.update({'metricNestedTx': w_metric_nested, 'contextNestedTx': w_context_nested,
                'descriptorDeleteRaisingTx': w_descriptor_delete_raising})
COMPOUND = {'commitThenGetMdState': _then_request(w_metric, 'getMdState_handles'),
            'commitThenGetMdStateAll': _then_request(w_metric_nested, 'getMdState_all'),
            'commitThenGetContextStates': _then_request(w_context_update, 'getContextStates_all'),
            'commitThenGetMdDescription': _then_request(w_descriptor, 'getMdDescription_handles'),
            'commitThenGetMdib': _then_request(w_descriptor, 'getMdib')}
PHASES = {'toggleTx': 3, 'contextDeleteTx': 2, 'descriptorDeleteRaisingTx': 2}   # cycling writers: every phase is traced by the translator
NOT_GENERATED = ('setLocationTx',)
ENTITY_WRITERS = ('entityAdmitTx', 'entityEditTx', 'setLocationTx', 'setContextStateTx')
# writers that can be held OPEN (paused inside the transaction, holding tr_lock + mdib_lock) while the request arrives
OPENABLE = ('metricTx', 'contextNewTx', 'contextUpdateTx', 'descriptorTx', 'descriptorAddTx', 'toggleTx', 'entityAdmitTx',
            'entityEditTx', 'contextDeleteTx', 'metricNestedTx', 'contextNestedTx')


def new_bench():
    bench = lt.Bench(lt.MDIB_TWO, role_providers=False)   # no background transactions: every commit is scheduled by the harness
    add_extensions(bench)
    bench.patient_handle = sorted(st.Handle for st in bench.mdib.context_states.objects if st.DescriptorHandle == CTX_DESCR)[0]
    tracer = lt.install_tracing(bench.mdib)
    return bench, tracer


def add_extensions(bench):
    """MDIB content with ext:Extension elements (the bundled two-MDS file has none): descriptors and states that the requests
    return carry a foreign-namespace extension element (lxml elements are the one kind of content that has a parent)"""
    from lxml import etree

    def ext(text):
        e = etree.Element('{urn:verif:c07}Note')
        e.set('Kind', 'verif')
        etree.SubElement(e, '{urn:verif:c07}Text').text = text
        return e
    m = bench.mdib
    with m.descriptor_transaction() as tr:
        for h in ('mds0', ALERT_COND, METRIC, CTX_DESCR, 'LC.mds0'):
            tr.get_descriptor(h).Extension.append(ext('descriptor ' + h))
    with m.metric_state_transaction() as tr:
        tr.get_state(METRIC).Extension.append(ext('state ' + METRIC))
    with m.context_state_transaction() as tr:
        tr.get_context_state(LOC_STATE).Extension.append(ext('state ' + LOC_STATE))


def new_state():
    """bench + tracer + per-version snapshot history; every commit records its snapshot while it still holds the lock"""
    bench, tracer = new_bench()
    history = {bench.mdib.mdib_version: take_snapshot(bench)}
    orig = bench.mdib.post_commit_handler

    def post_commit(mdib, transaction):
        if callable(orig):
            orig(mdib, transaction)
        with tracer.suspended():
            snap = take_snapshot(bench)
        old = history.get(snap['version'])
        if old is None:
            history[snap['version']] = snap
        elif (old['states'], old['descr']) != (snap['states'], snap['descr']):
            # one MdibVersion, two contents: "the MDIB at MdibVersion v" is no longer defined (Lean: history_functional)
            diff = sorted(map(str, set(old['states'].items()) ^ set(snap['states'].items())))[:2] or \
                sorted(map(str, set(old['descr']) ^ set(snap['descr'])))[:2]
            reused.append((snap['version'], [d[:120] for d in diff]))
    bench.mdib.post_commit_handler = post_commit
    reused = []
    return {'bench': bench, 'tracer': tracer, 'history': history, 'n': 0, 'reused': reused}


def end_of_run_snapshot(state):
    """quiescent MDIB after a run: its content must be THE content of its MdibVersion (also when a transaction ended
    with an exception and no post-commit hook ran)"""
    with state['tracer'].suspended():
        snap = take_snapshot(state['bench'])
    old = state['history'].get(snap['version'])
    if old is None:
        state['history'][snap['version']] = snap
    elif (old['states'], old['descr']) != (snap['states'], snap['descr']):
        diff = sorted(map(str, set(old['states'].items()) ^ set(snap['states'].items())))[:2] or \
            sorted(map(str, set(old['descr']) ^ set(snap['descr'])))[:2] or ['descriptor content']
        state['reused'].append((snap['version'], [d[:120] for d in diff]))


def trace_single(bench, tracer, fn):
    """single-threaded run of `fn` -> normalised action list.

    In-place writes to published state objects that no `__setattr__` of the container sees (values two or more levels below
    the state, list operations) are found by their effect: every state object that was in a table before the run is
    serialised before and after; a difference is an in-place mutation and is put into the program as `mutate`."""
    pm_state = bench.mdib.data_model.pm_names.State
    held = [(st, canon(st.mk_state_node(pm_state, bench.mdib.nsmapper)))
            for st in list(bench.mdib.states.objects) + list(bench.mdib.context_states.objects)]
    tracer.events.clear()
    tracer.on_event = None
    tracer.enabled = True
    try:
        fn()
    finally:
        tracer.enabled = False
    acts = lt.to_actions(tracer.events)
    if not any(a.startswith('mutate') for a in acts) and any(canon(st.mk_state_node(pm_state, bench.mdib.nsmapper)) != before for st, before in held):
        pos = next((i for i, a in enumerate(acts) if a.startswith(('wrC', 'rel 0'))), len(acts))
        acts.insert(pos, 'mutate 99')
    return acts


def lean_act(a):
    parts = a.split()
    return '.' + parts[0] + (' ' + parts[1] if len(parts) > 1 else '')


def tok_act(a):
    return a.replace(' ', ':')


def translate(ctx):
    bench, tracer = new_bench()
    progs = {}
    timed = []
    for name, fn in READERS.items():
        progs[name] = trace_single(bench, tracer, lambda fn=fn: fn(bench))
        if any(k == 'acq-timed' for _t, k, _w, _h in tracer.events):
            # the handler enters its critical section with acquire(timeout=…) / non-blocking: the path on which the acquire
            # gives up is a program of the handler as well (virtual expiry: no other thread needed)
            tracer.expire_timeouts = 'always'
            try:
                progs[name + '_timeout'] = trace_single(bench, tracer, lambda fn=fn: fn(bench))
            finally:
                tracer.expire_timeouts = False
            timed.append(name + '_timeout')
    ctx.notes['handlers_with_timed_acquire'] = timed
    extra = []
    for i, (name, fn) in enumerate(WRITERS.items()):
        progs[name] = trace_single(bench, tracer, lambda fn=fn, i=i: fn(bench, 1000 + i))
        for ph in range(1, PHASES.get(name, 1)):
            progs[f'{name}_p{ph}'] = trace_single(bench, tracer, lambda fn=fn, i=i: fn(bench, 1000 + i))
            extra.append(f'{name}_p{ph}')
    # ProviderMdibMethods.set_location looks the LocationContextDescriptor up BEFORE it opens its transaction (a read of the
    # description without mdib_lock). That is no Get handler and its writes are locked, but the model's discipline has no
    # place for it: the trace is kept in the evidence, the program is not part of the generated proof obligations; the
    # transaction is still used as a writer of the forced schedules.
    unlocked_read = {n: progs.pop(n) for n in list(progs) if n in NOT_GENERATED}
    ctx.notes['traced_not_generated'] = {k: ' '.join(tok_act(a) for a in v) for k, v in unlocked_read.items()}
    src = ['import SdcModel.LockLts', '/-! generated by harness/props/c07.py (translate) from dynamic lock / access traces of the real code; do not edit -/',
           'namespace Sdc.Generated', 'open Sdc.LockLts', '']
    for name, acts in progs.items():
        src.append(f'def prog_{name} : List Act := [' + ', '.join(lean_act(a) for a in acts) + ']')
    src.append('')
    src.append('/-- the request handlers -/')
    src.append('def readerProgs : List (List Act) := [' + ', '.join('prog_' + n for n in list(READERS) + timed) + ']')
    src.append('/-- handlers that enter a critical section with an acquire that can give up (timeout / non-blocking) -/')
    src.append('def timedAcquireProgs : List String := [' + ', '.join(f'"{n}"' for n in timed) + ']')
    src.append('/-- the transactions -/')
    src.append('def writerProgs : List (List Act) := [' + ', '.join('prog_' + n for n in list(WRITERS) + extra if n not in NOT_GENERATED) + ']')
    src.append('end Sdc.Generated')
    core.write_if_changed(core.GENERATED + '/LockProgs.lean', '\n'.join(src) + '\n')
    ctx.notes['generated_programs'] = {k: ' '.join(tok_act(a) for a in v) for k, v in progs.items()}
    return progs


# ------------------------------------------------------------------------------------------------------------
# canonical content, snapshots, answer check (the oracle)
# ------------------------------------------------------------------------------------------------------------

XSI_TYPE = '{http://www.w3.org/2001/XMLSchema-instance}type'
VERSION_ATTRS = ('MdibVersion', 'SequenceId', 'InstanceId')


def canon(elem, skip_child=None):
    """namespace-prefix independent canonical form of an element (tag of the element itself is not included)"""
    attrs = []
    for k, v in sorted(elem.attrib.items()):
        if k == 'DateAndTime':
            continue   # ClockState.DateAndTime is "now" at serialisation time (CurrentTimestampAttributeProperty), not MDIB content
        if k == XSI_TYPE and ':' in v:
            pfx, local = v.split(':', 1)
            v = '{' + (elem.nsmap.get(pfx) or pfx) + '}' + local
        attrs.append((k, v))
    kids = []
    for ch in elem:
        if not isinstance(ch.tag, str) or (skip_child is not None and skip_child(ch)):
            continue
        kids.append((ch.tag, canon(ch, skip_child)))
    return (tuple(attrs), (elem.text or '').strip(), tuple(kids))


def state_key(elem):
    return (elem.get('DescriptorHandle'), elem.get('Handle'))


def descr_map(md_description):
    """handle -> (parent handle, own canonical content) of every descriptor element below MdDescription"""
    res = {}

    def is_descr(e):
        # inside MdDescription only descriptors carry a Handle (DescriptorVersion is omitted when it is 0)
        return e.get('Handle') is not None

    def walk(e, parent):
        for ch in e:
            if isinstance(ch.tag, str) and ch.get('Handle') is not None and is_descr(ch):
                res[ch.get('Handle')] = (parent, ch.tag, canon(ch, skip_child=lambda x: x.get('Handle') is not None and is_descr(x)))
                walk(ch, ch.get('Handle'))
    walk(md_description, None)
    return res


def take_snapshot(bench):
    """content of the MDIB right now (quiescent), straight from the tables"""
    m = bench.mdib
    pm = m.data_model.pm_names
    states = {}
    for st in list(m.states.objects) + list(m.context_states.objects):
        node = st.mk_state_node(pm.State, m.nsmapper)
        states[state_key(node)] = canon(node)
    descr_node = m._reconstruct_md_description()  # noqa: SLF001
    return {'version': m.mdib_version, 'sequence_id': m.sequence_id, 'instance_id': m.instance_id,
            'states': states, 'descr': descr_map(descr_node), 'description_version': descr_node.get('DescriptionVersion'),
            'state_version': str(m.mdstate_version), 'tables': c20.tables(bench)}


def check_answer(kind, handles, xml, history):
    """The property on one answer. Returns (signature, detail) or None; also the (version, content class)."""
    from lxml import etree
    root = etree.fromstring(xml)
    body = root.find('{http://www.w3.org/2003/05/soap-envelope}Body')
    resp = body[0]
    try:
        ver = int(resp.get('MdibVersion'))
    except (TypeError, ValueError):
        return ('no-version', f'answer without MdibVersion: {resp.tag}'), None
    snap = history.get(ver)
    if snap is None:
        return ('unknown-version', f'answer states MdibVersion {ver} which the MDIB never had while unlocked ({sorted(history)})'), (ver, None)
    if resp.get('SequenceId') != snap['sequence_id'] or (resp.get('InstanceId') is not None and int(resp.get('InstanceId')) != snap['instance_id']):
        return ('version-group', f"SequenceId/InstanceId {resp.get('SequenceId')}/{resp.get('InstanceId')} differ from the provider's"), (ver, None)
    msg_ns = '{http://standards.ieee.org/downloads/11073/11073-10207-2017/message}'
    pm_ns = '{http://standards.ieee.org/downloads/11073/11073-10207-2017/participant}'
    problems = []

    def check_states(elems, expected_keys, what):
        got = {}
        for e in elems:
            k = state_key(e)
            if k in got:
                problems.append(('duplicate-entity', f'{what} {k} twice'))
            got[k] = canon(e)
        if set(got) != set(expected_keys):
            problems.append(('entity-set', f'{what}: entities {sorted(map(str, set(got) ^ set(expected_keys)))[:4]} differ from the set at MdibVersion {ver}'))
        for k, c in got.items():
            if k in snap['states'] and snap['states'][k] != c:
                other = [v for v, s in history.items() if s['states'].get(k) == c]
                problems.append(('torn-state', f'{what} {k} in an answer stating MdibVersion {ver} has the content of MdibVersion {other or "no"} '
                                               f'(StateVersion {dict(c[0]).get("StateVersion")} vs {dict(snap["states"][k][0]).get("StateVersion")} at {ver})'))

    def check_descr(md_descr, expect_all):
        got = descr_map(md_descr) if md_descr is not None else {}
        exp = snap['descr'] if expect_all else {}
        if set(got) != set(exp):
            problems.append(('entity-set', f'descriptors {sorted(set(got) ^ set(exp))[:4]} differ from the set at MdibVersion {ver}'))
        for h, c in got.items():
            if h in exp and exp[h] != c:
                problems.append(('torn-descriptor', f'descriptor {h} in an answer stating MdibVersion {ver} differs from its content at that version'))

    def keys_of(sel):
        return [(x[1], None) if x[0] == 's' else (x[2], x[1]) for x in sel]
    if kind.startswith('getMdState'):
        check_states(resp.iter(pm_ns + 'State'), keys_of(c20.ref_mdstate(snap['tables'], handles, True)), 'state')
    elif kind.startswith('getContextStates'):
        check_states(list(resp), keys_of(c20.ref_ctxstates(snap['tables'], handles)), 'context state')
    elif kind.startswith('getMdDescription'):
        check_descr(resp.find(msg_ns + 'MdDescription'), not handles or any(h in snap['descr'] for h in handles))
    elif kind == 'getMdib':
        mdib = resp.find(msg_ns + 'Mdib')
        if mdib.get('MdibVersion') != str(ver) or mdib.get('SequenceId') != snap['sequence_id']:
            problems.append(('version-group', f"Mdib element states {mdib.get('MdibVersion')}, response states {ver}"))
        mdd = mdib.find(pm_ns + 'MdDescription')
        if mdd.get('DescriptionVersion') != snap['description_version']:
            problems.append(('torn-descriptor', f"DescriptionVersion {mdd.get('DescriptionVersion')} != {snap['description_version']} at MdibVersion {ver}"))
        check_descr(mdd, True)
        mds = mdib.find(pm_ns + 'MdState')
        check_states(list(mds), list(snap['states']), 'state')
    content_class = ver if not problems else None
    if problems:
        return problems[0], (ver, content_class)
    return None, (ver, content_class)


# ------------------------------------------------------------------------------------------------------------
# forced schedules on the real code
# ------------------------------------------------------------------------------------------------------------

class Forced:
    """reader thread + writer threads; writer k is started at the reader's yield point `points[k]` (index into the
    reader's event sequence) and has priority whenever it can run.

    `opened[k]`: writer k is started BEFORE the request and held inside its open transaction (it has fetched / changed its
    objects and holds tr_lock + mdib_lock); it commits at the reader's yield point `points[k]` - or as soon as the reader
    is about to block on a lock another thread holds (on a correctly locked handler the request simply waits)."""

    TIMEOUT = 20.0

    def __init__(self, bench, tracer, reader, writers, points, opened=None, reader_kind='', on_release=None):
        self.bench, self.tracer, self.reader, self.writers, self.points = bench, tracer, reader, writers, points
        self.reader_kind = reader_kind
        self.on_release = on_release
        self.opened = opened or [False] * len(writers)
        self.reader_tid = None
        self.n_reader_events = 0
        self.started = []          # (k, thread, done event, blocked event)
        self.errors = []
        self.answer = None
        self.unseen_waits = 0
        self.stuck = set()         # done-events of threads that wait for something untraced: never waited for mid-run
        self.go = {}               # k -> Event that lets the open writer k commit
        self.paused_actions = {}   # k -> number of model actions the open writer had completed when it paused

    def _hook(self, kind, what, holds):
        tid = threading.current_thread().name
        if tid == self.reader_tid:
            idx = self.n_reader_events
            self.n_reader_events += 1
            if kind == 'before-acq' and self.tracer.locks[what]._owner is not None:  # noqa: SLF001
                for ev in self.go.values():   # the request is going to wait for that lock: open transactions must go on
                    ev.set()
            for k, p in enumerate(self.points):
                if p == idx:
                    if self.opened[k]:
                        self._commit_open(k)
                    else:
                        self._start_writer(k)
            if not self.tracer.holds():
                # the reader does not hold mdib_lock: every started writer can finish - it has priority
                self._wait_all_done()
        else:
            if kind == 'before-acq':
                lock = self.tracer.locks[what]
                if lock._owner is not None:  # noqa: SLF001   held by another thread: report "blocked", then block
                    for _k, th, _done, blocked in self.started:
                        if th.name == tid:
                            blocked.set()

    def _start_writer(self, k, pause=None):
        done, blocked = threading.Event(), threading.Event()

        def body():
            try:
                self.writers[k](pause)
            except Exception as ex:  # noqa: BLE001
                self.errors.append(f'writer {k}: {type(ex).__name__}: {ex}')
            finally:
                done.set()
        th = threading.Thread(target=body, name=f'verif-writer-{k}-{id(self)}', daemon=True)
        self.started.append((k, th, done, blocked))
        th.start()
        # run the writer until it is finished, blocked by a lock another thread holds, or paused in its open transaction
        self._run_until(done, blocked)
        return th

    UNSEEN = 1.5

    def _run_until(self, *events):
        """let the other thread run until one of the events is set. A thread that does neither finish nor report "blocked"
        / "paused" within UNSEEN seconds waits for something the tracer does not see (e.g. the RLock of a table that the
        reader holds): then the reader simply goes on, as it would in reality; the thread is joined later."""
        import time
        t_end = time.monotonic() + self.UNSEEN
        while not any(e.is_set() for e in events):
            if not events[0].wait(0.0005) and time.monotonic() > t_end:
                self.unseen_waits += 1
                self.stuck.add(id(events[0]))
                return

    def _open_writer(self, k):
        """start writer k and run it up to the pause point inside its transaction"""
        paused, go = threading.Event(), threading.Event()
        self.go[k] = go
        name = f'verif-writer-{k}-{id(self)}'

        def pause():
            self.paused_actions[k] = len(lt.to_actions(self.tracer.events, name))
            paused.set()
            if not go.wait(self.TIMEOUT):
                self.errors.append('scheduler: open transaction was never told to commit')
        done, blocked = threading.Event(), threading.Event()

        def body():
            try:
                self.writers[k](pause)
            except Exception as ex:  # noqa: BLE001
                self.errors.append(f'writer {k}: {type(ex).__name__}: {ex}')
            finally:
                done.set()
        th = threading.Thread(target=body, name=name, daemon=True)
        self.started.append((k, th, done, blocked))
        th.start()
        self._run_until(done, paused)

    def _commit_open(self, k):
        self.go[k].set()
        done = next(d for kk, _th, d, _b in self.started if kk == k)
        # the open transaction holds mdib_lock; whatever else it may wait for is not traced: give it a bounded time
        if not done.wait(self.UNSEEN):
            self.stuck.add(id(done))

    def _wait_all_done(self):
        if self.stuck:
            return   # some thread waits for something the reader may hold: waiting here for it (or for threads behind it) would deadlock
        for k, _th, done, _blocked in self.started:
            if (self.opened[k] and not self.go[k].is_set()) or id(done) in self.stuck:
                continue    # an open transaction that has not been told to commit yet / a thread waiting for something untraced
            if not done.wait(self.TIMEOUT):
                self.errors.append('scheduler: writer did not finish after the reader released the lock')

    def run(self):
        tracer = self.tracer
        tracer.events.clear()
        tracer.on_event = self._hook
        # a thread other than the reader leaves its critical section (commit, or an exception out of the transaction): while it
        # still holds mdib_lock the content of the MDIB is THE content of its MdibVersion
        tracer.on_before_release = (lambda name: self.on_release() if name == 'mdib_lock' and self.on_release is not None
                                    and threading.current_thread().name != self.reader_tid else None)
        tracer.enabled = True
        # open transactions first (they are the first entries of `started`)
        for k, o in enumerate(self.opened):
            if o:
                self._open_writer(k)

        def rbody():
            self.reader_tid = threading.current_thread().name
            try:
                self.reader()
                self.answer = self.last_response()
            except Exception as ex:  # noqa: BLE001
                import traceback
                self.errors.append(f'reader: {type(ex).__name__}: {ex} {traceback.format_exc()[-1500:]}')
        th = threading.Thread(target=rbody, name=f'verif-reader-{id(self)}', daemon=True)
        self.reader_tid = th.name
        th.start()
        th.join(self.TIMEOUT * 2)
        if th.is_alive():
            self.errors.append('scheduler: reader did not finish')
        for ev in self.go.values():
            ev.set()
        for _k, _th, done, _b in self.started:
            done.wait(self.TIMEOUT)
        tracer.enabled = False
        tracer.on_event = None
        tracer.on_before_release = None
        # writers whose injection point lies behind the reader's last event
        for k, p in enumerate(self.points):
            if p >= self.n_reader_events and k not in [kk for kk, *_ in self.started]:
                self.writers[k](None)
        return self

    def last_response(self):
        # the reader's own client: a compound writer may have answered another request through the other client meanwhile
        cl = self.bench.context_client if self.reader_kind.startswith('getContextStates') else self.bench.get_client
        return cl.soap_client.last_response


def reader_events(tracer, tid):
    return [(k, w, h) for t, k, w, h in tracer.events if t == tid]


def injection_points(events):
    """yield points of the reader at which a writer is started: every lock operation boundary, every access outside the
    lock, and the first / last access inside a critical section; plus "after the last event"."""
    pts = set()
    for i, (kind, _what, holds) in enumerate(events):
        if kind in ('before-acq', 'acq', 'rel') or not holds:
            pts.add(i)
        elif i == 0 or events[i - 1][0] in ('acq',) or (i + 1 < len(events) and events[i + 1][0] == 'rel'):
            pts.add(i)
    # accesses outside the lock can be many (serialisation of every state): keep the first three and the last of a run
    # ... and every point at which the kind of access changes (e.g. from collecting states to reading the version group)
    def thin(run):
        if len(run) <= 3:
            return run
        return run[:3] + [q for q in run if events[q][:2] != events[q - 1][:2]] + run[-1:]
    res, run = [], []
    for p in sorted(pts):
        if events[p][0] in ('before-acq', 'acq', 'rel') or events[p][2]:
            res += thin(run)
            run = []
            res.append(p)
        else:
            run.append(p)
    res += thin(run)
    return sorted(set(res)) + [len(events)]


def completed_actions(events, point):
    """number of model actions of the reader that are complete at yield point `point`"""
    # read/deref events are emitted before the access, acq/rel after the operation, before-acq before it
    upto = events[:point]
    if point < len(events) and events[point][0] in ('acq', 'rel'):
        upto = events[:point + 1]
    return len(lt.to_actions([(0, k, w, h) for k, w, h in upto]))


def run_case(ctx, state, rname, wnames, points, opened=None):
    """one forced run; returns dict with what the oracle / the correspondence need"""
    bench, tracer, history = state['bench'], state['tracer'], state['history']
    state['n'] += 1
    n0 = state['n'] * 10
    v0 = bench.mdib.mdib_version
    phase0 = getattr(bench, 'toggle_phase', 0)
    dphase0 = getattr(bench, 'delete_phase', 0)
    rphase0 = getattr(bench, 'raise_phase', 0)
    for cl in (bench.get_client, bench.context_client):
        cl.soap_client.last_response = None
    # references to the objects published at v0 (what a reader that already left the section still holds)
    held = [(st, canon(st.mk_state_node(bench.mdib.data_model.pm_names.State, bench.mdib.nsmapper)))
            for st in list(bench.mdib.states.objects) + list(bench.mdib.context_states.objects)]
    writers = [lambda pause=None, w=w, j=j: (WRITERS.get(w) or COMPOUND[w])(bench, n0 + j, pause) for j, w in enumerate(wnames)]
    opened = list(opened or [False] * len(wnames))
    # an OPEN transaction stays open longer than any timeout a handler may pass to acquire (virtual time)
    tracer.expire_timeouts = any(opened)
    try:
        f = Forced(bench, tracer, lambda: READERS[rname](bench), writers, points, opened, rname,
                   on_release=lambda: end_of_run_snapshot(state)).run()
    finally:
        tracer.expire_timeouts = False
    end_of_run_snapshot(state)
    evs_all = list(tracer.events)
    r_events = reader_events(tracer, f.reader_tid)
    res = {'reader': rname, 'writers': wnames, 'points': points, 'v0': v0, 'toggle_phase': phase0, 'delete_phase': dphase0, 'raise_phase': rphase0, 'errors': f.errors, 'n_events': len(r_events),
           'r_events': r_events, 'events': evs_all, 'reader_tid': f.reader_tid, 'writer_tids': [th.name for _, th, _, _ in f.started], 'writer_ks': [k for k, *_ in f.started],
           'opened': opened, 'paused_actions': dict(f.paused_actions), 'unseen_waits': f.unseen_waits}
    if f.errors or f.answer is None:
        res['verdict'] = ('harness', '; '.join(f.errors) or 'no answer')
        return res
    if state['reused']:
        res['reused'] = list(state['reused'])
        del state['reused'][:]
    bad, vc = check_answer(rname, READER_HANDLES[rname], f.answer, history)
    res['verdict'] = bad
    res['answer_version'] = vc[0] if vc else None
    res['answer_consistent'] = bad is None
    # published objects must not change under a reader that still holds them
    pm_state = bench.mdib.data_model.pm_names.State
    for st, before in held:
        if canon(st.mk_state_node(pm_state, bench.mdib.nsmapper)) != before:
            res['mutated'] = (st.DescriptorHandle, getattr(st, 'Handle', None))
            break
    return res


def run_overlap(ctx, state, a_name, b_name, wname):
    """overlapping requests: the handler of A returns its (unserialised) answer, then optionally a transaction commits, then
    request B is answered completely, only then A is serialised - as with two connections of the http server"""
    bench, history = state['bench'], state['history']
    state['n'] += 1
    n = state['n'] * 10
    out = {}

    def between():
        if wname:
            WRITERS[wname](bench, n)
        READERS[b_name](bench)
        cl = bench.context_client if b_name.startswith('getContextStates') else bench.get_client
        out['b'] = cl.soap_client.last_response
    bench.before_serialise = between
    v0 = bench.mdib.mdib_version
    try:
        READERS[a_name](bench)
    finally:
        bench.before_serialise = None
    cl = bench.context_client if a_name.startswith('getContextStates') else bench.get_client
    out['a'] = cl.soap_client.last_response
    res = {'v0': v0, 'verdicts': []}
    for which, name in (('a', a_name), ('b', b_name)):
        bad, _vc = check_answer(name, READER_HANDLES[name], out[which], history)
        if bad:
            res['verdicts'].append((which, name, bad))
    if state['reused']:
        res['reused'] = list(state['reused'])
        del state['reused'][:]
    return res


def model_line(res):
    """the forced run on the LTS: programs = the actions traced in this very run (content ids unique per writer)"""
    r_prog = lt.to_actions(res['events'], res['reader_tid'])
    progs = [r_prog]
    for j, tid in enumerate(res['writer_tids']):
        acts = lt.to_actions(res['events'], tid)
        progs.append([f'{a.split()[0]} {100 * (j + 1) + int(a.split()[1])}' if a.startswith(('wr', 'mutate')) else a for a in acts])
    ptxt = ' | '.join(' '.join(tok_act(a) for a in p) for p in progs)
    if any(res['opened']):
        # explicit schedule: open transaction up to its pause, the request up to the yield point (its disabled steps are
        # skipped: it waits for the lock), the rest of the transaction, the rest of the request
        k = res['opened'].index(True)
        j = res['writer_ks'].index(k) + 1
        n_w, n_r = len(progs[j]), len(r_prog)
        sched = [j] * res['paused_actions'].get(k, n_w) + [0] * completed_actions(res['r_events'], res['points'][k]) + [j] * n_w + [0] * n_r
        return 'sched ' + ' '.join(map(str, sched)) + ' | ' + ptxt, progs
    starts = [completed_actions(res['r_events'], res['points'][k]) for k in res['writer_ks']]
    return 'force ' + ' '.join(map(str, starts)) + ' | ' + ptxt, progs


def run(ctx):
    import sys
    old_interval = sys.getswitchinterval()
    sys.setswitchinterval(0.0002)   # hand-offs between reader and writer threads are what the run time consists of
    try:
        _run(ctx)
    finally:
        sys.setswitchinterval(old_interval)


def _run(ctx):
    progs = ctx.notes.get('generated_programs')
    state = new_state()
    rng = ctx.subrng('c07')
    cases = []
    readers = list(READERS)
    writers = list(WRITERS)
    # reader event sequence per request kind (from an undisturbed traced run)
    base_events = {}
    for rname in readers:
        res = run_case(ctx, state, rname, [], [])
        base_events[rname] = res['r_events']
        if res['verdict']:
            report(ctx, res)
    # relevant transaction kinds per request (they change requested data); quick: 2 writers per reader, thorough: all
    for rname in readers:
        pts = injection_points(base_events[rname])
        wsel = writers if ctx.tier == 'thorough' else relevant_writers(rname, rng)
        for w in wsel:
            for p in pts:
                cases.append((rname, [w], [p]))
        def boundary(p):   # quick tier, additional run shapes: lock operation boundaries and unlocked accesses only
            ev = base_events[rname][p] if p < len(base_events[rname]) else ('end', '', False)
            return ctx.tier == 'thorough' or ev[0] in ('before-acq', 'acq', 'rel', 'end') or not ev[2]
        # a commit followed by a complete second request of the same family, at every yield point (overlap inside the handler)
        fam = rname.split('_')[0]
        for w in COMPOUND:
            if ctx.tier == 'thorough' or w.lower().startswith('committhen' + fam.lower()):
                for p in filter(boundary, pts):
                    cases.append((rname, [w], [p]))
        if rname in TOGGLED:
            # the selection itself changes: every yield point x every phase (create / add state / remove)
            for p in pts:
                cases += [(rname, ['toggleTx'], [p])] * 3
        # the entity work flow (entity.states edited in place, then write_entity) for the requests that serialise state
        # objects after they released the lock
        if rname.startswith(('getMdState', 'getContextStates')) or ctx.tier == 'thorough':
            for w in (ENTITY_WRITERS if ctx.tier == 'thorough' else rng.sample(ENTITY_WRITERS, 2)):
                if w not in wsel:
                    for p in filter(boundary, pts):
                        cases.append((rname, [w], [p]))
        # a transaction that is already OPEN (fetched its objects, holds the locks) when the request arrives and commits at
        # the yield point: on a correctly locked handler the request waits; every yield point is tried
        osel = [w for w in wsel if w in OPENABLE] or ['metricTx']
        if ctx.tier != 'thorough':
            osel = rng.sample(osel, min(len(osel), 2 if rname.startswith('getContextStates') else 1))
        for w in osel:
            for p in pts[1:]:   # all yield points: with an acquire that gave up the "locked" accesses are not locked at all
                cases.append((rname, [w], [p], [True]))
        # two transactions in one request (three threads)
        pairs = list(itertools.combinations_with_replacement(pts, 2))
        rng.shuffle(pairs)
        for p1, p2 in pairs[:ctx.n(3, 40)]:
            cases.append((rname, [rng.choice(writers + list(COMPOUND)), rng.choice(writers)], [p1, p2]))
    # corpus first: past failures, injection point given by the kind of the reader event ("rel" = right after the release)
    corpus = []
    cdir = core.VERIF + '/corpus/C07'
    import json
    import os
    for fn in sorted(os.listdir(cdir)) if os.path.isdir(cdir) else []:
        entry = json.load(open(os.path.join(cdir, fn)))
        kinds = [e[0] for e in base_events[entry['reader']]]
        pts = [kinds.index(k) if k in kinds else len(kinds) for k in entry['at']]
        corpus.append((entry['reader'], entry['writers'], pts, [bool(entry.get('open'))] + [False] * (len(pts) - 1)))
    cases = corpus + cases
    lines, metas = [], []
    for rname, wn, pts, *rest in cases:
        opened = rest[0] if rest else [False] * len(wn)
        res = run_case(ctx, state, rname, wn, pts, opened)
        in_flight = any(0 < p < res['n_events'] for p in pts)
        case = {'reader': rname, 'writers': wn, 'points': pts}
        if any(opened):
            case['opened'] = opened
            ctx.count('open-transaction')
        ctx.count('scheduler:thread-waiting-for-something-untraced', res.get('unseen_waits', 0))
        if 'toggleTx' in wn:
            case['toggle_phase'] = res['toggle_phase']
        if 'contextDeleteTx' in wn:
            case['delete_phase'] = res['delete_phase']
        if 'descriptorDeleteRaisingTx' in wn:
            case['raise_phase'] = res['raise_phase']
        ctx.case(case, nontrivial=in_flight, sample={**case, 'answer_version': res.get('answer_version'), 'v0': res['v0'],
                                                      'reader_events': [e[0] for e in res['r_events']][:12]} if len(pts) == 1 and pts[0] == 3 else None)
        ctx.count('reader:' + rname)
        for w in wn:
            ctx.count('writer:' + w)
        for p in pts:
            ev = res['r_events'][p] if p < len(res['r_events']) else ('end', '', False)
            ctx.count('inject-at:' + ev[0] + (':locked' if ev[2] else ':unlocked'))
        if res['verdict']:
            report(ctx, res)
        if 'reused' in res:
            ver, diff = res['reused'][0]
            ctx.fail('version-reused', f'transaction(s) {wn} changed the MDIB content but MdibVersion stayed {ver}: answers given before and after '
                     f'state the same MdibVersion with different content ({diff})', case)
        if 'mutated' in res:
            ctx.fail('published-object-mutated', f"state {res['mutated']} published at MdibVersion {res['v0']} was changed in place by a later transaction "
                     '(a reader that serialises after releasing mdib_lock sees torn content)', case)
        if res['verdict'] and res['verdict'][0] == 'harness':
            continue
        line, mprogs = model_line(res)
        lines.append(line)
        metas.append((case, res, mprogs))
        ctx.count('answer-version-offset:' + str(res['answer_version'] - res['v0']))
    # ---- overlapping requests (answer A is built, B is built and sent, then A is serialised)
    n_overlap = 0
    others = ['getMdib', 'getMdDescription_all', 'getMdState_all', 'getContextStates_all']
    for a_name in readers:
        bsel = others + [a_name] if ctx.tier == 'thorough' else [rng.choice(others), a_name]
        for b_name in dict.fromkeys(bsel):
            for wname in ([None, 'metricTx', 'descriptorTx'] if ctx.tier == 'thorough' else [None, rng.choice(['metricTx', 'descriptorTx'])]):
                res = run_overlap(ctx, state, a_name, b_name, wname)
                case = {'overlap': [a_name, b_name], 'writers': [wname] if wname else []}
                n_overlap += 1
                ctx.case(case, nontrivial=True, sample=case if n_overlap == 2 else None)
                ctx.count('overlap:' + a_name.split('_')[0] + '+' + b_name.split('_')[0])
                for which, name, (sig, detail) in res['verdicts']:
                    role = 'built before' if which == 'a' else 'built after'
                    ctx.fail(f"{name.split('_')[0]}:{sig}:overlap", f'{detail}; answer {role} the overlapping request '
                             f'({a_name} built, {wname or "no transaction"}, {b_name} answered, then {a_name} serialised)', case)
                if 'reused' in res:
                    ctx.fail('version-reused', f"MdibVersion {res['reused'][0][0]} published with two contents", case)
    ctx.traces = len(cases) + n_overlap
    # ---- correspondence with the LTS + traced programs == generated programs
    if ctx.driver_ok and lines:
        out = ctx.driver('drv_c07', lines)
        for o, (case, res, mprogs) in zip(out, metas):
            model = parse_force(o)
            if model is None:
                ctx.disagree('driver answer', case, o, None)
                continue
            # reader observations in the model: all of ONE published (version, content) pair?
            r_obs_v, r_obs_d, r_obs_c, left = model['threads'][0]
            m_consistent = any(all(v == pv for v in r_obs_v) and all(d == pd for d in r_obs_d) and all(x == px for x in r_obs_c)
                               for pv, pd, px in model['hist'])
            m_ver = r_obs_v[0] if r_obs_v else None
            impl = (res['answer_version'] - res['v0'], res['answer_consistent'])
            if (m_ver, m_consistent) != impl or left != 0:
                ctx.disagree('forced schedule: (MdibVersion offset, consistent) of the reader in the LTS == real answer',
                             {**case, 'v0': res['v0'], 'answer_version': res['answer_version'], 'n_events': res['n_events'],
                              'events_near': [[p, [list(e) for e in res['r_events'][max(0, p - 2):p + 3]]] for p in case['points']],
                              'writer_events': [list(e[1:]) for e in res['events'] if e[0] != res['reader_tid']][:8]},
                             [m_ver, m_consistent, o], list(impl))
        if progs:
            seen = {}
            for case, res, mprogs in metas:
                seen.setdefault(case['reader'], set()).add(' '.join(tok_act(a) for a in mprogs[0]))
            for rname, variants in seen.items():
                if rname in TOGGLED:   # with / without a state to serialise: same program up to the trailing deref
                    variants = {v.replace(' deref', '') for v in variants}
                    if variants != {progs[rname].replace(' deref', '')}:
                        ctx.disagree('reader program traced under forced schedules == generated program', {'reader': rname}, sorted(variants), progs[rname])
                    continue
                if variants != {progs[rname]}:
                    ctx.disagree('reader program traced under forced schedules == generated program', {'reader': rname}, sorted(variants), progs[rname])
    # ---- WellLocked of every traced program, evaluated by the model (independent of the build)
    if ctx.driver_ok and progs:
        names = list(progs)
        out = ctx.driver('drv_c07', ['wl ' + progs[n] for n in names])
        ctx.notes['well_locked'] = dict(zip(names, out))
        for n, o in zip(names, out):
            if not o.startswith('ok true') or (n in READERS and o != 'ok true true true'):
                ctx.disagree('generated program is WellLocked (readers: and ReadOnly)', {'program': n, 'actions': progs[n]}, o, 'ok true true true')


def relevant_writers(rname, rng):
    if rname in TOGGLED:
        return [rng.choice(['metricTx', 'descriptorTx', 'contextNewTx'])]
    if rname.startswith('getMdDescription'):
        return ['descriptorTx', 'descriptorAddTx', 'descriptorDeleteRaisingTx']
    if rname.startswith('getContextStates'):
        return ['contextNewTx', 'contextUpdateTx', 'contextDeleteTx', 'contextNestedTx']
    if rname.startswith('getMdState'):
        return ['metricTx', 'metricNestedTx', rng.choice(['contextNewTx', 'descriptorTx', 'contextUpdateTx', 'contextNestedTx'])]
    return ['metricTx', rng.choice(['descriptorTx', 'descriptorAddTx', 'contextNewTx'])]


def parse_force(o):
    if not o.startswith('ok '):
        return None
    parts = [p.strip() for p in o[3:].split('|')]
    threads = []
    hist = []
    for p in parts:
        if p.startswith('hist'):
            hist = [tuple(map(int, x.split(':'))) for x in p.split()[1:]]
        elif p.startswith('moved'):
            continue
        else:
            f = [x.strip() for x in p.split(';')]
            threads.append(([int(x) for x in f[0].split()], [int(x) for x in f[1].split()], [int(x) for x in f[2].split()], int(f[3])))
    return {'threads': threads, 'hist': hist}


def report(ctx, res):
    sig, detail = res['verdict']
    case = {'reader': res['reader'], 'writers': res['writers'], 'points': res['points'], 'toggle_phase': res['toggle_phase'],
            'delete_phase': res['delete_phase'], 'raise_phase': res['raise_phase'], 'opened': res['opened'], 'reader_events': [list(e) for e in res['r_events']][:40]}
    if sig == 'harness':
        raise RuntimeError('forced schedule could not be executed: ' + detail)
    inject = [res['r_events'][p][0] + ('' if res['r_events'][p][2] else '(unlocked)') if p < len(res['r_events']) else 'end' for p in res['points']]
    how = 'opened before the request, committing at' if any(res['opened']) else 'started at'
    ctx.fail(f"{res['reader'].split('_')[0]}:{sig}", f"{detail}; transaction(s) {res['writers']} {how} reader event(s) {inject}", case)


def search(ctx):
    """failing-input search: all transaction kinds at all yield points of all request kinds"""
    save = ctx.tier
    ctx.tier = 'thorough'
    try:
        run(ctx)
    finally:
        ctx.tier = save


def replay(ctx, obj):
    case = obj['case']
    state = new_state()
    if 'overlap' in case:
        res = run_overlap(ctx, state, case['overlap'][0], case['overlap'][1], (case['writers'] or [None])[0])
        print('overlap', case['overlap'], 'transaction in between:', case['writers'], '->', res['verdicts'], res.get('reused'))
        return bool(res['verdicts']) or 'reused' in res
    while getattr(state['bench'], 'delete_phase', 0) != case.get('delete_phase', 0):
        w_context_delete(state['bench'], 7)
    while getattr(state['bench'], 'raise_phase', 0) != case.get('raise_phase', 0):
        w_descriptor_delete_raising(state['bench'], 7)
    while getattr(state['bench'], 'toggle_phase', 0) != case.get('toggle_phase', 0):
        w_toggle(state['bench'], 7)
    res = run_case(ctx, state, case['reader'], case['writers'], case['points'], case.get('opened'))
    print('reader events:', [e[0] + ('' if e[2] else '*') for e in res['r_events']][:30], '(* = mdib_lock not held)')
    print('answer MdibVersion:', res.get('answer_version'), 'MdibVersion before:', res['v0'], '->', res['verdict'], res.get('mutated'))
    return bool(res['verdict']) or 'mutated' in res
