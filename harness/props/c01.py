"""C01 — the consumer MDIB is an exact mirror of the provider MDIB after any report history.

Tie: full loop-back (real provider, real wire messages, real SdcConsumer + ConsumerMdib, see props/c06.py which is the
library of this check).  Histories of random committed provider transactions of every kind; after every transaction
all its reports are delivered in emission order, then
  * oracle: canonical snapshot of the consumer MDIB == canonical snapshot of the provider MDIB taken right after the
    transaction (loopback.diff_snapshots: implied values resolved, timestamps at 1 ms, ClockState time excluded), and
    the handles named by the `*_by_handle` notifications == the entities the report changed;
  * correspondence: the Lean consumer model processes the same (abstract) reports and must produce the same content and
    notifications after every report;
  * hypothesis check: the decidable predicate `reportsDescribe p p' rs` of the theorem `mirror` is evaluated by the model
    driver on the abstract provider content before / after every transaction and its reports.
Initial loads with notifications in flight (loss-free) and SequenceId / InstanceId changes followed by a reload are part
of the histories.
"""
from __future__ import annotations

import core
from props import c06

READY = True
MANIFEST = dict(
    technique='Lean 4 simulation theorem (consumer model vs provider content under an explicit, decidable description '
              'predicate on the reports of one transaction) + differential correspondence on the real provider/consumer pair',
    text='Theorem mirror (Properties/C01.lean): if the reports of every transaction describe the change of the provider '
         'content (reportsDescribe, evaluated on every real transaction by the harness), a consumer that processes them in '
         'emission order holds exactly the provider content after every transaction; notifications name exactly the '
         'changed entities.  The real consumer is compared with the real provider and with the model after every report.',
    note='Trusted: Lean kernel; harness + generators; canonical container dump as the notion of content. Context states '
         'deleted through the entity interface are not reportable (excluded, negative witness).',
    ref='5 C01')
DRIVERS = ['drv_c06']
PROPERTY_MODULES = ['C01', 'C01Link']
RULE = ('one case = (provider history, loss-free in-order delivery with a random initial load point / in-flight prefix); '
        'distinct by the abstract report list; non-trivial = at least one report accepted and one mirror comparison')
TRUSTED = c06.TRUSTED
ASSUMPTIONS = c06.ASSUMPTIONS + ['reports are delivered in emission order, none lost (the statement of C01)']


def gen_inorder(hist, rng, count=None):
    """loss-free schedule: load at a random capture (optionally with the next reports in flight, in order), then every
    later report once and in order; a SequenceId / InstanceId change is answered by a reload from the epoch's capture"""
    caps = hist.captures
    n = len(hist.wire)
    c0 = 0 if rng.random() < 0.5 else rng.randrange(len(caps))
    live = [j for j, c in enumerate(caps) if c.live_wires]
    if live and rng.random() < 0.5:
        c0 = rng.choice(live)     # load answered by the real handler while a transaction commits
    ev = []

    def load(ci):
        cap = caps[ci]
        k = rng.choice([0, 0, 1, 2, 4])
        hi = cap.wire_len
        # in-flight notifications: older ones (already contained) plus the next ones, in emission order
        lo = max(0, cap.wire_len - rng.choice([0, 0, 2]))
        if cap.live_wires:
            k = max(k, len(cap.live_wires))     # committed while the request was answered: these are in flight
        while hi < n and hi - cap.wire_len < k and hist.reports[hi].vg[1:] == cap.snap.vg[1:]:
            hi += 1
        if rng.random() < 0.25 and hi < n and hist.reports[hi].vg[1:] == cap.snap.vg[1:]:
            # the next report arrives in a thread that is stopped at the buffer lock of the pre-check (forced schedule)
            ev.append(('race', ci, ci, list(range(lo, hi)), hi, rng.choice(['before-lock', 'in-lock', 'after-release'])))
            return hi + 1, cap.snap.vg[1:]
        ev.append(('reload+other' if hi > lo and rng.random() < 0.2 else 'reload', ci, ci, list(range(lo, hi))))
        return hi, cap.snap.vg[1:]
    pos, ids = load(c0)
    while pos < n:
        if hist.reports[pos].vg[1:] != ids:
            ev.append(('deliver', pos))          # consumer becomes invalid
            fitting = [j for j, c in enumerate(caps) if c.snap.vg[1:] == hist.reports[pos].vg[1:] and c.wire_len <= pos]
            if not fitting:
                break
            pos, ids = load(max(fitting, key=lambda j: caps[j].wire_len))
            continue
        ev.append(('deliver', pos))
        pos += 1
    if count:
        count('schedule-style:inorder')
    return ev


translate = c06.translate


KW = dict(sched_gen='props.c01:gen_inorder', describe=True, notif_oracle=True, mirror_oracle=True)


def run(ctx):
    results = []
    results += c06.run_cases(ctx, 'c01', ctx.n(15, 480), ctx.n(2, 4), n_tx=(5, 12),
                             scenario_sets=('main', 'two_mds', 'burst'), **KW)
    for r in results:
        if r.case.get('describe'):
            ctx.count('transactions-checked-against-reportsDescribe', len(r.lines))
            continue
        ctx.case(r.canon, nontrivial=r.stats['accepted'] > 0,
                 sample={'txs': r.txs, 'schedule': r.case['schedule'][:8], 'stats': r.stats})
        for k, v in r.stats.items():
            ctx.count('events:' + k, v)
    ctx.traces = sum(len(r.lines) for r in results)
    ctx.notes['explanation'] = ('every case: real provider history, loss-free in-order delivery from a random load point; after '
                                'every report model == real ConsumerMdib (content delta, version group, notifications); after '
                                'every transaction real consumer snapshot == real provider snapshot; reportsDescribe evaluated by '
                                'the model driver on every transaction (count: transactions-checked-against-reportsDescribe)')
    c06.compare_with_model(ctx, results, driver='drv_c06')


def search(ctx):
    c06.run_cases(ctx, 'c01-search', ctx.n(20, 80), 3, n_tx=(5, 14), **KW)


def replay(ctx, obj):
    return c06.replay(ctx, obj)
