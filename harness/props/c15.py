"""C15 — SOAP-over-UDP retransmission envelope + own message ids ignored.

Tie: translator (parameter sets, deque maxlen -> Generated/UdpParams.lean) and an exhaustive correspondence:
every outcome of the two random draws for both parameter sets (and for random synthetic parameter sets) is run
through the real `_repeated_enqueue_msg` with `random`/`time` replaced, and through the Lean model.
"""
from __future__ import annotations

import collections
import logging
import queue
import threading
from unittest import mock

import core

READY = True
MANIFEST = dict(
    technique='Lean 4 theorems over a transcribed schedule model (closed form for all draws/parameter sets), an invariant of the transcribed send loop (any calls, any stop time, any number of iterations) and induction over the event list for the id window; translator regenerates parameter sets, loop constants, queue key and the sender table; exhaustive correspondence over every random draw, virtual-clock correspondence of the real send loop',
    text='Theorems (Properties/C15.lean) prove count, first delay, first-gap window, doubling-with-cap for every parameter set and every outcome of both random draws, and that own message ids are skipped while inside the bounded window, for every event sequence. Send loop: no transmission before its scheduled time (also while stopping), none more than one idle sleep late, every accepted entry exactly once, nothing lost at stop; every WSDiscovery sender uses the parameter set of its destination (generated table, decide). The real parameter sets, sleeps, queue key and sender table are regenerated into Generated/UdpParams.lean on each run; the model is compared with _repeated_enqueue_msg on every draw and with the real _run_send on a virtual clock.',
    note='Trusted: Lean kernel; translator + harness; float summation (<1us); calls of other threads are observed by the loop at the end of a sleep; sending takes no model time.',
    ref='5 C15')
DRIVERS = ['drv_c15']
RULE = ('one case = (parameter set, initial-delay draw, first-gap draw), one known-id event sequence, one send-loop script (calls + stop time) or one sender; all cases are '
        'distinct by construction (enumeration); non-trivial = schedule has at least one repetition / sequence has a recv')
TRUSTED = ['float summation of send times (error < 1 us, quantised to us)', 'send loop: socket send takes no model time; calls of other threads take effect at their own time but are seen by the loop at the end of its sleep',
           'random.randint / randrange return values inside their documented ranges']
ASSUMPTIONS = ['time.time/random patched in-process; sockets of NetworkingThread not created']


PINNED_WINDOW = 200


def known_window(th):
    """size of the window of remembered message ids; a container without `maxlen` is judged against the pinned size"""
    return getattr(th._known_message_ids, 'maxlen', None) or PINNED_WINDOW


def _mk_thread():
    from sdc11073.wsdiscovery import networkingthread as nt
    with mock.patch.object(nt.NetworkingThread, '_create_multicast_in_socket', lambda *a, **k: None), \
            mock.patch.object(nt.NetworkingThread, '_create_multi_out_uni_in_out_socket', lambda *a, **k: None):
        th = nt.NetworkingThread('127.0.0.1', mock.MagicMock(), logging.getLogger('verif.c15'), 3702, 1)
    return nt, th


def translate(ctx):
    nt, th = _mk_thread()
    u, m = nt.UNICAST_REPEAT_PARAMS, nt.MULTICAST_REPEAT_PARAMS

    def p(x):
        return f'⟨{x.max_initial_delay_ms}, {x.repeat}, {x.min_delay_ms}, {x.max_delay_ms}, {x.upper_delay_ms}⟩'
    import dataclasses
    key = [f.name for f in dataclasses.fields(nt.NetworkingThread._EnqueuedMessage) if f.compare]
    senders = sender_table(nt)
    order = outbound_order(nt)
    ranges = draw_ranges(nt)
    jtrace = join_trace(nt)
    src = ('import SdcModel.UdpRepeat\nimport SdcModel.UdpSendLoop\nnamespace Sdc.Generated\nopen Sdc.UdpRepeat\n'
           f'def unicast : Params := {p(u)}\ndef multicast : Params := {p(m)}\n'
           f'def knownIdsMaxlen : Nat := {known_window(th)}\n'
           '/-- SEND_LOOP_BUSY_SLEEP, SEND_LOOP_IDLE_SLEEP in µs -/\n'
           f'def loopCfg : Sdc.UdpSendLoop.Cfg := ⟨{round(nt.SEND_LOOP_BUSY_SLEEP * 1e6)}, {round(nt.SEND_LOOP_IDLE_SLEEP * 1e6)}⟩\n'
           '/-- the compared fields of `_EnqueuedMessage`, in dataclass order -/\n'
           'def queueKey : List String := [' + ', '.join(f'"{k}"' for k in key) + ']\n'
           '/-- what `add_outbound_message` does, in program order (traced on the real method) -/\n'
           'def addOutboundOrder : List String := [' + ', '.join(f'"{k}"' for k in order) + ']\n'
           '/-- the ranges `_repeated_enqueue_msg` asks the random source for: (multicast set?, function, a, b) -/\n'
           'def drawRanges : List (Bool × String × Nat × Nat) := [' +
           ', '.join(f'({"true" if mc else "false"}, "{fn}", {a}, {b})' for mc, fn, a, b in ranges) + ']\n'
           '/-- what `NetworkingThread.join` does, in program order (thread joins with their timeout, then the closes) -/\n'
           'def joinTrace : List (String × String) := [' + ', '.join('("%s", "%s")' % tuple(k.split(' ', 1)) for k in jtrace) + ']\n'
           '/-- every `_send_*` of WSDiscovery: (name, destination is the multicast address, parameter set handed over) -/\n'
           'def senders : List (String × Bool × Params) := [' +
           ', '.join(f'("{n}", {"true" if mc else "false"}, {p(ps)})' for n, mc, ps in senders) + ']\n'
           'end Sdc.Generated\n')
    core.write_if_changed(core.GENERATED + '/UdpParams.lean', src)


def draw_ranges(nt):
    """the arguments of the random draws inside the real _repeated_enqueue_msg, for both real parameter sets"""
    out = []
    for mc, p in ((False, nt.UNICAST_REPEAT_PARAMS), (True, nt.MULTICAST_REPEAT_PARAMS)):
        th = _mk_thread()[1]
        th._send_queue = queue.PriorityQueue(10000)

        def randint(a, b, _mc=mc):
            out.append((_mc, 'randint', a, b))
            return a

        def randrange(a, b=None, _mc=mc):
            out.append((_mc, 'randrange', a, b))
            return a
        with mock.patch.object(nt.random, 'randint', randint), mock.patch.object(nt.random, 'randrange', randrange):
            th._repeated_enqueue_msg(None, p)
    return out


def join_trace(nt):
    """program order of NetworkingThread.join on an instance whose threads / sockets / selectors are recording stand-ins"""
    th = _mk_thread()[1]
    log = []

    class T:
        def __init__(self, name):
            self.name = name

        def join(self, timeout=None):
            log.append(f'join {self.name} {timeout}')

    class C:
        def __init__(self, name):
            self.name = name

        def close(self):
            log.append(f'close {self.name}')
    th._recv_thread, th._send_thread, th._qread_thread = T('recv'), T('send'), T('qread')
    th.multi_in, th.multi_out_uni_in_out = C('multi_in'), C('multi_out')
    th._inbound_selector, th._outbound_selector = C('inbound_selector'), C('outbound_selector')
    th.join()
    return log


def extreme_draw_runs(ctx, nt):
    """The random source is asked for a range; whatever it answers inside THAT range has to give a schedule inside the
    configured envelope: run the real code with the smallest and the largest value of each requested range."""
    for name, p in _param_sets(ctx, nt)[:12]:
        for pick in ('min', 'max'):
            th = _mk_thread()[1]
            th._send_queue = queue.PriorityQueue(10000)
            asked = []

            def randint(a, b, _pick=pick):
                asked.append(('randint', a, b))
                return a if _pick == 'min' else b

            def randrange(a, b=None, _pick=pick):
                asked.append(('randrange', a, b))
                return a if _pick == 'min' else b - 1
            with mock.patch.object(nt.random, 'randint', randint), mock.patch.object(nt.random, 'randrange', randrange), \
                    mock.patch.object(nt.time, 'time', lambda: 0.0):
                th._repeated_enqueue_msg(None, p)
            ts = [round(e.send_time * 1e6) for e in sorted(th._send_queue.queue, key=lambda e: e.repeat)]
            case = {'extreme_draws': pick, 'set': name, 'requested_ranges': asked,
                    'params': [p.max_initial_delay_ms, p.repeat, p.min_delay_ms, p.max_delay_ms, p.upper_delay_ms]}
            bad = oracle(p, None, None, ts)
            if bad:
                ctx.fail('retransmission-schedule:' + bad.split(' ')[0] + ('-gap' if 'gap' in bad else ''),
                         f'{pick} of the ranges the code asks for {asked}: {bad}', {**case, 'impl_send_times_us': ts})
            ctx.case(case, nontrivial=p.repeat > 0)
            ctx.count('extreme-draw-runs')


def join_real_threads(ctx, nt):
    """(search only, real time ~2.5 s) stop a node while repetitions are pending and join it: everything that was queued has
    to be transmitted before the sockets are closed"""
    import time as _t
    th = _mk_thread()[1]
    sent, closed = [], []

    class Sock:
        def close(self):
            closed.append(_t.time())
    th.multi_in, th.multi_out_uni_in_out = Sock(), Sock()
    key = mock.MagicMock()
    th._outbound_selector = mock.MagicMock()
    th._outbound_selector.select = lambda timeout=None: [] if closed else [(key, None)]
    th._inbound_selector = mock.MagicMock()
    th._inbound_selector.select = lambda timeout=None: (_t.sleep(0.05), [])[1]
    th._send_msg = lambda q_msg, sock: sent.append((q_msg.repeat, bool(closed)))
    msg = mock.MagicMock()
    msg.p_msg.header_info_block.MessageID = 'join-id'
    p = nt.MULTICAST_REPEAT_PARAMS
    with mock.patch.object(nt.random, 'randint', lambda a, b: b), mock.patch.object(nt.random, 'randrange', lambda a, b=None: b - 1):
        th.start()
        th.add_outbound_message(msg, '239.255.255.250', 3702, p)
    _t.sleep(0.2)
    th.schedule_stop()
    try:
        th.join()
    except Exception as ex:  # noqa: BLE001
        ctx.fail('retransmission-loop:raised', f'join: {ex!r}', {'join_real_threads': True})
        return
    _t.sleep(0.3)
    ok = [r for r, after_close in sent if not after_close]
    case = {'join_real_threads': True, 'transmitted_before_close': ok, 'expected': 1 + p.repeat}
    if len(ok) != 1 + p.repeat:
        ctx.fail('retransmission-loop:count', f'stop + join with pending repetitions: {len(ok)} of {1 + p.repeat} transmissions went out before the '
                 f'sockets were closed', case)
    ctx.case(case, nontrivial=True)


def lifecycle_runs(ctx, nt):
    """WSDiscovery.start / stop / publish_service / clear_service in any order on ONE node (the networking thread class is
    replaced by a recording stand-in that behaves like the real one with respect to stop: what it is handed after
    schedule_stop is dropped): every Hello / Bye has to be handed to a running thread. Compared with the model `UdpLife.run`."""
    from lxml import etree
    from sdc11073.wsdiscovery import wsdimpl
    from sdc11073.xml_types import wsd_types
    rng = ctx.subrng('life')
    lines, impls = [], []
    fixed = [['s', 'p1', 't', 's', 'p2', 't'], ['s', 't', 's', 'p1', 'c1', 't', 't', 's', 'p3'], ['p1', 's', 'c1', 'p1', 'p1', 't']]
    for k in range(ctx.n(40, 600)):
        ops = fixed[k] if k < len(fixed) else [rng.choice(['s', 't', 't', f'p{rng.randint(1, 3)}', f'p{rng.randint(1, 3)}', f'c{rng.randint(1, 3)}'])
                                               for _ in range(rng.randint(2, 12))]

        class Rec:
            instances = []

            def __init__(self, *a, **k_):
                self.stopped = False
                self.handed = []
                Rec.instances.append(self)

            def start(self):
                pass

            def schedule_stop(self):
                self.stopped = True

            def join(self):
                pass

            def add_outbound_message(self, msg, addr, port, params):
                out.append('D' if self.stopped else 'A')
        out = []
        res = []
        with mock.patch.object(wsdimpl.networkingthread, 'NetworkingThread', Rec):
            wsd = wsdimpl.WSDiscovery('127.0.0.1')
            for op in ops:
                del out[:]
                try:
                    if op == 's':
                        wsd.start()
                    elif op == 't':
                        wsd.stop()
                    elif op[0] == 'p':
                        wsd.publish_service(f'urn:uuid:0000000{op[1]}', [etree.QName('http://x', 'T')], wsd_types.ScopesType('http://s/a'),
                                            ['http://127.0.0.1:1/x'])
                    else:
                        wsd.clear_service(f'urn:uuid:0000000{op[1]}')
                    res.append('[' + ''.join(out) + ']')
                except Exception as ex:  # noqa: BLE001
                    res.append('raise' if type(ex).__name__ in ('ApiUsageError', 'KeyError') else f'raise:{type(ex).__name__}')
        case = {'lifecycle': ops, 'hand_overs': res}
        if any('D' in r for r in res):
            ctx.fail('retransmission-loop:count', f'a Hello / Bye was handed to a networking thread that had been stopped (dropped, transmitted 0 times): '
                     f'{list(zip(ops, res))}', case)
        if any(r.startswith('raise:') for r in res):
            ctx.fail('retransmission-loop:raised', f'life cycle call raised: {list(zip(ops, res))}', case)
        ctx.case(case, nontrivial='s' in ops and any(o[0] == 'p' for o in ops))
        ctx.count('lifecycle-runs')
        lines.append('life ' + ' '.join(ops))
        impls.append((ops, ' '.join(res)))
    if ctx.driver_ok and lines:
        for (ops, impl), o in zip(impls, ctx.driver('drv_c15', lines)):
            if o.strip() != impl:
                ctx.disagree('life cycle: hand-overs of UdpLife.run == real WSDiscovery with a recording networking thread', {'lifecycle': ops}, o, impl)


def failing_send_runs(ctx, nt):
    """The real `_send_msg` with a socket whose sendto fails (EMSGSIZE, ENETUNREACH, ...), logger = the library's LoggerAdapter
    (formats eagerly): the send loop has to survive and go on with the other entries."""
    from sdc11073 import loghelper
    for err in (OSError(90, 'Message too long'), OSError(101, 'Network is unreachable'), ValueError('verif')):
        with mock.patch.object(nt.NetworkingThread, '_create_multicast_in_socket', lambda *a, **k: None), \
                mock.patch.object(nt.NetworkingThread, '_create_multi_out_uni_in_out_socket', lambda *a, **k: None):
            th = nt.NetworkingThread('127.0.0.1', mock.MagicMock(), loghelper.get_logger_adapter('sdc.verif.c15', 'verif'), 3702, 1)
        clock = _VClock()
        attempts = []

        class Sock:
            def sendto(self, data, addr):
                attempts.append(clock.now)
                if len(attempts) == 2:
                    raise err

        class FakeTime:
            n = 0

            @staticmethod
            def time():
                return clock.now / 1e6

            @staticmethod
            def sleep(dt):
                FakeTime.n += 1
                clock.now += max(1, round(dt * 1e6))
                if FakeTime.n == 3:
                    th.schedule_stop()
                if FakeTime.n > 100000:
                    raise RuntimeError('send loop does not end')
        key = mock.MagicMock()
        key.fileobj = Sock()
        th._outbound_selector = mock.MagicMock()
        th._outbound_selector.select = lambda timeout=None: [(key, None)]
        msg = mock.MagicMock()
        msg.p_msg.header_info_block.MessageID = 'f-id'
        msg.serialize.return_value = b'<x/>' * 10
        p = nt.MULTICAST_REPEAT_PARAMS
        raised = None
        with mock.patch.object(nt, 'time', FakeTime), mock.patch.object(nt.random, 'randint', lambda a, b: a), \
                mock.patch.object(nt.random, 'randrange', lambda a, b=None: a):
            th.add_outbound_message(msg, '239.255.255.250', 3702, p)
            try:
                th._run_send()
            except Exception as ex:  # noqa: BLE001
                raised = repr(ex)
        case = {'failing_send': repr(err), 'attempts': len(attempts), 'expected': 1 + p.repeat}
        if raised or len(attempts) != 1 + p.repeat:
            ctx.fail('retransmission-loop:count', f'sendto fails once with {err!r}: the send loop made {len(attempts)} of {1 + p.repeat} '
                     f'transmission attempts{" and died with " + raised if raised else ""}', case)
        ctx.case(case, nontrivial=True)
        ctx.count('failing-send-runs')


def stop_race_runs(ctx, nt):
    """`stop()` (Bye enqueued, then schedule_stop) between two reads of the send loop's condition: forced at every call of
    queue.empty() and quit.is_set() of the first iterations. Nothing that was enqueued before the stop may be left behind."""
    for point in ('empty', 'is_set'):
        for k in (1, 2, 3, 4):
            th = _mk_thread()[1]
            clock = _VClock()
            sent = []
            calls = {'n': 0, 'fired': False}
            msg = mock.MagicMock()
            msg.p_msg.header_info_block.MessageID = 'race-id'
            p = nt.MULTICAST_REPEAT_PARAMS

            def fire():
                if not calls['fired']:
                    calls['fired'] = True
                    th.add_outbound_message(msg, '239.255.255.250', 3702, p)
                    th.schedule_stop()

            class Q(queue.PriorityQueue):
                def empty(self):
                    r = super().empty()        # the value the loop sees was read BEFORE the other thread acted
                    if point == 'empty':
                        calls['n'] += 1
                        if calls['n'] == k:
                            fire()
                    return r

            class Ev(threading.Event):
                def is_set(self):
                    r = super().is_set()
                    if point == 'is_set':
                        calls['n'] += 1
                        if calls['n'] == k:
                            fire()
                    return r
            th._send_queue = Q(10000)
            th._quit_send_event = Ev()

            class FakeTime:
                n = 0

                @staticmethod
                def time():
                    return clock.now / 1e6

                @staticmethod
                def sleep(dt):
                    FakeTime.n += 1
                    clock.now += max(1, round(dt * 1e6))
                    if FakeTime.n > 5000:
                        fire()
                    if FakeTime.n > 100000:
                        raise RuntimeError('send loop does not end')
            key = mock.MagicMock()
            th._outbound_selector = mock.MagicMock()
            th._outbound_selector.select = lambda timeout=None: [(key, None)]
            th._send_msg = lambda q_msg, sock: sent.append(q_msg.repeat)
            with mock.patch.object(nt, 'time', FakeTime), mock.patch.object(nt.random, 'randint', lambda a, b: b), \
                    mock.patch.object(nt.random, 'randrange', lambda a, b=None: a):
                try:
                    th._run_send()
                except Exception as ex:  # noqa: BLE001
                    ctx.fail('retransmission-loop:raised', repr(ex), {'stop_race': [point, k]})
                    continue
            case = {'stop_race': [point, k], 'transmitted': sorted(sent), 'left_on_queue': th._send_queue.qsize()}
            if calls['fired'] and len(sent) != 1 + p.repeat:
                ctx.fail('retransmission-loop:count', f'stop() right at call {k} of {point}() of the send loop: {len(sent)} of {1 + p.repeat} '
                         f'transmissions, {th._send_queue.qsize()} entries left on the queue when the loop ended', case)
            ctx.case(case, nontrivial=True)
            ctx.count('stop-race-runs')


def stop_between_puts_runs(ctx, nt):
    """`schedule_stop()` of another thread lands while `add_outbound_message` is putting the transmissions of one message on the
    queue (after the k-th put; the send loop gets the CPU only after the call has returned): the message was accepted, so all of
    its 1 + repeat transmissions leave - a message is transmitted completely or not at all (model: an `Add` is accepted or dropped
    as a whole, `accepted`)."""
    for pname in ('MULTICAST_REPEAT_PARAMS', 'UNICAST_REPEAT_PARAMS'):
        p = getattr(nt, pname)
        for k in range(0, p.repeat + 2):
            th = _mk_thread()[1]
            clock = _VClock()
            sent = []
            puts = {'n': 0}
            msg = mock.MagicMock()
            msg.p_msg.header_info_block.MessageID = f'between-{pname}-{k}'

            class Q(queue.PriorityQueue):
                def put(self, *a, **kw):
                    r = super().put(*a, **kw)
                    puts['n'] += 1
                    if puts['n'] == k:
                        th.schedule_stop()
                    return r
            th._send_queue = Q(10000)

            class FakeTime:
                n = 0

                @staticmethod
                def time():
                    return clock.now / 1e6

                @staticmethod
                def sleep(dt):
                    FakeTime.n += 1
                    clock.now += max(1, round(dt * 1e6))
                    if FakeTime.n > 100000:
                        raise RuntimeError('send loop does not end')
            key = mock.MagicMock()
            th._outbound_selector = mock.MagicMock()
            th._outbound_selector.select = lambda timeout=None: [(key, None)]
            th._send_msg = lambda q_msg, sock: sent.append(q_msg.repeat)
            with mock.patch.object(nt, 'time', FakeTime):
                try:
                    if k == 0:
                        th.schedule_stop()
                    th.add_outbound_message(msg, '239.255.255.250', 3702, p)
                    if not th._quit_send_event.is_set():
                        th.schedule_stop()
                    th._run_send()
                except Exception as ex:  # noqa: BLE001
                    ctx.fail('retransmission-loop:raised', repr(ex), {'stop_between_puts': [pname, k]})
                    continue
            case = {'stop_between_puts': [pname, k], 'transmitted': sorted(sent), 'left_on_queue': th._send_queue.qsize()}
            want = 0 if k == 0 else 1 + p.repeat
            if sorted(sent) != list(range(1, want + 1)):
                ctx.fail('retransmission-loop:count', f'schedule_stop() after put {k} of one message ({pname}): transmissions {sorted(sent)}, '
                         f'a message is transmitted {1 + p.repeat} times or (refused as a whole) not at all', case)
            ctx.case(case, nontrivial=True)
            ctx.count('stop-between-puts-runs')


def outbound_order(nt, on_put=None):
    """program order of `register own id` / `put on the send queue` inside the real add_outbound_message (multicast set)"""
    th = _mk_thread()[1]
    log = []

    class Ids(collections.deque):
        def appendleft(self, x):
            log.append('register')
            super().appendleft(x)

    class Q(queue.PriorityQueue):
        def put(self, item, *a, **k):
            super().put(item, *a, **k)
            log.append('put')
            if on_put is not None:
                on_put(th, len([x for x in log if x == 'put']))
    th._known_message_ids = Ids(maxlen=known_window(th))
    th._send_queue = Q(10000)
    msg = mock.MagicMock()
    msg.p_msg.header_info_block.MessageID = 'own-id'
    with mock.patch.object(nt.random, 'randint', lambda a, b: 0), mock.patch.object(nt.random, 'randrange', lambda a, b=None: a):
        th.add_outbound_message(msg, '239.255.255.250', 3702, nt.MULTICAST_REPEAT_PARAMS)
    return log


def run_register_race(ctx, nt):
    """The send thread may transmit an entry as soon as it is on the queue, and multicast loops it back at once: at every
    point after the first `put` a datagram with the own message id has to be skipped (forced schedule: the receive path
    runs inside the enqueueing call, right after each put)."""
    results = []

    def on_put(th, k):
        results.append((k, _impl_recv(nt, th, 'own-id')))
    order = outbound_order(nt, on_put)
    case = {'register_race': True, 'program_order': order, 'loop_back_after_put': results}
    bad = [k for k, r in results if r == 'dispatch']
    if bad:
        ctx.fail('own-message-dispatched', f'own message looped back right after put number {bad[0]} of add_outbound_message was dispatched '
                 f'(program order {order})', case)
    if not results:
        ctx.fail('own-message-race-not-exercised', str(order), case)
    ctx.case(case, nontrivial=True)
    ctx.count('register-race-runs')


def sender_table(nt):
    """Call every `_send_*` method of the real WSDiscovery with a recording networking thread:
    [(method name, destination is the multicast group, parameter set handed to add_outbound_message)]."""
    import inspect

    from lxml import etree
    from sdc11073.wsdiscovery import wsdimpl
    from sdc11073.wsdiscovery.common import MULTICAST_IPV4_ADDRESS
    from sdc11073.wsdiscovery.service import Service
    from sdc11073.xml_types import wsd_types
    wsd = wsdimpl.WSDiscovery('127.0.0.1')
    calls = []

    class Rec:
        def add_outbound_message(self, msg, addr, port, params):
            calls.append((addr, params))
    wsd._networking_thread = Rec()
    service = Service([etree.QName('http://x', 'T')], wsd_types.ScopesType('http://scope/a'), ['http://127.0.0.1:1/x'],
                      'urn:uuid:00000000-0000-0000-0000-000000000001', '1', metadata_version=1)
    values = {'service': service, 'services': [service], 'relates_to': 'urn:uuid:1', 'addr': ('127.0.0.9', 4444),
              'types': None, 'scopes': None, 'epr': 'urn:uuid:2'}
    table = []
    for name, fn in sorted(inspect.getmembers(wsdimpl.WSDiscovery, inspect.isfunction)):
        if not name.startswith('_send_'):
            continue
        args = [values[p] for p in list(inspect.signature(fn).parameters)[1:]]
        calls.clear()
        fn(wsd, *args)
        for addr, params in calls:
            table.append((name, addr == MULTICAST_IPV4_ADDRESS, params))
    return table


def impl_schedule(nt, th, params, init, d):
    """send times (us) the real code enqueues for the given random outcomes; exceptions are returned as strings."""
    th._send_queue = queue.PriorityQueue(10000)
    with mock.patch.object(nt.random, 'randint', lambda a, b: init), \
            mock.patch.object(nt.random, 'randrange', lambda a, b=None: d), \
            mock.patch.object(nt.time, 'time', lambda: 0.0):
        th._repeated_enqueue_msg(None, params)
    items = sorted(th._send_queue.queue, key=lambda e: e.repeat)
    return [round(e.send_time * 1e6) for e in items]


def oracle(params, init, d, ts):
    """The property, directly on the implementation's output (us). Returns None or a description."""
    if len(ts) != 1 + params.repeat:
        return f'{len(ts)} transmissions instead of {1 + params.repeat}'
    if not (0 <= ts[0] <= params.max_initial_delay_ms * 1000):
        return f'first transmission at {ts[0]} us > max initial delay'
    gaps = [b - a for a, b in zip(ts, ts[1:])]
    if gaps:
        if not (params.min_delay_ms * 1000 <= gaps[0] < params.max_delay_ms * 1000):
            return f'first gap {gaps[0]} us outside window'
        for i in range(len(gaps) - 1):
            exp = min(2 * gaps[i], params.upper_delay_ms * 1000)
            if gaps[i + 1] != exp:
                return f'gap {i + 1} is {gaps[i + 1]} us, expected min(2*{gaps[i]}, {params.upper_delay_ms * 1000})'
    return None


def _param_sets(ctx, nt):
    sets = [('unicast', nt.UNICAST_REPEAT_PARAMS), ('multicast', nt.MULTICAST_REPEAT_PARAMS)]
    rng = ctx.subrng('params')
    for i in range(ctx.n(40, 400)):
        mn = rng.randint(0, 60)
        mx = mn + rng.randint(1, 40)
        sets.append((f'synthetic{i}', nt._UdpRepeatParams(rng.randint(0, 30), rng.randint(0, 6), mn, mx,
                                                          rng.choice([rng.randint(1, 200), mx, 2 * mx, mn]))))
    return sets


def run(ctx):
    nt, th = _mk_thread()
    lines, cases = [], []
    for name, p in _param_sets(ctx, nt):
        full = name in ('unicast', 'multicast')
        inits = range(0, p.max_initial_delay_ms + 1) if (full or ctx.tier == 'thorough') else sorted({0, p.max_initial_delay_ms, p.max_initial_delay_ms // 2})
        if full and ctx.tier == 'quick':
            # all first-gap draws x a stride of initial delays + the corners (gaps do not depend on init; thorough runs all)
            inits = sorted(set(range(0, p.max_initial_delay_ms + 1, 10)) | {p.max_initial_delay_ms})
        for init in inits:
            for d in range(p.min_delay_ms, p.max_delay_ms):
                ts = impl_schedule(nt, th, p, init, d)
                case = {'params': [p.max_initial_delay_ms, p.repeat, p.min_delay_ms, p.max_delay_ms, p.upper_delay_ms],
                        'init': init, 'd': d}
                bad = oracle(p, init, d, ts)
                if bad:
                    ctx.fail('retransmission-schedule:' + bad.split(' ')[0] + ('-gap' if 'gap' in bad else ''), bad,
                             {**case, 'impl_send_times_us': ts, 'set': name})
                lines.append('sched ' + ' '.join(map(str, case['params'])) + f' {init} {d}')
                cases.append((case, ts))
                ctx.case(case, nontrivial=p.repeat > 0, sample={**case, 'impl_send_times_us': ts} if (init, d) == (inits[-1], p.max_delay_ms - 1) and full else None)
        ctx.count('param-set:' + ('real' if full else 'synthetic'))
    ctx.exhaustive = ctx.tier == 'thorough'
    ctx.notes['explanation'] = ('both real parameter sets: every first-gap draw x ' +
                                ('every' if ctx.tier == 'thorough' else 'every 10th') + ' initial-delay draw')
    if ctx.driver_ok:
        out = ctx.driver('drv_c15', lines)
        for (case, ts), o in zip(cases, out):
            try:
                model = [int(x) * 1000 for x in o.split()]
            except ValueError:
                model = o
            if model != ts:
                ctx.disagree('schedule(model) == send times enqueued by _repeated_enqueue_msg', case, model, ts)
    # ---- known-id window: add_outbound_message registers own id; _run_q_read's duplicate filter
    run_known_ids(ctx, nt, th)
    # ---- back-pressure: the bounded send queue is full while a message is enqueued; nothing may be dropped
    run_backpressure(ctx, nt)
    # ---- the send loop on a virtual clock: transmissions vs schedule, several overlapping messages, stop while pending
    run_send_loop(ctx, nt)
    run_register_race(ctx, nt)
    extreme_draw_runs(ctx, nt)
    lifecycle_runs(ctx, nt)
    failing_send_runs(ctx, nt)
    stop_race_runs(ctx, nt)
    stop_between_puts_runs(ctx, nt)
    # ---- glue: every sender hands over the parameter set of its destination
    for name, mc, ps in sender_table(nt):
        want = nt.MULTICAST_REPEAT_PARAMS if mc else nt.UNICAST_REPEAT_PARAMS
        case = {'sender': name, 'multicast_destination': mc}
        if ps != want:
            ctx.fail('retransmission-schedule:wrong-parameter-set',
                     f'{name} sends to a {"multicast" if mc else "unicast"} destination with {ps}: {1 + ps.repeat} transmissions instead of {1 + want.repeat}', case)
        ctx.case(case, nontrivial=True)
        ctx.count('senders')


class _VClock:
    def __init__(self):
        self.now = 0


def loop_script(rng, nt, k):
    """calls of add_outbound_message at times that never fall on the loop's raster (…250 µs) and one schedule_stop (…500 µs)"""
    sets = [nt.UNICAST_REPEAT_PARAMS, nt.MULTICAST_REPEAT_PARAMS]
    adds = []
    horizon = rng.choice([200, 600, 1500, 3000])
    for i in range(rng.choice([1, 2, 2, 3, 4, 6])):
        if rng.random() < 0.7:
            p = rng.choice(sets)
            prm = [p.max_initial_delay_ms, p.repeat, p.min_delay_ms, p.max_delay_ms, p.upper_delay_ms]
        else:
            mn = rng.randint(0, 60)
            mx = mn + rng.randint(1, 60)
            prm = [rng.randint(0, 300), rng.randint(0, 5), mn, mx, rng.choice([mx, 2 * mx, rng.randint(1, 300)])]
        at = rng.choice([0, 0, rng.randrange(0, 30), rng.randrange(0, horizon)]) * 1000 + 250
        init = rng.choice([0, prm[0], rng.randint(0, prm[0])])
        d = rng.randrange(prm[2], prm[3])
        adds.append({'at': at, 'msg': i, 'params': prm, 'init': init, 'd': d})
    adds.sort(key=lambda a: (a['at'], a['msg']))
    quit_at = rng.choice([rng.randrange(0, horizon + 400), rng.randrange(0, horizon + 400), horizon + 3000]) * 1000 + 500
    return {'adds': adds, 'quit_at': quit_at}


def impl_send_loop(nt, script):
    """The real `_run_send` (and `add_outbound_message`, `schedule_stop`) on a virtual clock: `time.sleep` advances the clock and
    lets the scripted calls of the other threads happen at their times. Returns ([(instant_us, msg, repeat)], [(msg, repeat,
    send_time_us)] = what was put on the queue)."""
    th = _mk_thread()[1]
    clock = _VClock()
    events = sorted([(a['at'], 0, a) for a in script['adds']] + [(script['quit_at'], 1, None)], key=lambda e: (e[0], e[1]))
    pending = list(events)
    sent, queued = [], []

    class FakeRandom:
        draw = None

        @staticmethod
        def randint(a, b):
            return FakeRandom.draw[0]

        @staticmethod
        def randrange(a, b=None):
            return FakeRandom.draw[1]

    def do_due(target):
        while pending and pending[0][0] <= target:
            t, kind, a = pending.pop(0)
            clock.now = max(clock.now, t)
            if kind == 1:
                th.schedule_stop()
            else:
                msg = mock.MagicMock()
                msg.p_msg.header_info_block.MessageID = f'm{a["msg"]}'
                msg.verif_id = a['msg']
                FakeRandom.draw = (a['init'], a['d'])
                before = len(th._send_queue.queue)
                th.add_outbound_message(msg, '239.255.255.250', 3702, nt._UdpRepeatParams(*a['params']))
                for e in list(th._send_queue.queue):
                    if e.msg.created_message is msg:
                        queued.append((a['msg'], e.repeat, round(e.send_time * 1e6)))
                assert len(th._send_queue.queue) >= before

    class FakeTime:
        @staticmethod
        def time():
            return clock.now / 1e6

        n_sleeps = 0

        @staticmethod
        def sleep(dt):
            # a sleep always takes time (at least 1 us of the virtual clock); a loop that does not end is an error, not a hang
            FakeTime.n_sleeps += 1
            target = clock.now + max(1, round(dt * 1e6))
            do_due(target)
            clock.now = target
            if clock.now > 60_000_000 or FakeTime.n_sleeps > 200_000:
                raise RuntimeError(f'send loop still running after {clock.now / 1e6} virtual seconds / {FakeTime.n_sleeps} sleeps')
    key = mock.MagicMock()
    th._outbound_selector = mock.MagicMock()
    th._outbound_selector.select = lambda timeout=None: [(key, None)]
    th._send_msg = lambda q_msg, sock: sent.append((clock.now, q_msg.msg.created_message.verif_id, q_msg.repeat))
    with mock.patch.object(nt, 'time', FakeTime), mock.patch.object(nt, 'random', FakeRandom):
        do_due(0)
        th._run_send()
    return sorted(sent), sorted(set(queued))


def loop_oracle(nt, script, sent, queued):
    """the statement at the level of transmissions: every accepted message 1 + repeat times, each transmission not before
    its scheduled time and less than one idle sleep after it"""
    idle = round(nt.SEND_LOOP_IDLE_SLEEP * 1e6)
    busy = round(nt.SEND_LOOP_BUSY_SLEEP * 1e6)
    added = {a['msg']: a['at'] for a in script['adds']}
    sched = {(m, r): t for m, r, t in queued}
    for a in script['adds']:
        mine = [s for s in sent if s[1] == a['msg']]
        want = (1 + a['params'][1]) if a['at'] < script['quit_at'] else 0
        if len(mine) != want:
            return 'count', f'message {a["msg"]} (call at {a["at"]} us, stop at {script["quit_at"]} us) transmitted {len(mine)} times instead of {want}'
        if sorted(r for _, _, r in mine) != list(range(1, want + 1)):
            return 'count', f'message {a["msg"]}: repetition numbers {sorted(r for _, _, r in mine)}'
    for t, m, r in sent:
        st = sched.get((m, r))
        if st is None:
            return 'count', f'transmission {(t, m, r)} was never scheduled'
        if t < st:
            return 'early', f'message {m} transmission {r} left at {t} us, scheduled for {st} us'
        if t >= st + idle:
            return 'late', f'message {m} transmission {r} left at {t} us, scheduled for {st} us (more than one idle sleep late)'
        # once the loop has noticed the message (at most one idle sleep after the call) it polls in the busy raster
        if st >= added[m] + idle and t >= st + busy:
            return 'late', (f'message {m} transmission {r} left at {t} us, scheduled for {st} us: {t - st} us late although the loop had '
                            f'pending entries for more than an idle sleep (busy raster {busy} us)')
    return None


def run_send_loop(ctx, nt, scripts=None):
    rng = ctx.subrng('loop')
    busy, idle = round(nt.SEND_LOOP_BUSY_SLEEP * 1e6), round(nt.SEND_LOOP_IDLE_SLEEP * 1e6)
    todo = scripts if scripts is not None else [loop_script(rng, nt, k) for k in range(ctx.n(150, 3000))]
    lines, impls = [], []
    for script in todo:
        try:
            sent, queued = impl_send_loop(nt, script)
        except Exception as ex:  # noqa: BLE001
            ctx.fail('retransmission-loop:raised', repr(ex), {'loop_script': script})
            continue
        bad = loop_oracle(nt, script, sent, queued)
        if bad:
            ctx.fail('retransmission-loop:' + bad[0], bad[1], {'loop_script': script, 'transmissions': sent[:40]})
        ctx.case({'loop_script': script}, nontrivial=len(script['adds']) > 1 or script['quit_at'] < 10 ** 7,
                 sample={'loop_script': script, 'transmissions_us': sent[:12]} if len(impls) == 1 else None)
        ctx.count('loop-scripts')
        ctx.count('loop:stop-while-pending' if any(t > script['quit_at'] for t, _, _ in sent) else 'loop:stop-after-drain')
        if any(a['at'] >= script['quit_at'] for a in script['adds']):
            ctx.count('loop:add-after-stop')
        lines.append(f'loop {busy} {idle} {script["quit_at"]} 200000 ' +
                     ' '.join(' '.join(map(str, [a['at'], a['msg'], *a['params'], a['init'], a['d']])) for a in script['adds']))
        impls.append((script, 'done ' + ' '.join(f'{t}:{m}:{r}' for t, m, r in sent)))
    if ctx.driver_ok and lines:
        out = ctx.driver('drv_c15', lines)
        for (script, impl), o in zip(impls, out):
            if o.strip() != impl.strip():
                ctx.disagree('send loop: transmissions (instant:msg:repeat) of run(start adds quitAt) == real _run_send on the virtual clock',
                             {'loop_script': script}, o[:400], impl[:400])


def run_backpressure(ctx, nt):
    """Exactly 1 + repeat transmissions also when the (bounded) send queue is full at the time of the call:
    the enqueue has to wait for the send loop to make room, it must not drop or truncate the schedule."""
    for name, p in (('unicast', nt.UNICAST_REPEAT_PARAMS), ('multicast', nt.MULTICAST_REPEAT_PARAMS)):
        th = _mk_thread()[1]          # the real queue object with its real capacity
        q = th._send_queue
        cap = q.maxsize
        if cap <= 0:
            ctx.count('backpressure:unbounded-queue')
            continue
        filler = object()
        for i in range(cap - 1):
            q.put_nowait(nt.NetworkingThread._EnqueuedMessage(-1.0 - i, filler, 0))
        marker = object()
        done = threading.Event()
        err = []

        def work():
            try:
                with mock.patch.object(nt.random, 'randint', lambda a, b: 0), \
                        mock.patch.object(nt.random, 'randrange', lambda a, b=None: a):
                    th._repeated_enqueue_msg(marker, p)
            except Exception as ex:  # noqa: BLE001
                err.append(repr(ex))
            done.set()
        t = threading.Thread(target=work, daemon=True)
        t.start()
        got = []
        import time as _time
        deadline = _time.time() + 20
        _time.sleep(0.05)
        while _time.time() < deadline and not (done.is_set() and q.empty()):
            try:
                item = q.get(timeout=0.05)   # the send loop makes room
            except queue.Empty:
                continue
            if item.msg is marker:
                got.append(item.repeat)
        case = {'backpressure': name, 'queue_capacity': cap, 'params': [p.max_initial_delay_ms, p.repeat, p.min_delay_ms, p.max_delay_ms, p.upper_delay_ms]}
        if err:
            ctx.fail('retransmission-schedule:enqueue-raised-under-backpressure', err[0], case)
        elif not done.is_set():
            ctx.fail('retransmission-schedule:enqueue-blocked-forever', 'enqueue did not finish although the queue was drained', case)
        elif len(got) != 1 + p.repeat:
            ctx.fail('retransmission-schedule:dropped-under-backpressure',
                     f'{len(got)} transmissions queued instead of {1 + p.repeat} when the send queue was full (repeat numbers {sorted(got)})', case)
        ctx.case(case, nontrivial=True)
        ctx.count('backpressure-runs')


def run_known_ids(ctx, nt, th):
    rng = ctx.subrng('ids')
    maxlen = known_window(th)
    # the guarantee is judged against the window of the pinned tree at least: a smaller window forgets own messages earlier
    win = max(maxlen, PINNED_WINDOW)
    for k in range(ctx.n(30, 300)):
        nids = rng.choice([3, 10, win // 2, win + 5, 2 * win])
        evs = []
        for _ in range(rng.randint(1, 3 * win if nids > 40 else 40)):
            evs.append((rng.choice(['out', 'recv', 'recv']), f'id{rng.randrange(nids)}'))
        # implementation: real deque + the membership test / appendleft of _run_q_read and add_outbound_message
        th2 = _mk_thread()[1]
        th2._send_queue = queue.PriorityQueue(100000)
        impl = []
        lines = [f'maxlen {maxlen}']
        own = {}
        for i, (kind, mid) in enumerate(evs):
            if kind == 'out':
                msg = mock.MagicMock()
                msg.p_msg.header_info_block.MessageID = mid
                with mock.patch.object(nt.random, 'randint', lambda a, b: 0), mock.patch.object(nt.random, 'randrange', lambda a, b=None: a):
                    th2.add_outbound_message(msg, '127.0.0.1', 3702, nt.UNICAST_REPEAT_PARAMS)
                impl.append('ok')
                own[mid] = i
            else:
                impl.append(_impl_recv(nt, th2, mid))
                # oracle: an own id registered < maxlen events ago must be skipped
                if mid in own and impl[-1] == 'dispatch':
                    # ids pushed onto the bounded window since the registration (every `out`, every dispatched `recv`)
                    since = sum(1 for j in range(own[mid] + 1, i) if evs[j][0] == 'out' or impl[j] == 'dispatch')
                    if since < win:
                        ctx.fail('own-message-dispatched', f'own id {mid} dispatched after only {since} further ids were remembered',
                                 {'events': evs[:i + 1], 'maxlen': maxlen})
            lines.append(f'{kind} {mid}')
        ctx.case({'known-ids': evs}, nontrivial=any(k == 'recv' for k, _ in evs),
                 sample={'known-id-events': evs[:12], 'impl': impl[:12]} if k == 0 else None)
        if ctx.driver_ok:
            out = ctx.driver('drv_c15', lines)[1:]
            if out != impl:
                j = next(i for i, (a, b) in enumerate(zip(out, impl)) if a != b)
                ctx.disagree('known-id window (deque maxlen, appendleft, membership)', {'events': evs[:j + 1]}, out[j], impl[j])


def _impl_recv(nt, th, mid):
    """Feed one datagram with message id `mid` through the real _run_q_read loop body."""
    received = mock.MagicMock()
    received.p_msg.header_info_block.MessageID = mid
    dispatched = []
    th._wsd = mock.MagicMock()
    th._wsd.handle_received_message = lambda msg, addr: dispatched.append(msg)
    th._read_queue = queue.Queue()
    th._read_queue.put((('127.0.0.1', 1), b'<x/>'))
    th._quit_recv_event = threading.Event()

    class _Reader:
        @staticmethod
        def read_received_message(data, validate=True):
            th._quit_recv_event.set()  # leave the loop after this datagram
            return received
    with mock.patch.object(nt, 'message_reader', _Reader):
        th._run_q_read()
    return 'dispatch' if dispatched else 'skip'


def search(ctx):
    """Failing-input search: the oracle over the complete draw space of the real parameter sets."""
    nt, th = _mk_thread()
    rng = ctx.subrng('loop-search')
    for k in range(2000):
        script = loop_script(rng, nt, k)
        try:
            sent, queued = impl_send_loop(nt, script)
            bad = loop_oracle(nt, script, sent, queued)
        except Exception as ex:  # noqa: BLE001
            bad = ('raised', repr(ex))
            sent = []
        if bad:
            ctx.fail('retransmission-loop:' + bad[0], bad[1], {'loop_script': script, 'transmissions': sent[:40]})
            return
    run_register_race(ctx, nt)
    extreme_draw_runs(ctx, nt)
    ok_before = ctx.driver_ok
    ctx.driver_ok = False
    lifecycle_runs(ctx, nt)
    ctx.driver_ok = ok_before
    failing_send_runs(ctx, nt)
    stop_race_runs(ctx, nt)
    stop_between_puts_runs(ctx, nt)
    if ctx.failures:
        return
    join_real_threads(ctx, nt)
    if ctx.failures:
        return
    for name, mc, ps in sender_table(nt):
        want = nt.MULTICAST_REPEAT_PARAMS if mc else nt.UNICAST_REPEAT_PARAMS
        if ps != want:
            ctx.fail('retransmission-schedule:wrong-parameter-set', f'{name}: {ps} for a {"multicast" if mc else "unicast"} destination',
                     {'sender': name, 'multicast_destination': mc})
            return
    for name, p in (('unicast', nt.UNICAST_REPEAT_PARAMS), ('multicast', nt.MULTICAST_REPEAT_PARAMS)):
        if not p.min_delay_ms < p.max_delay_ms:
            try:
                impl_schedule(nt, th, p, 0, nt.random.randrange(p.min_delay_ms, p.max_delay_ms))
            except Exception as ex:  # noqa: BLE001
                ctx.fail('retransmission-schedule:no-transmission', f'{name}: random draw raises {ex!r}; nothing is sent',
                         {'set': name, 'params': list(vars(p).values())})
            continue
        for init in range(0, p.max_initial_delay_ms + 1):
            for d in range(p.min_delay_ms, p.max_delay_ms):
                ts = impl_schedule(nt, th, p, init, d)
                bad = oracle(p, init, d, ts)
                if bad:
                    ctx.fail('retransmission-schedule:' + bad.split(' ')[0], bad,
                             {'set': name, 'params': list(vars(p).values()), 'init': init, 'd': d, 'impl_send_times_us': ts})
                    return


def replay(ctx, obj):
    nt, th = _mk_thread()
    case = obj['case']
    if 'events' in case:
        th2 = _mk_thread()[1]
        th2._send_queue = queue.PriorityQueue(100000)
        res = None
        for kind, mid in case['events']:
            if kind == 'out':
                msg = mock.MagicMock()
                msg.p_msg.header_info_block.MessageID = mid
                th2.add_outbound_message(msg, '127.0.0.1', 3702, nt.UNICAST_REPEAT_PARAMS)
            else:
                res = _impl_recv(nt, th2, mid)
        return res == 'dispatch'
    if 'loop_script' in case:
        c2 = core.Ctx('C15', 'quick', 0)
        c2.driver_ok = False
        run_send_loop(c2, nt, [case['loop_script']])
        for f in c2.failures:
            print('  ', f['signature'], f['detail'])
        return bool(c2.failures)
    if 'lifecycle' in case or 'failing_send' in case or 'stop_race' in case or 'stop_between_puts' in case:
        c2 = core.Ctx('C15', 'quick', 0)
        c2.driver_ok = False
        (lifecycle_runs if 'lifecycle' in case else failing_send_runs if 'failing_send' in case else stop_between_puts_runs if 'stop_between_puts' in case else stop_race_runs)(c2, nt)
        for f in c2.failures:
            print('  ', f['signature'], f['detail'][:300])
        return bool(c2.failures)
    if 'extreme_draws' in case or 'join_real_threads' in case:
        c2 = core.Ctx('C15', 'quick', 0)
        (extreme_draw_runs if 'extreme_draws' in case else join_real_threads)(c2, nt)
        for f in c2.failures:
            print('  ', f['signature'], f['detail'])
        return bool(c2.failures)
    if 'register_race' in case:
        c2 = core.Ctx('C15', 'quick', 0)
        run_register_race(c2, nt)
        for f in c2.failures:
            print('  ', f['signature'], f['detail'])
        return bool(c2.failures)
    if 'sender' in case:
        bad = [r for r in sender_table(nt) if r[0] == case['sender'] and r[2] != (nt.MULTICAST_REPEAT_PARAMS if r[1] else nt.UNICAST_REPEAT_PARAMS)]
        print('  ', bad)
        return bool(bad)
    if 'backpressure' in case:
        c2 = core.Ctx('C15', 'quick', 0)
        run_backpressure(c2, nt)
        for f in c2.failures:
            print('  ', f['signature'], f['detail'])
        return bool(c2.failures)
    p = nt._UdpRepeatParams(*case['params'])
    ts = impl_schedule(nt, th, p, case['init'], case['d'])
    bad = oracle(p, case['init'], case['d'], ts)
    print('send times (us):', ts, '->', bad)
    return bad is not None
