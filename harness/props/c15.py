"""C15 — SOAP-over-UDP retransmission envelope + own message ids ignored.

Tie: translator (parameter sets, deque maxlen -> Generated/UdpParams.lean) and an exhaustive correspondence:
every outcome of the two random draws for both parameter sets (and for random synthetic parameter sets) is run
through the real `_repeated_enqueue_msg` with `random`/`time` replaced, and through the Lean model.
"""
from __future__ import annotations

import collections
import logging
import queue
import threading
from unittest import mock

import core

READY = True
MANIFEST = dict(
    technique='Lean 4 theorems over a transcribed schedule model (closed form for all draws/parameter sets, induction over the event list for the id window); translator regenerates the parameter sets; exhaustive correspondence over every random draw',
    text='Theorems (Properties/C15.lean) prove count, first delay, first-gap window, doubling-with-cap for every parameter set and every outcome of both random draws, and that own message ids are skipped while inside the bounded window, for every event sequence. The real parameter sets are regenerated into Generated/UdpParams.lean on each run; the model is compared with _repeated_enqueue_msg on every draw.',
    note='Trusted: Lean kernel; translator + harness; float summation (<1us) and the 10 ms send raster are outside the model.',
    ref='5 C15')
DRIVERS = ['drv_c15']
RULE = ('one case = (parameter set, initial-delay draw, first-gap draw) or one known-id event sequence; all cases are '
        'distinct by construction (enumeration); non-trivial = schedule has at least one repetition / sequence has a recv')
TRUSTED = ['float summation of send times (error < 1 us, quantised to us)', 'the 10 ms raster of the send loop is not modelled',
           'random.randint / randrange return values inside their documented ranges']
ASSUMPTIONS = ['time.time/random patched in-process; sockets of NetworkingThread not created']


def _mk_thread():
    from sdc11073.wsdiscovery import networkingthread as nt
    with mock.patch.object(nt.NetworkingThread, '_create_multicast_in_socket', lambda *a, **k: None), \
            mock.patch.object(nt.NetworkingThread, '_create_multi_out_uni_in_out_socket', lambda *a, **k: None):
        th = nt.NetworkingThread('127.0.0.1', mock.MagicMock(), logging.getLogger('verif.c15'), 3702, 1)
    return nt, th


def translate(ctx):
    nt, th = _mk_thread()
    u, m = nt.UNICAST_REPEAT_PARAMS, nt.MULTICAST_REPEAT_PARAMS

    def p(x):
        return f'⟨{x.max_initial_delay_ms}, {x.repeat}, {x.min_delay_ms}, {x.max_delay_ms}, {x.upper_delay_ms}⟩'
    src = ('import SdcModel.UdpRepeat\nnamespace Sdc.Generated\nopen Sdc.UdpRepeat\n'
           f'def unicast : Params := {p(u)}\ndef multicast : Params := {p(m)}\n'
           f'def knownIdsMaxlen : Nat := {th._known_message_ids.maxlen}\nend Sdc.Generated\n')
    core.write_if_changed(core.GENERATED + '/UdpParams.lean', src)


def impl_schedule(nt, th, params, init, d):
    """send times (us) the real code enqueues for the given random outcomes; exceptions are returned as strings."""
    th._send_queue = queue.PriorityQueue(10000)
    with mock.patch.object(nt.random, 'randint', lambda a, b: init), \
            mock.patch.object(nt.random, 'randrange', lambda a, b=None: d), \
            mock.patch.object(nt.time, 'time', lambda: 0.0):
        th._repeated_enqueue_msg(None, params)
    items = sorted(th._send_queue.queue, key=lambda e: e.repeat)
    return [round(e.send_time * 1e6) for e in items]


def oracle(params, init, d, ts):
    """The property, directly on the implementation's output (us). Returns None or a description."""
    if len(ts) != 1 + params.repeat:
        return f'{len(ts)} transmissions instead of {1 + params.repeat}'
    if not (0 <= ts[0] <= params.max_initial_delay_ms * 1000):
        return f'first transmission at {ts[0]} us > max initial delay'
    gaps = [b - a for a, b in zip(ts, ts[1:])]
    if gaps:
        if not (params.min_delay_ms * 1000 <= gaps[0] < params.max_delay_ms * 1000):
            return f'first gap {gaps[0]} us outside window'
        for i in range(len(gaps) - 1):
            exp = min(2 * gaps[i], params.upper_delay_ms * 1000)
            if gaps[i + 1] != exp:
                return f'gap {i + 1} is {gaps[i + 1]} us, expected min(2*{gaps[i]}, {params.upper_delay_ms * 1000})'
    return None


def _param_sets(ctx, nt):
    sets = [('unicast', nt.UNICAST_REPEAT_PARAMS), ('multicast', nt.MULTICAST_REPEAT_PARAMS)]
    rng = ctx.subrng('params')
    for i in range(ctx.n(40, 400)):
        mn = rng.randint(0, 60)
        mx = mn + rng.randint(1, 40)
        sets.append((f'synthetic{i}', nt._UdpRepeatParams(rng.randint(0, 30), rng.randint(0, 6), mn, mx,
                                                          rng.choice([rng.randint(1, 200), mx, 2 * mx, mn]))))
    return sets


def run(ctx):
    nt, th = _mk_thread()
    lines, cases = [], []
    for name, p in _param_sets(ctx, nt):
        full = name in ('unicast', 'multicast')
        inits = range(0, p.max_initial_delay_ms + 1) if (full or ctx.tier == 'thorough') else sorted({0, p.max_initial_delay_ms, p.max_initial_delay_ms // 2})
        if full and ctx.tier == 'quick':
            # all first-gap draws x a stride of initial delays + the corners (gaps do not depend on init; thorough runs all)
            inits = sorted(set(range(0, p.max_initial_delay_ms + 1, 10)) | {p.max_initial_delay_ms})
        for init in inits:
            for d in range(p.min_delay_ms, p.max_delay_ms):
                ts = impl_schedule(nt, th, p, init, d)
                case = {'params': [p.max_initial_delay_ms, p.repeat, p.min_delay_ms, p.max_delay_ms, p.upper_delay_ms],
                        'init': init, 'd': d}
                bad = oracle(p, init, d, ts)
                if bad:
                    ctx.fail('retransmission-schedule:' + bad.split(' ')[0] + ('-gap' if 'gap' in bad else ''), bad,
                             {**case, 'impl_send_times_us': ts, 'set': name})
                lines.append('sched ' + ' '.join(map(str, case['params'])) + f' {init} {d}')
                cases.append((case, ts))
                ctx.case(case, nontrivial=p.repeat > 0, sample={**case, 'impl_send_times_us': ts} if (init, d) == (inits[-1], p.max_delay_ms - 1) and full else None)
        ctx.count('param-set:' + ('real' if full else 'synthetic'))
    ctx.exhaustive = ctx.tier == 'thorough'
    ctx.notes['explanation'] = ('both real parameter sets: every first-gap draw x ' +
                                ('every' if ctx.tier == 'thorough' else 'every 10th') + ' initial-delay draw')
    if ctx.driver_ok:
        out = ctx.driver('drv_c15', lines)
        for (case, ts), o in zip(cases, out):
            try:
                model = [int(x) * 1000 for x in o.split()]
            except ValueError:
                model = o
            if model != ts:
                ctx.disagree('schedule(model) == send times enqueued by _repeated_enqueue_msg', case, model, ts)
    # ---- known-id window: add_outbound_message registers own id; _run_q_read's duplicate filter
    run_known_ids(ctx, nt, th)
    # ---- back-pressure: the bounded send queue is full while a message is enqueued; nothing may be dropped
    run_backpressure(ctx, nt)


def run_backpressure(ctx, nt):
    """Exactly 1 + repeat transmissions also when the (bounded) send queue is full at the time of the call:
    the enqueue has to wait for the send loop to make room, it must not drop or truncate the schedule."""
    for name, p in (('unicast', nt.UNICAST_REPEAT_PARAMS), ('multicast', nt.MULTICAST_REPEAT_PARAMS)):
        th = _mk_thread()[1]          # the real queue object with its real capacity
        q = th._send_queue
        cap = q.maxsize
        if cap <= 0:
            ctx.count('backpressure:unbounded-queue')
            continue
        filler = object()
        for i in range(cap - 1):
            q.put_nowait(nt.NetworkingThread._EnqueuedMessage(-1.0 - i, filler, 0))
        marker = object()
        done = threading.Event()
        err = []

        def work():
            try:
                with mock.patch.object(nt.random, 'randint', lambda a, b: 0), \
                        mock.patch.object(nt.random, 'randrange', lambda a, b=None: a):
                    th._repeated_enqueue_msg(marker, p)
            except Exception as ex:  # noqa: BLE001
                err.append(repr(ex))
            done.set()
        t = threading.Thread(target=work, daemon=True)
        t.start()
        got = []
        import time as _time
        deadline = _time.time() + 20
        _time.sleep(0.05)
        while _time.time() < deadline and not (done.is_set() and q.empty()):
            try:
                item = q.get(timeout=0.05)   # the send loop makes room
            except queue.Empty:
                continue
            if item.msg is marker:
                got.append(item.repeat)
        case = {'backpressure': name, 'queue_capacity': cap, 'params': [p.max_initial_delay_ms, p.repeat, p.min_delay_ms, p.max_delay_ms, p.upper_delay_ms]}
        if err:
            ctx.fail('retransmission-schedule:enqueue-raised-under-backpressure', err[0], case)
        elif not done.is_set():
            ctx.fail('retransmission-schedule:enqueue-blocked-forever', 'enqueue did not finish although the queue was drained', case)
        elif len(got) != 1 + p.repeat:
            ctx.fail('retransmission-schedule:dropped-under-backpressure',
                     f'{len(got)} transmissions queued instead of {1 + p.repeat} when the send queue was full (repeat numbers {sorted(got)})', case)
        ctx.case(case, nontrivial=True)
        ctx.count('backpressure-runs')


def run_known_ids(ctx, nt, th):
    rng = ctx.subrng('ids')
    maxlen = th._known_message_ids.maxlen
    for k in range(ctx.n(30, 300)):
        nids = rng.choice([3, 10, maxlen + 5, 2 * maxlen])
        evs = []
        for _ in range(rng.randint(1, 3 * maxlen if nids > maxlen else 40)):
            evs.append((rng.choice(['out', 'recv', 'recv']), f'id{rng.randrange(nids)}'))
        # implementation: real deque + the membership test / appendleft of _run_q_read and add_outbound_message
        th2 = _mk_thread()[1]
        th2._send_queue = queue.PriorityQueue(100000)
        impl = []
        lines = [f'maxlen {maxlen}']
        own = {}
        for i, (kind, mid) in enumerate(evs):
            if kind == 'out':
                msg = mock.MagicMock()
                msg.p_msg.header_info_block.MessageID = mid
                with mock.patch.object(nt.random, 'randint', lambda a, b: 0), mock.patch.object(nt.random, 'randrange', lambda a, b=None: a):
                    th2.add_outbound_message(msg, '127.0.0.1', 3702, nt.UNICAST_REPEAT_PARAMS)
                impl.append('ok')
                own[mid] = i
            else:
                impl.append(_impl_recv(nt, th2, mid))
                # oracle: an own id registered < maxlen events ago must be skipped
                if mid in own and impl[-1] == 'dispatch':
                    # ids pushed onto the bounded window since the registration (every `out`, every dispatched `recv`)
                    since = sum(1 for j in range(own[mid] + 1, i) if evs[j][0] == 'out' or impl[j] == 'dispatch')
                    if since < maxlen:
                        ctx.fail('own-message-dispatched', f'own id {mid} dispatched after only {since} further ids were remembered',
                                 {'events': evs[:i + 1], 'maxlen': maxlen})
            lines.append(f'{kind} {mid}')
        ctx.case({'known-ids': evs}, nontrivial=any(k == 'recv' for k, _ in evs),
                 sample={'known-id-events': evs[:12], 'impl': impl[:12]} if k == 0 else None)
        if ctx.driver_ok:
            out = ctx.driver('drv_c15', lines)[1:]
            if out != impl:
                j = next(i for i, (a, b) in enumerate(zip(out, impl)) if a != b)
                ctx.disagree('known-id window (deque maxlen, appendleft, membership)', {'events': evs[:j + 1]}, out[j], impl[j])


def _impl_recv(nt, th, mid):
    """Feed one datagram with message id `mid` through the real _run_q_read loop body."""
    received = mock.MagicMock()
    received.p_msg.header_info_block.MessageID = mid
    dispatched = []
    th._wsd = mock.MagicMock()
    th._wsd.handle_received_message = lambda msg, addr: dispatched.append(msg)
    th._read_queue = queue.Queue()
    th._read_queue.put((('127.0.0.1', 1), b'<x/>'))
    th._quit_recv_event = threading.Event()

    class _Reader:
        @staticmethod
        def read_received_message(data, validate=True):
            th._quit_recv_event.set()  # leave the loop after this datagram
            return received
    with mock.patch.object(nt, 'message_reader', _Reader):
        th._run_q_read()
    return 'dispatch' if dispatched else 'skip'


def search(ctx):
    """Failing-input search: the oracle over the complete draw space of the real parameter sets."""
    nt, th = _mk_thread()
    for name, p in (('unicast', nt.UNICAST_REPEAT_PARAMS), ('multicast', nt.MULTICAST_REPEAT_PARAMS)):
        if not p.min_delay_ms < p.max_delay_ms:
            try:
                impl_schedule(nt, th, p, 0, nt.random.randrange(p.min_delay_ms, p.max_delay_ms))
            except Exception as ex:  # noqa: BLE001
                ctx.fail('retransmission-schedule:no-transmission', f'{name}: random draw raises {ex!r}; nothing is sent',
                         {'set': name, 'params': list(vars(p).values())})
            continue
        for init in range(0, p.max_initial_delay_ms + 1):
            for d in range(p.min_delay_ms, p.max_delay_ms):
                ts = impl_schedule(nt, th, p, init, d)
                bad = oracle(p, init, d, ts)
                if bad:
                    ctx.fail('retransmission-schedule:' + bad.split(' ')[0], bad,
                             {'set': name, 'params': list(vars(p).values()), 'init': init, 'd': d, 'impl_send_times_us': ts})
                    return


def replay(ctx, obj):
    nt, th = _mk_thread()
    case = obj['case']
    if 'events' in case:
        th2 = _mk_thread()[1]
        th2._send_queue = queue.PriorityQueue(100000)
        res = None
        for kind, mid in case['events']:
            if kind == 'out':
                msg = mock.MagicMock()
                msg.p_msg.header_info_block.MessageID = mid
                th2.add_outbound_message(msg, '127.0.0.1', 3702, nt.UNICAST_REPEAT_PARAMS)
            else:
                res = _impl_recv(nt, th2, mid)
        return res == 'dispatch'
    if 'backpressure' in case:
        c2 = core.Ctx('C15', 'quick', 0)
        run_backpressure(c2, nt)
        for f in c2.failures:
            print('  ', f['signature'], f['detail'])
        return bool(c2.failures)
    p = nt._UdpRepeatParams(*case['params'])
    ts = impl_schedule(nt, th, p, case['init'], case['d'])
    bad = oracle(p, case['init'], case['d'], ts)
    print('send times (us):', ts, '->', bad)
    return bad is not None
