"""C17 — HTTP body framing and content coding are lossless and honour negotiation.

Model: lean/SdcModel/Http.lean (+ Basic/ChunkHex.lean); theorems: Properties/C17.lean.
Tie:
  * translator: registered codings / available encodings / the 16 byte window of `_read_until`
    -> Generated/Codings.lean (facts about the registry are proved by `decide` over the generated table);
  * correspondence (driver `drv_c17`): `mk_chunks`, `HTTPReader._read_dechunk`, CPython `int(b.strip(), 16)`,
    `CompressionHandler.parse_header`, the coding choice, `HTTPReader.read_request_body`, `read_response_body`,
    `SoapClient._send_soap_request` (captured with a fake connection), `DispatchingRequestHandler.do_POST` (real handler on
    a fake socket), with a toy codec installed in `CompressionHandler.handlers` on both sides;
  * oracle: the statement itself on the real code with the real zlib / lz4 codecs, end to end through
    `_send_soap_request` -> http.client -> http.server -> `do_POST` -> http.client -> `read_response_body`.
Every call into the real readers runs under a watchdog (worker thread + timeout; streams additionally detect a reader
that keeps polling at EOF), so a spin is an oracle failure, not a hang of the check.
"""
from __future__ import annotations

import http.client
import inspect
import io
import itertools
import logging
import os
import queue
import re
import threading
import types
import zlib
from unittest import mock

import core

READY = True
MANIFEST = dict(
    technique='Lean 4 theorems over a transcribed model of the chunk writer/reader, the Accept-Encoding parser and the '
              'coding pipeline (induction over the body / the stream; codec as a parameter with dec(enc x) = x); translator '
              'regenerates the coding registry and the reader window; differential run of model driver and real code; '
              'end-to-end oracle with the real codecs',
    text='Properties/C17.lean proves: dechunk(mkChunks n body) = body for every byte string and every chunk size '
         '1 <= n < 16^(w-2) (w = 16 byte window of _read_until, regenerated), also with pipelined trailing data; mkChunks output '
         'is in the RFC 7230 chunked-body grammar for every n >= 1; the reader returns a body or DechunkError for every byte '
         'string and never exhausts the loop bound (termination); a coding is chosen only if enabled locally and declared '
         'with q > 0 by the last header element naming it, also for every response of a history with set_used_compression '
         'after start and for notifications (coding declared by the Subscribe request); Content-Length never accompanies '
         'Transfer-Encoding in what is sent; a message whose body cannot be read ends the persistent connection (no byte behind it is '
         'taken for a further request); request and response paths return the original body for any '
         'codec with dec(enc x) = x; a body in a coding that is not enabled / not registered / rejected by the codec never '
         'yields a result. The model is compared with mk_chunks, _read_dechunk, parse_header, read_request_body, '
         'read_response_body, _send_soap_request and do_POST on generated and exhaustively enumerated inputs.',
    note='Chunk sizes are covered for 1 <= n < 2^56: _read_until(max_bytes=16) cannot read a longer chunk-size line, the bound is '
         'part of the theorem. Trusted: zlib/lz4 (codec parameter; truncation/magic damage checked by the oracle only), '
         'http.client / http.server header handling and the chunked reader of http.client, CPython int()/float() (transcribed, '
         'under correspondence). q-values outside plain decimals (exponent, underscore, inf/nan, non-ASCII) are outside the '
         'model; Accept-Encoding elements with parameters other than q are not judged by the oracle.',
    ref='5 C17')
DRIVERS = ['drv_c17', 'drv_c13']   # drv_c13: the keep-alive loop `serveConn` (RequestFlow) shared with C13
RULE = ('one case = (body, chunk size) | one byte stream fed to _read_dechunk | one Accept-Encoding header (+ supported list) | '
        'one (headers, wire) pair for read_request_body/read_response_body | one end-to-end exchange (body, client/server '
        'coding configuration, chunk sizes); distinct by canonical JSON; non-trivial = body non-empty / stream non-empty / header '
        'names at least one coding')
TRUSTED = ['zlib / lz4.frame: decompress(compress(x)) = x and rejection of truncated streams (codec is a parameter of the model)',
           'http.client request serialisation, http.server request parsing, http.client chunked response reader',
           'CPython int(bytes, 16) and float(str) literal grammars are transcribed (int: complete, exhaustive correspondence on '
           'short strings; float: plain decimal forms only)',
           'BytesIO / BufferedReader read(n) returns fewer than n bytes only at EOF or as a short read that is retried']
ASSUMPTIONS = ['Accept-Encoding q-values in the correspondence are plain decimals with at most 15 significant digits (float order = '
               'exact order); other forms that float() accepts are counted as out-of-model-domain and only seen by the oracle',
               'header strings hold code points < 256 without CR/LF when sent through http.server (latin-1 header decoding)',
               'content-length values are below 2^62 in magnitude',
               'supported_encodings lists contain ASCII names']

W_TIMEOUT = 20.0   # watchdog: seconds one guarded call may take (multi-MB bodies included)
_lock = threading.Lock()


# ------------------------------------------------------------------------------------------------ watchdog
class SpinDetected(BaseException):
    """raised by a guard stream when the reader keeps reading at EOF (endless loop)"""


class GuardStream(io.BytesIO):
    """BytesIO that (a) optionally delivers short reads for requests of more than `dribble` >= 2 bytes (the reader's
    read(1) / read(2) calls are served completely, as a BufferedReader does), (b) turns endless polling at EOF into SpinDetected"""
    def __init__(self, data=b'', dribble=0):
        super().__init__(data)
        self.dribble = dribble
        self.eof_reads = 0

    def read(self, n=-1):
        if self.dribble and (n is None or n < 0 or n > self.dribble):
            n = self.dribble
        r = super().read(n)
        if not r and n != 0:
            self.eof_reads += 1
            if self.eof_reads > 256:
                raise SpinDetected
        return r


class Watchdog:
    """runs calls on a worker thread; a call that does not return within the timeout is reported as ('hang',)"""
    def __init__(self):
        self._start()

    def _start(self):
        self.inq, self.outq = queue.Queue(), queue.Queue()
        inq, outq = self.inq, self.outq

        def loop():
            while True:
                job = inq.get()
                if job is None:
                    return
                f, a, k = job
                try:
                    outq.put(('ok', f(*a, **k)))
                except SpinDetected:
                    outq.put(('hang',))
                except BaseException as ex:  # noqa: BLE001
                    outq.put(('exc', ex))
        self.th = threading.Thread(target=loop, daemon=True)
        self.th.start()

    def call(self, f, *a, **k):
        self.inq.put((f, a, k))
        try:
            return self.outq.get(timeout=W_TIMEOUT)
        except queue.Empty:
            self._start()   # the old worker is stuck; leave it behind
            return ('hang',)


WD = Watchdog()


# ------------------------------------------------------------------------------------------------ encodings of driver args
def hx(b):
    return b.hex() if b else '-'


def unhx(s):
    return b'' if s == '-' else bytes.fromhex(s)


def es(s):
    if s is None:
        return '~'
    return ','.join(str(ord(c)) for c in s) if s else '-'


def esl(lst):
    return ';'.join(es(x) for x in lst) if lst else '~'


def ds(tok):
    if tok == '~':
        return None
    return '' if tok == '-' else ''.join(chr(int(x)) for x in tok.split(','))


def dsl(tok):
    return [] if tok == '~' else [ds(x) for x in tok.split(';')]


# ------------------------------------------------------------------------------------------------ library access
class _FormatAndDrop(logging.Handler):
    """formats every record like a real handler would, keeps nothing"""
    records = 0

    def emit(self, record):
        try:
            record.getMessage()
            _FormatAndDrop.records += 1
        except Exception:  # noqa: BLE001   (standard handlers swallow formatting errors of %-style records, too)
            pass


def enable_library_logging():
    """run the library with DEBUG logging enabled: the arguments of log calls (repr of subscriptions, messages, ...) are code that
    runs inside request handling, sdc11073.loghelper.LoggerAdapter formats eagerly once the level is enabled. Output is discarded."""
    logging.disable(logging.NOTSET)
    logging.raiseExceptions = False
    root = logging.getLogger()
    if not any(isinstance(h, _FormatAndDrop) for h in root.handlers):
        for h in root.handlers[:]:
            root.removeHandler(h)
        root.addHandler(_FormatAndDrop(level=logging.DEBUG))
    root.setLevel(logging.DEBUG)
    for name in ('sdc', 'sdc.device', 'sdc.client', 'sdc.device.subscrMgr', 'sdc.schema_resolver'):
        logging.getLogger(name).setLevel(logging.DEBUG)


def real_logger(name='sdc.device.httpsrv'):
    """a LoggerAdapter of the library (formats eagerly) where the code under test expects server.logger / self._log"""
    from sdc11073 import loghelper
    return loghelper.get_logger_adapter(name)


def lib():
    enable_library_logging()
    import sdc11073.definitions_sdc  # noqa: F401
    from sdc11073.httpserver import compression, httpreader, httprequesthandler
    from sdc11073.pysoap import soapclient
    httprequesthandler.DispatchingRequestHandler.log_message = lambda *a, **k: None   # http.server prints rejected request lines to stderr
    return types.SimpleNamespace(comp=compression, rd=httpreader, rh=httprequesthandler, sc=soapclient,
                                 CH=compression.CompressionHandler, HR=httpreader.HTTPReader)


class ToyCodecError(Exception):
    pass


def toy_codec(tag):
    class Toy:
        algorithms = ()

        @staticmethod
        def compress_payload(payload):
            return bytes([tag]) + payload[::-1]

        @staticmethod
        def decompress_payload(payload):
            if payload is None:
                raise TypeError('None')
            if not payload or payload[0] != tag:
                raise ToyCodecError
            return payload[1:][::-1]
    return Toy


def toy_registry(L):
    """handler name -> (tag, toy class); one tag per real handler class"""
    tags, res = {}, {}
    for name, cls in L.CH.handlers.items():
        tag = tags.setdefault(cls, 65 + len(tags))
        res[name] = (tag, toy_codec(tag))
    return res


def toys_installed(L):
    reg = toy_registry(L)
    return mock.patch.dict(L.CH.handlers, {k: v[1] for k, v in reg.items()})


def registry_lines(L):
    lines = [f'window {read_window(L)}', 'resetreg']
    for name, (tag, _) in toy_registry(L).items():
        lines.append(f'handler {es(name)} {tag}')
    lines.append(f'avail {esl(L.CH.available_encodings)}')
    return lines


def read_window(L):
    return inspect.signature(L.HR._read_until).parameters['max_bytes'].default


def err_name(L, ex):
    if isinstance(ex, (zlib.error, ToyCodecError)) or (type(ex) is RuntimeError and _from_codec(ex)):
        return 'CodecError'
    return type(ex).__name__


def _from_codec(ex):
    tb = ex.__traceback__
    while tb is not None:
        if tb.tb_frame.f_code.co_name == 'decompress_payload':
            return True
        tb = tb.tb_next
    return False


# ------------------------------------------------------------------------------------------------ translator
def lean_str(s):
    return '[' + ', '.join(str(ord(c)) for c in s) + ']'


def translate(ctx):
    L = lib()
    names = list(L.CH.handlers.keys())
    classes = [L.CH.handlers[n].__name__ for n in names]
    src = ('import SdcModel.Http\n/-! generated by harness/props/c17.py from CompressionHandler.handlers / available_encodings and '
           'the signature of HTTPReader._read_until -/\nnamespace Sdc.Generated.Codings\n'
           f'def handlerNames : List (List Nat) := [{", ".join(lean_str(n) for n in names)}]\n'
           f'def handlerClasses : List String := [{", ".join(chr(34) + c + chr(34) for c in classes)}]\n'
           f'def available : List (List Nat) := [{", ".join(lean_str(n) for n in L.CH.available_encodings)}]\n'
           f'def headerWindow : Nat := {read_window(L)}\n'
           'end Sdc.Generated.Codings\n')
    core.write_if_changed(core.GENERATED + '/Codings.lean', src)


# ------------------------------------------------------------------------------------------------ implementation adapters
def impl_mk(L, body, n):
    r = WD.call(L.rd.mk_chunks, body, n)
    return r


def impl_dechunk(L, wire, dribble=0):
    st = GuardStream(wire, dribble)
    r = WD.call(L.HR._read_dechunk, st)
    if r[0] == 'ok':
        return f'ok {hx(r[1])} {len(wire) - st.tell()}'
    if r[0] == 'hang':
        return 'HANG'
    return 'err ' + err_name(L, r[1])


def mk_headers(pairs):
    m = http.client.HTTPMessage()
    for k, v in pairs:
        if v is not None:
            m[k] = v
    return m


def cl_token(v):
    if v is None:
        return '~'
    if v == '':
        return '-'
    try:
        return str(int(v))
    except ValueError:
        return 'bad'


def impl_read_request(L, te, cl, ce, sup, wire, dribble=0):
    msg = types.SimpleNamespace(headers=mk_headers([('Transfer-Encoding', te), ('Content-Length', cl), ('Content-Encoding', ce)]),
                                rfile=GuardStream(wire, dribble))
    r = WD.call(L.HR.read_request_body, msg, sup or None) if sup is not None else WD.call(L.HR.read_request_body, msg)
    return canon_body(L, r)


def canon_body(L, r):
    if r[0] == 'ok':
        return 'ok ' + ('none' if r[1] is None else hx(r[1]))
    if r[0] == 'hang':
        return 'HANG'
    return 'err ' + err_name(L, r[1])


class FakeResponse:
    def __init__(self, hdrs, payload):
        self.h = {k.lower(): v for k, v in hdrs if v is not None}
        self.st = GuardStream(payload)

    def getheader(self, name, default=None):
        return self.h.get(name.lower(), default)

    def read(self, n=None):
        return self.st.read(-1 if n is None else n)


def impl_read_response(L, cl, ce, sup, payload):
    resp = FakeResponse([('content-length', cl), ('content-encoding', ce)], payload)
    return canon_body(L, WD.call(L.HR.read_response_body, resp, sup or None))


class CaptureConnection:
    """stands in for SoapClient._http_connection: records the request, answers with an empty 200"""
    def __init__(self):
        self.sent = None

    def request(self, method, path, body=None, headers=None):
        self.sent = (method, path, body, dict(headers))

    def getresponse(self):
        r = FakeResponse([('content-length', '0')], b'')
        r.status, r.reason = 200, 'OK'
        r.getheaders = lambda: []
        return r


def mk_soap_client(L, sup, req_encs, chunk):
    return L.sc.SoapClient('127.0.0.1:1', 1.0, real_logger('sdc.client.soap'), None, mock.MagicMock(), mock.MagicMock(),
                           supported_encodings=sup, request_encodings=req_encs, chunk_size=chunk)


def impl_send(L, sup, req_encs, chunk, xml):
    """headers + body that SoapClient._send_soap_request hands to the connection"""
    cl = mk_soap_client(L, sup, req_encs, chunk)
    cl._http_connection = CaptureConnection()
    r = WD.call(cl._send_soap_request, '/p', xml, 'verif')
    if r[0] == 'hang':
        return 'HANG', None
    if cl._http_connection.sent is None:
        return 'err ' + (err_name(L, r[1]) if r[0] == 'exc' else 'nothing-sent'), None
    _, _, body, h = cl._http_connection.sent
    return canon_msg(h, body), (h, body)


class WireCapture:
    """peer on a localhost socket: keeps the raw bytes of every request it receives, answers an empty 200 (used for clients whose
    HTTP layer cannot be replaced by a recorder: aiohttp decides itself which framing headers go on the wire)"""
    def __init__(self):
        import socket
        self.srv = socket.socket()
        self.srv.bind(('127.0.0.1', 0))
        self.srv.listen(20)
        self.port = self.srv.getsockname()[1]
        self.requests = []
        threading.Thread(target=self._loop, daemon=True).start()

    def _loop(self):
        while True:
            try:
                conn, _ = self.srv.accept()
            except OSError:
                return
            threading.Thread(target=self._serve, args=(conn,), daemon=True).start()

    def _serve(self, conn):
        conn.settimeout(3)
        data = b''
        try:
            while True:
                while b'\r\n\r\n' not in data:
                    d = conn.recv(65536)
                    if not d:
                        return
                    data += d
                head, _, rest = data.partition(b'\r\n\r\n')
                hl = head.lower()
                m = re.search(rb'\r\ncontent-length:[ \t]*(\d+)', hl)
                if b'\r\ntransfer-encoding:' in hl and b'chunked' in hl:
                    while rfc_chunked(rest) is None:     # (a body may contain b'0\\r\\n\\r\\n' as data: only a complete parse ends it)
                        d = conn.recv(65536)
                        if not d:
                            break
                        rest += d
                    body, data = rest, b''
                elif m:
                    n = int(m.group(1))
                    while len(rest) < n:
                        d = conn.recv(65536)
                        if not d:
                            break
                        rest += d
                    body, data = rest[:n], rest[n:]
                else:
                    body, data = rest, b''
                self.requests.append((head, body))
                conn.sendall(b'HTTP/1.1 200 OK\r\nContent-Length: 0\r\n\r\n')
        except OSError:
            pass
        finally:
            conn.close()


_WIRE = None


def wire_capture():
    global _WIRE
    if _WIRE is None:
        _WIRE = WireCapture()
    return _WIRE


def parse_head(head):
    lines = head.decode('latin-1').split('\r\n')
    h = {}
    for ln in lines[1:]:
        k, _, v = ln.partition(':')
        h.setdefault(k.strip().lower(), v.strip())
    return lines[0], h


def framing_problem(h, body):
    """what a strict peer has to say about the framing of a request that was SENT (RFC 7230 3.3.2 / 3.3.3 / 4.1); h: lower-case names"""
    te, cl = h.get('transfer-encoding'), h.get('content-length')
    if te is not None and cl is not None:
        return f'Content-Length ({cl}) is sent together with Transfer-Encoding ({te}): RFC 7230 3.3.2 forbids it'
    if te is not None:
        if te.strip().lower() != 'chunked':
            return f'Transfer-Encoding {te!r}'
        if rfc_chunked(body) is None:
            return 'body is not a chunked-body'
        return None
    if cl is None:
        return 'neither Content-Length nor Transfer-Encoding on a request with body' if body else None
    if not re.fullmatch(r'[0-9]+', cl) or int(cl) != len(body):
        return f'Content-Length {cl!r} for {len(body)} body bytes'
    return None


def impl_send_async(L, sup, req_encs, chunk, xml):
    """what SoapClientAsync.async_post_message_to puts on the wire (real aiohttp session to a capturing localhost peer).
    Returns (canonical message, (header dict, body)) or (error, None)"""
    import asyncio

    from sdc11073.pysoap import soapclient_async
    cap = wire_capture()
    n0 = len(cap.requests)
    cl = soapclient_async.SoapClientAsync(f'127.0.0.1:{cap.port}', 3.0, real_logger('sdc.client.soap'), None, mock.MagicMock(), mock.MagicMock(),
                                         supported_encodings=sup, request_encodings=req_encs, chunk_size=chunk)
    msg = types.SimpleNamespace(p_msg=None, serialize=lambda request_manipulator=None, **k: xml)

    async def go():
        try:
            await cl.async_post_message_to('/p', msg)
        finally:
            await cl.async_close()
    r = WD.call(lambda: asyncio.run(go()))
    if r[0] == 'hang':
        return 'HANG', None
    if len(cap.requests) == n0:
        return 'err ' + (err_name(L, r[1]) if r[0] == 'exc' else 'nothing-sent'), None
    head, body = cap.requests[-1]
    _, h = parse_head(head)
    shown = dict(h)
    if not sup:
        shown.pop('accept-encoding', None)   # not set by the library: aiohttp announces its own default (gzip, deflate) then
    return canon_msg(shown, body), (h, body)


def canon_msg(h, wire):
    h = {k.lower(): v for k, v in h.items()}
    cl = h.get('content-length')
    return (f"ok te={es(h.get('transfer-encoding'))} cl={'~' if cl is None else cl} ce={es(h.get('content-encoding'))} "
            f"ae={es(h.get('accept-encoding'))} {hx(wire)}")


class FakeSock:
    """socket of the real DispatchingRequestHandler: request bytes in, response bytes collected"""
    def __init__(self, data):
        self.inp = GuardStream(data)
        self.out = []

    def makefile(self, mode='rb', bufsize=-1):
        return self.inp if 'r' in mode else self

    def sendall(self, b):
        self.out.append(bytes(b))

    def send(self, b):
        self.out.append(bytes(b))
        return len(b)

    def getpeername(self):
        return ('127.0.0.1', 50000)

    def settimeout(self, t):
        pass

    def setsockopt(self, *a):
        pass


class EchoComponent:
    def __init__(self, reply=None):
        self.received = []
        self.reply = reply

    def do_post(self, headers, path, peer_name, request_bytes):
        self.received.append(request_bytes)
        return 200, 'OK', (request_bytes if self.reply is None else self.reply)

    def do_get(self, headers, path, peer_name):
        return 200, 'OK', (b'<wsdl/>' if self.reply is None else self.reply), 'text/xml; charset=utf-8'


def run_server(L, raw_request, server_sup, server_chunk, component):
    """real DispatchingRequestHandler (http.server parsing, do_POST) on a fake socket; returns the bytes written"""
    disp = types.SimpleNamespace(get_instance=lambda elem: component)
    server = types.SimpleNamespace(dispatcher=disp, supported_encodings=server_sup, chunk_size=server_chunk,
                                   logger=real_logger())
    sock = FakeSock(raw_request)
    L.rh.DispatchingRequestHandler(sock, ('127.0.0.1', 50000), server)
    return b''.join(sock.out)


def split_response(raw):
    head, _, wire = raw.partition(b'\r\n\r\n')
    lines = head.split(b'\r\n')
    status = lines[0].decode('latin-1')
    hdrs = {}
    for ln in lines[1:]:
        k, _, v = ln.decode('latin-1').partition(':')
        hdrs[k.strip().lower()] = v.strip()
    return status, hdrs, wire


def raw_post(headers, body):
    h = b''.join(k.encode('latin-1') + b': ' + v.encode('latin-1') + b'\r\n' for k, v in headers)
    return b'POST /svc HTTP/1.1\r\nHost: verif\r\n' + h + b'\r\n' + body


def impl_respond(L, server_sup, server_chunk, ae, body, method='POST'):
    """response do_POST / do_GET writes for a request with Accept-Encoding `ae` when the component answers `body`"""
    comp = EchoComponent(reply=body)
    hdrs = ([('Content-Length', '0')] if method == 'POST' else []) + ([('Accept-Encoding', ae)] if ae is not None else [])
    raw = raw_post(hdrs, b'')
    if method == 'GET':
        raw = raw.replace(b'POST /svc ', b'GET /svc?wsdl ', 1)
    r = WD.call(run_server, L, raw, server_sup, server_chunk, comp)
    if r[0] == 'hang':
        return 'HANG', None
    if r[0] == 'exc':
        return 'err ' + err_name(L, r[1]), None
    status, h, wire = split_response(r[1])
    if not status.startswith('HTTP/1.1 200'):
        return 'status ' + status, None
    return canon_msg({k: v for k, v in h.items() if k in ('transfer-encoding', 'content-length', 'content-encoding')}, wire), (h, wire)


# ------------------------------------------------------------------------------------------------ independent reference checks
_CHUNK_HDR = re.compile(rb'([0-9A-Fa-f]+)\r\n')


def rfc_chunked(wire):
    """strict RFC 7230 chunked-body (no extensions, no trailers); returns the payload or None"""
    pos, out = 0, []
    while True:
        m = _CHUNK_HDR.match(wire, pos)
        if not m:
            return None
        size = int(m.group(1), 16)
        pos = m.end()
        if size == 0:
            return b''.join(out) if wire[pos:] == b'\r\n' else None
        if wire[pos + size:pos + size + 2] != b'\r\n' or len(wire) < pos + size + 2:
            return None
        out.append(wire[pos:pos + size])
        pos += size + 2


def stdlib_dechunk(wire):
    """the chunked reader of http.client on the same wire bytes"""
    class S:
        def __init__(self, d):
            self.f = io.BytesIO(d)

        def makefile(self, *a, **k):
            return self.f
    r = http.client.HTTPResponse(S(b'HTTP/1.1 200 OK\r\nTransfer-Encoding: chunked\r\n\r\n' + wire))
    r.begin()
    return r.read()


_QNUM = re.compile(r'^[ \t\n\r\x0b\x0c]*[+-]?(\d+(\.\d*)?|\.\d+)[ \t\n\r\x0b\x0c]*$')


def q_in_model_domain(header):
    """True when every weight string of the header is either a plain decimal (<= 15 digits) or rejected by float()"""
    if not header:
        return True
    for x in header.split(','):
        parts = x.split(';')
        if len(parts) < 2:
            continue
        kv = parts[1].split('=')
        if len(kv) < 2:
            continue
        v = kv[1]
        if _QNUM.match(v) and all(ord(c) < 128 for c in v):
            if sum(c.isdigit() for c in v) > 15:
                return False
            continue
        try:
            float(v)
        except ValueError:
            continue
        return False
    return True


_QVAL = re.compile(r'^[ \t]*(\d+(\.\d*)?|\.\d+)[ \t]*$', re.ASCII)


def _element_accepts(parts):
    """one list element `coding[;params]`: does it accept? lenient wherever it is not of the shape  coding [ ";" "q=" number ]"""
    params = parts[1:]
    if not params:
        return True
    if len(params) > 1:
        return True          # extra parameters: not judged
    k, eq, v = params[0].partition('=')
    if k.strip().lower() != 'q' or not eq:
        return True          # not a weight: not judged
    if not _QVAL.match(v):
        return True          # sloppy number: not judged
    return float(v) > 0


def declares_acceptable(header, coding):
    """Independent reading of the statement after RFC 7231 5.3.4: does `header` declare `coding` acceptable with a non-zero
    quality? Elements naming the coding decide; "*" only speaks for codings that are not listed explicitly
    (`gzip;q=0, *` refuses gzip). Never demands more than the statement where an element is sloppy."""
    if not header:
        return False
    elements = [x.split(';') for x in header.split(',')]
    explicit = [p for p in elements if p[0].strip().lower() == coding.lower()]
    if explicit:
        return any(_element_accepts(p) for p in explicit)
    return any(_element_accepts(p) for p in elements if p[0].strip() == '*')


# ------------------------------------------------------------------------------------------------ generators
def gen_body(rng, n):
    kind = rng.randrange(5)
    if kind == 0:
        return rng.randbytes(n)
    if kind == 1:   # framing look-alikes
        parts = [b'0\r\n\r\n', b'\r\n', b'5\r\n', b'ff;x=1\r\n', b'\r', b'\n', b'0', b'a']
        out = b''
        while len(out) < n:
            out += rng.choice(parts)
        return out[:n]
    if kind == 2:
        return (b'<s12:Envelope xmlns:s12="http://www.w3.org/2003/05/soap-envelope"><s12:Body>' + b'x' * n)[:n]
    if kind == 3:
        return bytes([rng.choice([13, 10, 48, 59])]) * n
    return bytes(rng.randrange(256) for _ in range(min(n, 64))) * (n // 64 + 1) if n else b''


def chunk_cases(ctx):
    rng = ctx.subrng('chunks')
    cases = []
    sizes = [1, 2, 3, 7, 15, 16, 17, 255, 256, 257, 512, 4095, 4096, 65535, 65536, 2 ** 20, 2 ** 55, 16 ** 14 - 1]
    for ln in (0, 1, 2, 3, 15, 16, 17, 31, 100):
        for n in (1, 2, 3, 16, 17, 512):
            cases.append((gen_body(rng, ln)[:ln], n))
    for _ in range(ctx.n(250, 3000)):
        n = rng.choice(sizes) if rng.random() < 0.7 else rng.randint(1, 5000)
        ln = rng.choice([0, 1, n - 1, n, n + 1, 2 * n, 2 * n + 1, 3 * n]) if (rng.random() < 0.5 and n < 3000) else rng.randint(0, 3000)
        cases.append((gen_body(rng, max(ln, 0))[:max(ln, 0)], n))
    # long bodies with tiny chunks (many iterations), multi-megabyte bodies with realistic chunks
    for _ in range(ctx.n(2, 12)):
        cases.append((rng.randbytes(rng.randint(8000, 15000)), rng.choice([1, 2, 3])))
    for _ in range(ctx.n(1, 6)):
        cases.append((rng.randbytes(rng.randint(1_000_000, 2_500_000)), rng.choice([512, 4096, 65536, 1 << 20])))
    return cases


def mutate_stream(rng, wire):
    k = rng.randrange(12)
    b = bytearray(wire)
    if k == 0 and b:
        return bytes(b[:rng.randrange(len(b))])                                   # truncation
    if k == 1 and b:
        i = rng.randrange(len(b)); b[i] = rng.randrange(256); return bytes(b)     # byte flip
    if k == 2 and b:
        i = rng.randrange(len(b)); del b[i]; return bytes(b)                      # deletion
    if k == 3:
        i = rng.randrange(len(b) + 1); b[i:i] = rng.choice([b'\r\n', b'\r', b'\n', b';', b' ', b'0', b'-', b'_', b'0x', b'+']); return bytes(b)
    if k == 4:
        return bytes(b) + rng.choice([b'0\r\n\r\n', b'\r\n', b'garbage', b'5\r\nhello\r\n0\r\n\r\n'])   # pipelined data
    if k == 5:   # chunk extension / upper case / leading zeros / white space in the first size line
        i = wire.find(b'\r\n')
        if i > 0:
            ext = rng.choice([b';a=b', b';', b' ', b'\t', b';x;y=z', b' ;q', b'\x0b'])
            return wire[:i] + ext + wire[i:]
    if k == 6:
        i = wire.find(b'\r\n')
        if i > 0:
            pre = rng.choice([b'0', b'00', b'0x', b'0X', b'+', b'-', b' ', b'0x_', b'_', b'000000000000', b'0000000000000'])
            return pre + wire
    if k == 7:
        return wire.upper()
    if k == 8:
        return rng.randbytes(rng.randint(0, 40))
    if k == 9:   # declared size larger / smaller than the data
        i = wire.find(b'\r\n')
        if i > 0:
            return rng.choice([b'ffffffff', b'1', b'7fffffffffffff', b'-1', b'-0', b'1_0', b'g', b'']) + wire[i:]
    if k == 10 and len(b) > 4:
        i = rng.randrange(len(b) - 1)
        if b[i:i + 2] == b'\r\n':
            del b[i:i + 2]
        else:
            b[i:i + 2] = b'\r\n'
        return bytes(b)
    return bytes(b[:-1]) if b else b'\r\n'


INT_ALPHABET = [b'0', b'1', b'9', b'a', b'f', b'F', b'g', b'x', b'X', b'_', b'+', b'-', b' ', b'\t', b'\r', b'\n', b'\x0b', b'\x00',
                b'\x80', b';']


def int_strings(ctx):
    out = [b'']
    for ln in (1, 2, 3):
        out += [b''.join(t) for t in itertools.product(INT_ALPHABET, repeat=ln)]
    small = [b'0', b'f', b'x', b'_', b'-', b' ', b'1']
    out += [b''.join(t) for t in itertools.product(small, repeat=4)]
    if ctx.tier == 'thorough':
        out += [b''.join(t) for t in itertools.product(small, repeat=5)]
        out += [b''.join(t) for t in itertools.product(small + [b'X', b'+'], repeat=6)][::7]
    return out


NAMES = ['gzip', 'x-lz4', 'lz4', 'deflate', 'br', 'identity', '*', '', 'GZIP', 'Gzip', 'compress', 'zstd', 'x-gzip']
QFORMS = ['', ';q=0', ';q=0.0', ';q=0.000', ';q=1', ';q=1.0', ';q=0.5', ';q=.5', ';q=5.', ';q=', ';q', ';q=abc', ';Q=0.3',
          '; q = 0.7 ', ';q=-1', ';q=+0.2', ';q=00.5', ';q=0.001', ';q=0.9', ';q=0.25', ';q=1.000', ';q==1', ';q=0.5=7',
          ' ;\tq=0.8', ';q=-0', ';q=0.', ';q=.0', ';q=2']
QFORMS_ODD = [';q=1e3', ';q=nan', ';q=inf', ';q=1_0', ';q=\xa00.5', ';q=0.5\x1c', ';level=3;q=0', ';q=0;q=1', ';foo=0', ';foo=0.4',
              ';q=1e-400', ';q=0.' + '3' * 20, ';q=٠.٥', ';;q=0']
# RFC 7231 weight = OWS ";" OWS "q=" qvalue, plus the sloppy spellings with blanks around '='; zero and non-zero values
QFORMS_OWS = [a + ';' + b + 'q' + c + '=' + d + v for a in ('', ' ') for b in ('', ' ') for c in ('', ' ') for d in ('', ' ')
              for v in ('0', '0.0', '0.000', '0.5')] + [';\tq\t=\t0', ';q\t=0.0', '; Q = 0', ';q = 0 ', ';q =0.000\t', ';  q  =  0']
OWS = ['', '', '', ' ', '\t', '  ']
ZEROS = ['0', '0.0', '0.000', '0.', '.0', '00', '0.00']
NONZEROS = ['1', '1.0', '0.5', '.5', '0.001', '0.9', '1.000', '0.25']


def gen_weight(rng):
    v = rng.choice(ZEROS) if rng.random() < 0.45 else rng.choice(NONZEROS)
    return (rng.choice(OWS) + ';' + rng.choice(OWS) + rng.choice(['q', 'q', 'q', 'Q']) + rng.choice(OWS) + '=' + rng.choice(OWS) + v +
            rng.choice(OWS))


SEPS = [',', ', ', ' , ', ',\t', ',,', ' ,  ']
SUPPORTED_SETS = [['gzip', 'x-lz4', 'lz4'], ['gzip'], ['x-lz4', 'lz4'], [], ['lz4', 'gzip'], ['GZIP'], ['gzip', 'zstd']]


def gen_header(rng):
    k = rng.randrange(10)
    if k == 0:
        return rng.choice([None, '', ' ', '*', ',', ';', '=', 'gzip', ';q=0', ',gzip', 'gzip,'])
    n = rng.choice([1, 1, 2, 2, 2, 3, 3, 4, 6])
    parts = []
    for _ in range(n):
        name = rng.choice(NAMES[:3]) if rng.random() < 0.6 else rng.choice(NAMES)
        if rng.random() < 0.25:
            name = rng.choice([' ', '\t', '', '\x0b', '\xa0', '  ']) + name + rng.choice([' ', '', '\t', '\x1c', '\x85'])
        q = rng.choice(QFORMS) if rng.random() < 0.85 else rng.choice(QFORMS_ODD)
        r = rng.random()
        if r < 0.3:
            q = gen_weight(rng)
            if rng.random() < 0.15:     # several parameters
                q = rng.choice([';level=3', ';x', '; a = b']) + q if rng.random() < 0.5 else q + rng.choice([';level=3', ';x', '; a = b'])
        elif r < 0.45:
            q = ';q=' + rng.choice(['0.', '', '1.', '0', '1', '.']) + ''.join(rng.choice('0123456789') for _ in range(rng.randrange(4)))
        parts.append(name + q)
    sep = rng.choice(SEPS)
    return sep.join(parts) + (rng.choice(['', ',', ' ']) if rng.random() < 0.1 else '')


# ------------------------------------------------------------------------------------------------ the run
class Batch:
    """collects driver lines with the implementation answer; compared in one driver invocation"""
    def __init__(self, ctx, L):
        self.ctx = ctx
        self.lines = registry_lines(L)
        self.expect = [None] * len(self.lines)
        self.meta = [None] * len(self.lines)

    def add(self, line, impl, what, case):
        self.lines.append(line)
        self.expect.append(impl)
        self.meta.append((what, case))

    def flush(self):
        if not self.ctx.driver_ok:
            return
        out = self.ctx.driver('drv_c17', self.lines)
        for o, e, m in zip(out, self.expect, self.meta):
            if m is None:
                if o != 'ok':
                    self.ctx.disagree('driver setup line rejected', {}, o, 'ok')
                continue
            if o != e:
                self.ctx.disagree(m[0], _short(m[1]), _clip(o), _clip(e))


def _clip(s, n=300):
    return s if len(s) <= n else s[:n] + f'...({len(s)} chars)'


def _short(case):
    return {k: (_clip(v) if isinstance(v, str) else v) for k, v in case.items()}


def check_chunk_case(ctx, L, B, body, n, model=True):
    case = {'kind': 'chunk', 'body': hx(body) if len(body) <= 4096 else None, 'body_len': len(body), 'n': n,
            'body_seed': None}
    r = impl_mk(L, body, n)
    if r[0] != 'ok':
        ctx.fail('mk_chunks:' + ('hang' if r[0] == 'hang' else 'exception'), repr(r[1:]) , case)
        return
    wire = r[1]
    # oracle 1: lossless on the real reader (also with short reads)
    for dribble in (0, 2, 7):
        if dribble and len(wire) > 200_000:
            continue
        got = impl_dechunk(L, wire, dribble)
        if got != f'ok {hx(body)} 0':
            ctx.fail('chunk-roundtrip:' + ('hang' if got == 'HANG' else 'lost' if got.startswith('ok') else 'rejected'),
                     f'_read_dechunk(mk_chunks(body, {n})) -> {_clip(got, 120)} (body of {len(body)} bytes, short reads={dribble})', case)
            break
    # oracle 2: valid HTTP/1.1 framing for two independent readers
    if rfc_chunked(wire) != body:
        ctx.fail('chunk-framing:not-rfc7230', f'mk_chunks(body, {n}) is not a chunked-body carrying the body', case)
    elif len(wire) < 300_000 or n >= 512:
        try:
            ok = stdlib_dechunk(wire) == body
        except Exception as ex:  # noqa: BLE001
            ok = False
        if not ok:
            ctx.fail('chunk-framing:http.client-rejects', f'http.client does not read mk_chunks(body, {n}) back', case)
    ctx.case({'k': 'chunk', 'b': hx(body[:64]), 'len': len(body), 'n': n}, nontrivial=len(body) > 0,
             sample={'mk_chunks': {'body': hx(body[:16]), 'len': len(body), 'n': n, 'wire_head': hx(wire[:24])}} if len(body) in (17, 100) and n == 16 else None)
    ctx.count('chunk:n' + ('=1' if n == 1 else '<16' if n < 16 else '<=512' if n <= 512 else '<=65536' if n <= 65536 else '>65536'))
    ctx.count('chunk:len' + ('=0' if not body else '<n' if len(body) < n else '=k*n' if len(body) % n == 0 else '>n'))
    if model and (len(body) // n) <= 20000:
        B.add(f'mk {n} {hx(body)}', hx(wire), 'mkChunks == mk_chunks', case)
        B.add(f'dechunk {hx(wire)}', f'ok {hx(body)} 0', 'dechunk == _read_dechunk (valid stream)', case)
        B.add(f'wf {hx(wire)}', 'true', 'isChunkedBody(mk_chunks output)', case)
    return wire


def check_stream_case(ctx, L, B, wire, origin=None):
    """arbitrary bytes into _read_dechunk: total (body or DechunkError), no hang, a cut stream is never accepted"""
    case = {'kind': 'stream', 'wire': hx(wire)}
    got = impl_dechunk(L, wire)
    got2 = impl_dechunk(L, wire, dribble=3)
    if got == 'HANG' or got2 == 'HANG':
        ctx.fail('read_dechunk:hang', 'HTTPReader._read_dechunk does not terminate (keeps reading at EOF)', case)
    elif not (got.startswith('ok ') or got == 'err DechunkError'):
        ctx.fail('read_dechunk:unexpected-exception', f'_read_dechunk raised {got[4:]} instead of DechunkError', case)
    elif got != got2:
        ctx.fail('read_dechunk:short-read-dependent', f'result depends on how the stream delivers bytes: {_clip(got, 80)} vs {_clip(got2, 80)}', case)
    if origin is not None and got.startswith('ok '):
        full, body = origin
        if len(wire) < len(full) and full.startswith(wire):
            ctx.fail('read_dechunk:truncated-accepted', f'a stream cut after {len(wire)} of {len(full)} bytes is accepted as a body', case)
    ctx.count('stream:' + got.split(' ')[0] + (':' + got.split(' ')[1] if got.startswith('err') else ''))
    ctx.case({'k': 'stream', 'w': hx(wire)}, nontrivial=len(wire) > 0)
    B.add(f'dechunk {hx(wire)}', got, 'dechunk == _read_dechunk (arbitrary stream)', case)
    B.add(f'wf {hx(wire)}', 'true' if rfc_chunked(wire) is not None else 'false', 'isChunkedBody == independent RFC 7230 recogniser', case)


def check_header_case(ctx, L, B, header, sup):
    case = {'kind': 'accept-encoding', 'header': header, 'supported': sup}
    r = WD.call(L.CH.parse_header, header)
    if r[0] != 'ok':
        ctx.fail('parse_header:' + ('hang' if r[0] == 'hang' else 'exception'), f'parse_header({header!r}) -> {r!r}', case)
        return
    accepted = r[1]
    chosen = next((e for e in accepted if e in sup), None)
    # oracle: a chosen coding is enabled locally and was declared acceptable with q > 0
    if chosen is not None:
        if chosen not in sup:
            ctx.fail('choice:not-enabled', f'{chosen!r} chosen but not enabled', case)
        if not declares_acceptable(header, chosen):
            ctx.fail('choice:q0-coding-chosen', f'coding {chosen!r} is chosen for Accept-Encoding {header!r} which does not declare it with q > 0', case)
    dom = q_in_model_domain(header)
    named = bool(header) and any(n in header for n in ('gzip', 'lz4'))
    ctx.case({'k': 'ae', 'h': header, 's': sup}, nontrivial=named,
             sample={'parse_header': {'header': header, 'result': accepted, 'supported': sup, 'chosen': chosen}} if header and ';q=0' in header and chosen else None)
    ctx.count('ae:' + ('chosen' if chosen else 'none-chosen'))
    if not dom:
        ctx.count('ae:out-of-model-domain')
        return
    if header is not None:
        B.add(f'ae {es(header)}', esl(accepted), 'parseHeader == parse_header', case)
    B.add(f'choose {es(header)} {esl(sup)}', ('ok ' + es(chosen)) if chosen is not None else 'none',
          'choose(parseHeader) == first accepted coding that is enabled', case)


def run(ctx):
    L = lib()
    B = Batch(ctx, L)
    _corpus(ctx, L, B)
    run_chunks(ctx, L, B)
    run_ints(ctx, L, B)
    run_headers(ctx, L, B)
    run_bodies(ctx, L, B)
    run_keepalive(ctx, L, B)
    run_config_histories(ctx, L, B)
    run_notifications(ctx, L, B)
    run_connection_framing(ctx, L)
    run_end_to_end(ctx, L)
    B.flush()


def _corpus(ctx, L, B):
    import glob
    import json
    import os
    for f in sorted(glob.glob(os.path.join(core.VERIF, 'corpus', 'C17', '*.json'))):
        obj = json.load(open(f))
        _run_case(ctx, L, B, obj['case'])
        ctx.count('corpus')


def _run_case(ctx, L, B, case):
    k = case.get('kind')
    if k == 'stream':
        check_stream_case(ctx, L, B, unhx(case['wire']))
    elif k == 'chunk' and (case.get('body') is not None or case.get('fill')):
        body = unhx(case['body']) if case.get('body') is not None else case['fill'].encode() * case['body_len']
        check_chunk_case(ctx, L, B, body, case['n'], model=False)
    elif k == 'accept-encoding':
        check_header_case(ctx, L, B, case['header'], case['supported'])
        if case.get('via') in ('do_POST', 'do_GET'):
            check_respond_case(ctx, L, None, case['supported'], case.get('chunk', 0), case['header'], unhx(case.get('body', '-')) or b'<x/>',
                               method=case['via'][3:])
    elif k == 'request':
        check_request_case(ctx, L, B, case['te'], case['cl'], case['ce'], case['sup'], unhx(case['wire']))
    elif k == 'config-history':
        hosts = config_hosts(L)
        try:
            for host in hosts:
                if host.kind == case['host']:
                    check_config_history(ctx, L, B, host, case['cfg0'], [tuple(o) for o in case['ops']])
        finally:
            for host in hosts:
                try:
                    host.stop()
                except Exception:  # noqa: BLE001
                    pass
    elif k == 'both-framing-headers':
        payload = unhx(case['payload'])
        framed = b'%x\r\n' % len(payload) + payload + b'\r\n0\r\n\r\n'
        both = [('Transfer-Encoding', 'chunked'), ('Content-Length', str(case['content_length']))]
        comp = EchoComponent()
        r = WD.call(run_server, L, raw_post(both if case.get('order') else both[::-1], framed), list(L.CH.available_encodings), 0, comp)
        if r[0] != 'ok' or comp.received != [payload] or len(parse_responses(r[1])) != 1:
            ctx.fail('framing:request-behind-invalid-framing-executed', f'{r[0]}: component received {len(comp.received)} requests', case)
    elif k == 'connection-framing':
        comp = EchoComponent()
        inner = raw_post([('Content-Length', '8')], b'<inner/>')
        r = WD.call(run_server, L, raw_post([tuple(x) for x in case['headers']], unhx(case['prefix']) + inner), list(L.CH.available_encodings),
                    case.get('chunk', 0), comp)
        if r[0] != 'ok' or comp.received or len(parse_responses(r[1])) != 1:
            ctx.fail('framing:request-behind-invalid-framing-executed', f'{r[0]}, component received {len(comp.received)} bodies', case)
    elif k == 'send':
        xml = unhx(case['xml'])
        if case.get('async'):
            _, sent = impl_send_async(L, case['sup'], case['req'], case['chunk'], xml)
            bad = framing_problem(*sent) if sent else None
            if bad:
                ctx.fail('sent-framing:async-client', bad, case)
        else:
            _, sent = impl_send(L, case['sup'], case['req'], case['chunk'], xml)
            bad = framing_problem({k_.lower(): v for k_, v in sent[0].items()}, sent[1]) if sent else None
            if bad:
                ctx.fail('sent-framing:sync-client', bad, case)
    elif k == 'keepalive':
        check_keepalive_sequence(ctx, L, B, [(a, b, unhx(c)) for a, b, c in case['steps']], case['chunk'])
    elif k == 'e2e':
        check_e2e(ctx, L, unhx(case['xml']), case['client_sup'], case['req_encs'], case['client_chunk'], case['server_sup'],
                  case['server_chunk'])


def run_chunks(ctx, L, B):
    rng = ctx.subrng('streams')
    valid = []
    for body, n in chunk_cases(ctx):
        wire = check_chunk_case(ctx, L, B, body, n)
        if wire is not None and len(wire) < 400:
            valid.append((wire, body))
    # every truncation of a few short valid streams (the confirmed hang / AttributeError live here)
    exhaustive = [(b'5\r\nhello\r\n0\r\n\r\n', b'hello'), (b'3\r\nabc\r\n2\r\nde\r\n0\r\n\r\n', b'abcde'), (b'0\r\n\r\n', b'')]
    exhaustive += rng.sample(valid, min(len(valid), ctx.n(6, 40)))
    for wire, body in exhaustive:
        for cut in range(len(wire) + 1):
            check_stream_case(ctx, L, B, wire[:cut], origin=(wire, body))
    for _ in range(ctx.n(1500, 20000)):
        wire, body = rng.choice(valid)
        m = mutate_stream(rng, wire)
        if rng.random() < 0.2:
            m = mutate_stream(rng, m)
        check_stream_case(ctx, L, B, m, origin=(wire, body))
    # header window: chunk-size lines of 13..17 bytes
    for digits in range(1, 18):
        for pad in (b'0', b' '):
            line = pad * (digits - 1) + b'3'
            check_stream_case(ctx, L, B, line + b'\r\nabc\r\n0\r\n\r\n')


def run_ints(ctx, L, B):
    """CPython int(b.strip(), 16) — the transcription in Basic/ChunkHex.lean — and the reader on the same size lines"""
    n = 0
    for s in int_strings(ctx):
        try:
            impl = f'ok {int(s.strip(), 16)}'
        except ValueError:
            impl = 'err'
        B.add(f'int16 {hx(s)}', impl, 'pyIntHex == int(bytes.strip(), 16)', {'kind': 'int16', 's': hx(s)})
        n += 1
        if n % (3 if ctx.tier == 'thorough' else 11) == 0 and b'\r\n' not in s:
            check_stream_case(ctx, L, B, s + b'\r\n' + b'abcdefghijklmnop'[:max(0, int(impl[3:]))] + b'\r\n0\r\n\r\n' if impl.startswith('ok') and 0 <= int(impl[3:]) <= 16
                              else s + b'\r\nabc\r\n0\r\n\r\n')
    ctx.count('int16-strings', n)
    ctx.evaluations += n


def run_headers(ctx, L, B):
    rng = ctx.subrng('headers')
    # exhaustive: every header of one or two elements over the core names x all weight forms
    names = ['gzip', 'x-lz4', 'identity', '*']
    elems = [n + q for n in names for q in QFORMS]
    singles = elems + [n + q for n in ('gzip', 'lz4') for q in QFORMS_ODD] + [n + q for n in ('gzip', 'x-lz4') for q in QFORMS_OWS]
    for h in singles:
        for sup in (SUPPORTED_SETS[0], SUPPORTED_SETS[2]):
            check_header_case(ctx, L, B, h, sup)
    pair_q = (QFORMS if ctx.tier == 'thorough' else QFORMS[:12] + QFORMS[-4:]) + ['; q = 0', ';q =0.0', ';q= 0.000', ' ; q=0', ';q = 0.5']
    for n1, n2 in (('gzip', 'x-lz4'), ('x-lz4', 'gzip'), ('gzip', 'gzip'), ('gzip', 'lz4'), ('*', 'gzip')):
        for q1 in pair_q:
            for q2 in pair_q:
                check_header_case(ctx, L, B, n1 + q1 + ', ' + n2 + q2, SUPPORTED_SETS[0])
    for _ in range(ctx.n(3000, 40000)):
        check_header_case(ctx, L, B, gen_header(rng), rng.choice(SUPPORTED_SETS))
    # wildcard and exclusion: every pair over {gzip, x-lz4, *, identity} x {-, q=0, q=0.5, q=1} through the real handler, POST and GET
    core_elems = [n + q for n in ('gzip', 'x-lz4', '*', 'identity') for q in ('', ';q=0', ';q=0.5', ';q=1', '; q = 0')]
    headers = core_elems + [a + ', ' + b for a in core_elems for b in core_elems]
    stride = 1 if ctx.tier == 'thorough' else 3
    for i, h in enumerate(headers):
        for j, (method, sup) in enumerate((('POST', SUPPORTED_SETS[0]), ('GET', SUPPORTED_SETS[0]), ('POST', SUPPORTED_SETS[4]), ('GET', ['gzip']))):
            if (i + j) % stride == 0 or '*' in h and ';q=0' in h.replace(' ', '').replace('q=0.5', ''):
                check_respond_case(ctx, L, B, sup, 0 if j % 2 else 5, h, b'<answer/>', method=method)
    # the same decision through the real request handler (Content-Encoding it sends, body it writes), real codecs
    for _ in range(ctx.n(300, 3000)):
        h = gen_header(rng)
        if h is not None and any(ord(c) > 255 or c in '\r\n\x00' for c in h):
            continue
        if h is not None and (h != h.strip(' \t') or h == ''):
            continue   # http.server strips optional white space around the field value; an empty field is seen as ''
        check_respond_case(ctx, L, B, rng.choice(SUPPORTED_SETS[:5]), rng.choice([0, 0, 1, 7, 512]), h,
                           gen_body(rng, rng.choice([0, 1, 50, 700])), method=rng.choice(['POST', 'POST', 'GET']))


def check_respond_case(ctx, L, B, server_sup, chunk, ae, body, method='POST'):
    case = {'kind': 'accept-encoding', 'via': 'do_' + method, 'header': ae, 'supported': server_sup, 'chunk': chunk, 'body': hx(body)}
    got, raw = impl_respond(L, server_sup, chunk, ae, body, method)
    if raw is None:
        ctx.fail(f'do_{method}:' + ('hang' if got == 'HANG' else 'no-response'), f'do_{method} with Accept-Encoding {ae!r}: {got}', case)
        return
    h, wire = raw
    ce = h.get('content-encoding')
    if 'transfer-encoding' in h:
        payload = rfc_chunked(wire)
        if payload is None:
            ctx.fail('chunk-framing:not-rfc7230', 'do_POST wrote an invalid chunked body', case)
            return
    else:
        payload = wire
        if h.get('content-length') != str(len(wire)):
            ctx.fail('response:content-length-mismatch', f"Content-Length {h.get('content-length')} for {len(wire)} body bytes", case)
    if ce is not None:
        if ce not in server_sup:
            ctx.fail('choice:not-enabled', f'response coded with {ce!r}, enabled: {server_sup}', case)
        if not declares_acceptable(ae, ce):
            ctx.fail('choice:q0-coding-chosen', f'response coded with {ce!r} for Accept-Encoding {ae!r}', case)
        try:
            payload = L.CH.decompress_payload(ce, payload)
        except Exception as ex:  # noqa: BLE001
            ctx.fail('response:not-decodable', f'{type(ex).__name__}', case)
            return
    if payload != body:
        ctx.fail('response:body-lost', f'decoded response differs from the body the component returned ({len(payload)} vs {len(body)} bytes)', case)
    ctx.case({'k': 'respond', 'h': ae, 's': server_sup, 'c': chunk, 'b': hx(body[:32])}, nontrivial=ce is not None)
    ctx.count(f'do_{method}:' + ('coded:' + ce if ce else 'identity') + (':chunked' if 'transfer-encoding' in h else ''))
    if B is not None and q_in_model_domain(ae):
        with toys_installed(L):
            got_toy, _ = impl_respond(L, server_sup, chunk, ae, body, method)
        B.add(f'respond {esl(server_sup)} {chunk} {es(ae)} {hx(body)}', got_toy, 'respond == do_POST/_compress_if_supported (toy codec)', case)


class _NoClose(io.BytesIO):
    def close(self):
        pass


def parse_responses(out):
    """all HTTP responses a handler wrote on one connection: (status, headers, de-chunked body) each; None = unparsable rest"""
    f = _NoClose(out)
    res = []
    while f.tell() < len(out):
        r = http.client.HTTPResponse(types.SimpleNamespace(makefile=lambda *a, **k: f), method='POST')
        try:
            r.begin()
            body = r.read()
        except Exception:  # noqa: BLE001
            res.append(None)
            break
        res.append((r.status, {k.lower(): v for k, v in r.getheaders()}, body))
    return res


def check_keepalive_sequence(ctx, L, B, steps, chunk):
    """several requests on ONE keep-alive connection (one handler instance): every response must follow the Accept-Encoding of
    its own request and the codings enabled at that time. steps = [(accept_encoding | None, enabled list, reply body)]"""
    case = {'kind': 'keepalive', 'chunk': chunk, 'steps': [[ae, sup, hx(body)] for ae, sup, body in steps]}
    server = types.SimpleNamespace(dispatcher=None, supported_encodings=list(steps[0][1]), chunk_size=chunk, logger=real_logger())
    calls = []

    class Comp:
        def do_post(self, headers, path, peer_name, request_bytes):
            i = len(calls)
            calls.append(request_bytes)
            server.supported_encodings = list(steps[i][1])     # the locally enabled codings change while the connection is open
            return 200, 'OK', steps[i][2]
    server.dispatcher = types.SimpleNamespace(get_instance=lambda elem: Comp())
    raw = b''
    for i, (ae, _, _) in enumerate(steps):
        req = b'<r%d/>' % i
        raw += raw_post([('Content-Length', str(len(req)))] + ([('Accept-Encoding', ae)] if ae is not None else []), req)
    sock = FakeSock(raw)
    r = WD.call(L.rh.DispatchingRequestHandler, sock, ('127.0.0.1', 50000), server)
    ctx.case({'k': 'keepalive', **case}, nontrivial=len(steps) > 1)
    if r[0] != 'ok':
        ctx.fail('do_POST:' + ('hang' if r[0] == 'hang' else 'exception'), f'keep-alive sequence: {r!r:.200}', case)
        return
    resps = parse_responses(b''.join(sock.out))
    if len(resps) != len(steps) or any(x is None for x in resps):
        ctx.fail('keepalive:responses-missing', f'{len(steps)} requests on one connection, {len([x for x in resps if x])} parsable responses', case)
        return
    for i, ((ae, sup, body), (status, h, payload)) in enumerate(zip(steps, resps)):
        ce = h.get('content-encoding')
        ctx.count('keepalive:' + (f'step{min(i, 3)}:' + ('coded' if ce else 'identity')))
        if ce is not None:
            if ce not in sup:
                ctx.fail('choice:not-enabled', f'request {i + 1} on the connection: response coded with {ce!r}, enabled at that time: {sup}', case)
            if not declares_acceptable(ae, ce):
                ctx.fail('choice:q0-coding-chosen', f'request {i + 1} on the connection: response coded with {ce!r} for Accept-Encoding {ae!r}', case)
            try:
                payload = L.CH.decompress_payload(ce, payload)
            except Exception as ex:  # noqa: BLE001
                ctx.fail('response:not-decodable', f'request {i + 1}: {type(ex).__name__}', case)
                continue
        if payload != body:
            ctx.fail('response:body-lost', f'request {i + 1} on the connection: decoded response differs from the component answer', case)
        if q_in_model_domain(ae):
            B.add(f'choose {es(ae)} {esl(sup)}', ('ok ' + es(ce)) if ce is not None else 'none',
                  f'choose(parseHeader h_i) sup_i == Content-Encoding of response i on a keep-alive connection', {**case, 'step': i})


def run_keepalive(ctx, L, B):
    rng = ctx.subrng('keepalive')
    avail = list(L.CH.available_encodings)
    sups = [avail, ['gzip'], [], [a for a in avail if 'lz4' in a], ['lz4', 'gzip']]
    fixed = [
        [('gzip', avail, b'<a/>'), ('gzip;q=0, identity', avail, b'<b/>'), ('identity', avail, b'<c/>'), (None, avail, b'<d/>')],
        [('gzip', avail, b'<a/>'), ('gzip', [], b'<b/>'), ('gzip', ['gzip'], b'<c/>')],
        [(None, avail, b'<a/>'), ('x-lz4', avail, b'<b/>'), ('gzip', avail, b'<c/>'), ('x-lz4;q=0.1, gzip;q=0.9', avail, b'<d/>')],
        [('gzip, x-lz4', ['gzip'], b'<a/>'), ('gzip, x-lz4', [a for a in avail if 'lz4' in a] or ['gzip'], b'<b/>')],
    ]
    for steps in fixed:
        for chunk in (0, 7):
            check_keepalive_sequence(ctx, L, B, steps, chunk)
    for _ in range(ctx.n(150, 1500)):
        steps = []
        for _ in range(rng.choice([2, 2, 3, 4])):
            h = gen_header(rng)
            if h is not None and (any(ord(c) > 255 or c in '\r\n\x00' for c in h) or h != h.strip(' \t') or h == ''):
                h = rng.choice(['gzip', 'identity', 'gzip;q=0', None, 'x-lz4, gzip;q=0.5'])
            steps.append((h, rng.choice(sups), gen_body(rng, rng.choice([0, 5, 200]))))
        check_keepalive_sequence(ctx, L, B, steps, rng.choice([0, 0, 3, 512]))


# ------------------------------------------------------------------------------------------------ notification direction
class _CapConn:
    """stands in for http.client.HTTPConnection below the real SoapClient._send_soap_request of the provider"""
    sock = object()

    def __init__(self, netloc, log):
        self.netloc, self.log = netloc, log

    def request(self, method, path, body=None, headers=None):
        self.log.append({'netloc': self.netloc, 'path': path, 'headers': {k.lower(): v for k, v in headers.items()}, 'body': body})

    def getresponse(self):
        r = FakeResponse([('content-length', '0')], b'')
        r.status, r.reason = 200, 'OK'
        r.getheaders = lambda: []
        return r

    def close(self):
        pass


def _cap_client_class(L, log):
    class CapSoapClient(L.sc.SoapClient):
        def connect(self):
            self._has_connection_error = False
            self._http_connection = _CapConn(self._netloc, log)
            self.sock_name = ('127.0.0.1', 40000)
    return CapSoapClient


class NotifyProvider:
    """a provider whose notifications go through the real SoapClient._send_soap_request into a recorder; no sockets"""
    def __init__(self, L, chunk):
        from sdc11073.dispatch.pathelementregistry import PathElementRegistry
        from sdc11073.provider.providerimpl import provider_components_sync_factory
        from tests.mockstuff import MockWsDiscovery, SomeDevice
        self.L, self.log, self.n = L, [], 0
        pc = provider_components_sync_factory()
        pc.soap_client_class = _cap_client_class(L, self.log)
        repo = os.environ.get('VERIF_REPO', '/repo')
        srv = types.SimpleNamespace(dispatcher=PathElementRegistry(), server_port=50001, base_url='http://127.0.0.1:50001/',
                                    started_evt=threading.Event())
        self.dev = SomeDevice.from_mdib_file(MockWsDiscovery('127.0.0.1'), None, os.path.join(repo, 'tests', '70041_MDIB_Final.xml'),
                                             max_subscription_duration=7200, components=pc, chunk_size=chunk)
        self.dev.start_all(start_rtsample_loop=False, shared_http_server=srv)
        self.subs = {}      # notify path -> (netloc, accept-encoding)

    def subscribe(self, netloc, ae):
        from sdc11073.namespaces import EventingActions
        from sdc11073.xml_types import eventing_types as evt
        from sdc11073.xml_types.addressing_types import HeaderInformationBlock
        dev = self.dev
        self.n += 1
        ident = f'sub{self.n}'
        nsh = dev.mdib.sdc_definitions.data_model.ns_helper
        sr = evt.Subscribe()
        sr.Delivery.Mode = f'{nsh.WSE.namespace}/DeliveryModes/Push'
        sr.Delivery.NotifyTo.Address = f'http://{netloc}/{ident}'
        sr.init_end_to()
        sr.EndTo.Address = f'http://{netloc}/{ident}_end'
        sr.Expires = 3600
        sr.set_filter(dev.mdib.sdc_definitions.Actions.EpisodicMetricReport)
        node = sr.as_etree_node(sr.NODETYPE, nsh.partial_map(nsh.WSE, nsh.MSG, nsh.PM))
        inf = HeaderInformationBlock(action=EventingActions.Subscribe, addr_to=f'http://127.0.0.1:50001/{dev.path_prefix}/StateEvent')
        xml = dev.msg_factory.mk_soap_message_etree_payload(inf, node).serialize()
        h = http.client.HTTPMessage()
        h['Host'] = '127.0.0.1:50001'
        if ae is not None:
            h['Accept-Encoding'] = ae
        r = WD.call(dev._msg_converter.do_post, h, f'/{dev.path_prefix}/StateEvent', ('127.0.0.1', 40000), xml)
        if r[0] == 'ok' and r[1][0] == 200:
            self.subs[f'/{ident}'] = (netloc, ae)
            self.subs[f'/{ident}_end'] = (netloc, ae)
            return True
        return False

    def report(self):
        """commit a metric change: one EpisodicMetricReport to every subscriber"""
        import decimal
        with self.dev.mdib.metric_state_transaction() as tr:
            st = tr.get_state('0x34F00100')
            if st.MetricValue is None:
                st.mk_metric_value()
            st.MetricValue.Value = decimal.Decimal(self.n) + (st.MetricValue.Value or 0)

    def stop(self, send_end=True):
        try:
            self.dev.stop_all(send_subscription_end=send_end)
        except Exception:  # noqa: BLE001
            pass


def check_notifications(ctx, L, B, prov, enabled, since, what):
    """every message the provider sent since `since`: coded only with what that subscriber's Subscribe declared and what is enabled"""
    for m in prov.log[since:]:
        sub = prov.subs.get(m['path'])
        if sub is None:
            continue
        netloc, ae = sub
        h, body = m['headers'], m['body']
        ce = h.get('content-encoding')
        case = {'kind': 'notification', 'what': what, 'accept_encoding_of_subscribe': ae, 'enabled': enabled, 'netloc': netloc,
                'same_netloc': sorted({str(a) for p_, (n_, a) in prov.subs.items() if n_ == netloc}), 'content_encoding': ce}
        ctx.case({'k': 'notif', **case, 'p': m['path']}, nontrivial=ae is not None)
        ctx.count(f'notification:{what}:' + ('coded' if ce else 'identity'))
        bad = framing_problem(h, body)
        if bad:
            ctx.fail('sent-framing:sync-client', f'{what} to a subscriber: {bad}', case)
        if ce is not None:
            if ce not in enabled:
                ctx.fail('choice:not-enabled', f'{what} coded with {ce!r}, enabled: {enabled}', case)
            if not declares_acceptable(ae, ce):
                others = [a for p_, (n_, a) in prov.subs.items() if n_ == netloc and a != ae and declares_acceptable(a, ce)]
                if others:
                    ctx.fail('notification:coding-of-other-subscription-of-same-netloc', f'{what} coded with {ce!r}: this subscription declared '
                             f'{ae!r}, another subscription of the same netloc declared {others[0]!r} (soap client pool is keyed by netloc)', case)
                else:
                    ctx.fail('notification:coding-not-declared', f'{what} is sent with Content-Encoding {ce!r} to a subscriber whose Subscribe '
                             f'request had Accept-Encoding {ae!r}', case)
        payload = rfc_chunked(body) if 'transfer-encoding' in h else body
        try:
            if ce is not None and payload is not None:
                payload = L.CH.decompress_payload(ce, payload)
        except Exception as ex:  # noqa: BLE001
            ctx.fail('response:not-decodable', f'{what}: {type(ex).__name__}', case)
            continue
        if payload is None or b'Envelope' not in payload:
            ctx.fail('response:body-lost', f'{what}: decoded body is not the message', case)
        if q_in_model_domain(ae) and len({str(a) for p_, (n_, a) in prov.subs.items() if n_ == netloc}) == 1:
            B.add(f'choose {es(ae)} {esl(enabled)}', ('ok ' + es(ce)) if ce is not None else 'none',
                  'choose(parseHeader(Accept-Encoding of the Subscribe request)) enabled == Content-Encoding of the notification', case)


NOTIFY_AES = [None, 'gzip', 'x-lz4', 'identity', 'gzip;q=0', 'gzip;q=0, *', 'x-lz4, gzip;q=0.5', 'lz4;q=0.2, gzip;q=0.9', '*', 'gzip; q = 0, x-lz4',
              'br, deflate', 'gzip;q=0.0, x-lz4;q=0.000', 'x-lz4;q=0, gzip']


def run_notifications(ctx, L, B):
    rng = ctx.subrng('notify')
    avail = list(L.CH.available_encodings)
    sups = [avail, ['gzip'], [a for a in avail if 'lz4' in a], [], ['lz4', 'gzip']]
    port = [6000]
    for chunk in ((0, 512) if ctx.tier == 'quick' else (0, 7, 512, 0)):
        prov = NotifyProvider(L, chunk)
        try:
            for _ in range(ctx.n(5, 25)):
                enabled = rng.choice(sups)
                prov.dev.set_used_compression(*enabled)
                for _ in range(rng.randint(1, 3)):
                    port[0] += 1
                    ae = rng.choice(NOTIFY_AES) if rng.random() < 0.8 else gen_header(rng)
                    if ae is not None and (any(ord(c) > 255 or c in '\r\n\x00' for c in ae) or ae != ae.strip(' \t') or ae == ''):
                        ae = rng.choice(NOTIFY_AES)
                    for _ in range(rng.choice([1, 1, 2])):      # one peer = one netloc = one header on all its requests
                        prov.subscribe(f'127.0.0.1:{port[0]}', ae)
                since = len(prov.log)
                prov.report()
                check_notifications(ctx, L, B, prov, enabled, since, 'EpisodicMetricReport')
                if rng.random() < 0.4:      # the operator changes the enabled codings while subscriptions exist
                    enabled = rng.choice(sups)
                    prov.dev.set_used_compression(*enabled)
                    since = len(prov.log)
                    prov.report()
                    check_notifications(ctx, L, B, prov, enabled, since, 'EpisodicMetricReport')
            since = len(prov.log)
            prov.stop(send_end=True)
            check_notifications(ctx, L, B, prov, enabled, since, 'SubscriptionEnd')
        finally:
            prov.stop(send_end=False)
    # two subscriptions of ONE netloc with different Accept-Encoding headers: the second one gets the soap client of the first
    prov = NotifyProvider(L, 0)
    try:
        prov.dev.set_used_compression(*avail)
        prov.subscribe('127.0.0.1:5999', 'gzip')
        prov.report()       # the soap client for the netloc is created with the first delivery: with what 'gzip' declared
        prov.subscribe('127.0.0.1:5999', 'identity')
        since = len(prov.log)
        prov.report()
        check_notifications(ctx, L, B, prov, avail, since, 'EpisodicMetricReport')
    finally:
        prov.stop(send_end=False)


# ------------------------------------------------------------------------------------------------ framing on a persistent connection
def run_connection_framing(ctx, L):
    """the peer reads exactly the message: a request whose body cannot be read (invalid / negative / empty Content-Length and a coded
    body without length are detected BEFORE a body byte is consumed) must end the connection - the bytes behind it, here a complete
    valid request, are not a further request. Real handler, real reader; plus the injected version shared with C13 (serveConn)."""
    inner_body = b'<inner-request/>'
    inner = raw_post([('Content-Type', 'application/soap+xml'), ('Content-Length', str(len(inner_body)))], inner_body)
    outers = [([('Content-Length', v)], b'') for v in ('abc', '-5', '-1', '', '1e3', '5, 6', '0x10', '1.0', '--1', 'NaN')]
    outers += [([('Content-Encoding', 'gzip')], b''), ([('Content-Encoding', 'x-lz4')], b''),
               ([('Content-Encoding', 'br'), ('Content-Length', '0')], b''),
               ([('Transfer-Encoding', 'chunked')], b'zz\r\n'), ([('Transfer-Encoding', 'chunked')], b'-1\r\n'),
               ([('Transfer-Encoding', 'chunked')], b'5;x\r\nab'), ([('Transfer-Encoding', 'chunked')], b'\r\n')]
    for hdrs, prefix in outers:
        for chunk in (0, 7):
            comp = EchoComponent()
            raw = raw_post(hdrs, prefix + inner)
            case = {'kind': 'connection-framing', 'headers': [list(x) for x in hdrs], 'prefix': hx(prefix), 'chunk': chunk}
            r = WD.call(run_server, L, raw, list(L.CH.available_encodings), chunk, comp)
            ctx.case({'k': 'connframing', **case}, nontrivial=True)
            if r[0] != 'ok':
                ctx.fail('do_POST:' + ('hang' if r[0] == 'hang' else 'exception'), f'{hdrs}: {r!r:.160}', case)
                continue
            resps = parse_responses(r[1])
            codes = [x[0] if x else None for x in resps]
            ctx.count('connection-framing:' + '+'.join(map(str, codes)))
            if comp.received or len(resps) != 1 or (resps[0] is not None and resps[0][0] == 200):
                ctx.fail('framing:request-behind-invalid-framing-executed', f'request with {hdrs} (unreadable body) followed by the bytes of a '
                         f'complete request: answers {codes}, component received {[len(x) if x is not None else None for x in comp.received]} - '
                         'the unread bytes were taken for a further request', case)
    # both framing headers: Transfer-Encoding wins (RFC 7230 3.3.3) - the peer's message is the chunked payload, all of it, and nothing
    # of it is left in the stream as a "next request"; the chunk data is itself a complete request
    for payload in (inner, b'<soap/>', inner * 2):
        size_line = b'%x\r\n' % len(payload)
        framed = size_line + payload + b'\r\n0\r\n\r\n'
        for cl in (len(size_line), len(size_line) - 2, len(payload), len(framed), 0, 1):
            for order in (0, 1):
                both = [('Transfer-Encoding', 'chunked'), ('Content-Length', str(cl))]
                hdrs = both if order else both[::-1]
                comp = EchoComponent()
                case = {'kind': 'both-framing-headers', 'content_length': cl, 'payload': hx(payload), 'order': order}
                r = WD.call(run_server, L, raw_post(hdrs, framed), list(L.CH.available_encodings), 0, comp)
                ctx.case({'k': 'bothframing', **case}, nontrivial=True)
                if r[0] != 'ok':
                    ctx.fail('do_POST:' + ('hang' if r[0] == 'hang' else 'exception'), f'{hdrs}: {r!r:.160}', case)
                    continue
                resps = parse_responses(r[1])
                ctx.count('both-framing-headers:' + '+'.join(str(x[0]) if x else 'None' for x in resps))
                if comp.received != [payload] or len(resps) != 1:
                    ctx.fail('framing:request-behind-invalid-framing-executed', f'Transfer-Encoding: chunked together with Content-Length: {cl}: the '
                             f'component received {[len(x) if x is not None else None for x in comp.received]} bytes in {len(comp.received)} '
                             f'requests ({len(resps)} answers) instead of the one chunked payload of {len(payload)} bytes', case)
    from props import c13
    B13 = c13.Batch(ctx)
    c13.injection_conn(ctx, L, B13, c13.exception_classes())
    B13.flush()


# ------------------------------------------------------------------------------------------------ configuration histories
class ConfigHost:
    """a running http server of the library together with the public way to change the enabled codings"""
    def __init__(self, kind, server, path, set_used, stop):
        self.kind, self.server, self.path, self.set_used, self.stop = kind, server, path, set_used, stop


def config_hosts(L):
    """provider and consumer with their own (real, localhost-bound) http servers, and a bare HttpServerThreadBase"""
    from sdc11073.consumer.consumerimpl import SdcConsumer
    from sdc11073.httpserver.httpserverimpl import HttpServerThreadBase
    from tests.mockstuff import MockWsDiscovery, SomeDevice
    repo = os.environ.get('VERIF_REPO', '/repo')
    hosts = []
    dev = SomeDevice.from_mdib_file(MockWsDiscovery('127.0.0.1'), None, os.path.join(repo, 'tests', '70041_MDIB_Final.xml'))
    dev.start_all(start_rtsample_loop=False)
    hosts.append(ConfigHost('provider', dev._http_server.httpd, f'/{dev.path_prefix}/Get', lambda names: dev.set_used_compression(*names),
                            dev.stop_all))
    cons = SdcConsumer('http://127.0.0.1:9/none', sdc_definitions=dev.mdib.sdc_definitions, ssl_context_container=None)
    cons.consumer_ip_address = '127.0.0.1'
    cons._start_event_sink(None)
    hosts.append(ConfigHost('consumer', cons._http_server.httpd, f'/{cons.path_prefix}/subscr', lambda names: cons.set_used_compression(*names),
                            cons._stop_event_sink))
    live = list(L.CH.available_encodings)
    thr = HttpServerThreadBase('127.0.0.1', None, live, logger=mock.MagicMock(), chunk_size=3)
    thr.start()
    thr.started_evt.wait(10)
    thr.dispatcher.register_instance('svc', EchoComponent(reply=b'<answer/>'))

    def set_live(names):
        del live[:]
        live.extend(names)
    hosts.append(ConfigHost('http-server-thread', thr.httpd, '/svc/x', set_live, thr.stop))
    return hosts


def check_config_history(ctx, L, B, host, cfg0, ops):
    """ops = [('set', [names]) | ('req', accept_encoding)] applied to a RUNNING server: every response must follow the codings enabled
    at that time (set_used_compression after start) and the Accept-Encoding of its request"""
    case = {'kind': 'config-history', 'host': host.kind, 'cfg0': cfg0, 'ops': [list(o) for o in ops]}
    host.set_used(cfg0)
    cfg, got, line = list(cfg0), [], []
    body = b'<x/>'
    for op, arg in ops:
        if op == 'set':
            host.set_used(arg)
            cfg = list(arg)
            line.append('s:' + esl(arg))
            continue
        raw = raw_post([('Content-Type', 'application/soap+xml; charset=utf-8'), ('Content-Length', str(len(body)))] +
                       ([('Accept-Encoding', arg)] if arg is not None else []), body).replace(b'POST /svc ', f'POST {host.path} '.encode(), 1)
        sock = FakeSock(raw)
        r = WD.call(L.rh.DispatchingRequestHandler, sock, ('127.0.0.1', 50000), host.server)
        resps = parse_responses(b''.join(sock.out)) if r[0] == 'ok' else []
        if not resps or resps[0] is None:
            ctx.fail('do_POST:' + ('hang' if r[0] == 'hang' else 'no-response'), f'{host.kind}: {r!r:.160}', case)
            return
        status, h, payload = resps[0]
        ce = h.get('content-encoding')
        got.append(es(ce) if ce is not None else 'none')
        line.append('r:' + es(arg))
        ctx.count(f'config-history:{host.kind}:' + ('coded' if ce else 'identity'))
        if ce is not None:
            if ce not in cfg:
                ctx.fail('choice:not-enabled', f'{host.kind}: enabled codings are {cfg} (set while the server is running), the response to '
                         f'Accept-Encoding {arg!r} is coded with {ce!r}', case)
            if not declares_acceptable(arg, ce):
                ctx.fail('choice:q0-coding-chosen', f'{host.kind}: response coded with {ce!r} for Accept-Encoding {arg!r}', case)
            try:
                L.CH.decompress_payload(ce, payload)
            except Exception as ex:  # noqa: BLE001
                ctx.fail('response:not-decodable', f'{host.kind}: {type(ex).__name__}', case)
    ctx.case({'k': 'cfg', **case}, nontrivial=any(o == 'set' for o, _ in ops))
    B.add(f'hist {esl(cfg0)} ' + ' '.join(line), ' '.join(got), 'cfgRun == Content-Encoding of the responses of a running server whose enabled '
          'codings are changed with set_used_compression', case)


def run_config_histories(ctx, L, B):
    rng = ctx.subrng('config')
    avail = list(L.CH.available_encodings)
    lz = [a for a in avail if 'lz4' in a]
    sups = [avail, ['gzip'], [], lz, ['lz4', 'gzip'], ['gzip'], []]
    aes = ['x-lz4, gzip;q=0.5', 'gzip', 'x-lz4', 'lz4;q=1.0, x-lz4;q=0.9, gzip;q=0.1', '*', 'gzip;q=0, x-lz4', None, 'identity',
           'gzip , lz4 ; q = 0.2']
    hosts = config_hosts(L)
    try:
        for host in hosts:
            # the history of the operator: everything enabled, then only gzip, then nothing, then everything again
            fixed = [('req', aes[0]), ('set', ['gzip']), ('req', aes[0]), ('req', 'x-lz4'), ('req', aes[3]), ('set', []), ('req', 'gzip'),
                     ('req', aes[0]), ('req', '*'), ('set', avail), ('req', aes[0]), ('req', 'gzip')]
            check_config_history(ctx, L, B, host, avail, fixed)
            for _ in range(ctx.n(12, 120)):
                ops = []
                for _ in range(rng.randint(3, 9)):
                    if rng.random() < 0.35:
                        ops.append(('set', rng.choice(sups)))
                    else:
                        h = rng.choice(aes) if rng.random() < 0.6 else gen_header(rng)
                        if h is not None and (not q_in_model_domain(h) or any(ord(c) > 255 or c in '\r\n\x00' for c in h)
                                              or h != h.strip(' \t') or h == ''):
                            h = rng.choice(aes)
                        ops.append(('req', h))
                check_config_history(ctx, L, B, host, rng.choice(sups), ops)
    finally:
        for host in hosts:
            try:
                host.stop()
            except Exception:  # noqa: BLE001
                pass


TE_VALUES = [None, 'chunked', 'Chunked', 'CHUNKED', ' chunked', 'chunked ', 'gzip, chunked', 'identity', '', 'chunke']
CE_VALUES = [None, 'gzip', 'x-lz4', 'lz4', '', 'GZIP', 'Gzip', 'deflate', 'br', 'gzip ', 'identity', 'zstd']
SUP_READ = [None, [], ['gzip'], ['x-lz4', 'lz4'], ['gzip', 'x-lz4', 'lz4'], ['GZIP'], ['zstd'], ['Gzip', 'gzip']]


def check_request_case(ctx, L, B, te, cl, ce, sup, wire, response_too=True):
    case = {'kind': 'request', 'te': te, 'cl': cl, 'ce': ce, 'sup': sup, 'wire': hx(wire)}
    with toys_installed(L):
        got = impl_read_request(L, te, cl, ce, sup, wire)
        got_d = impl_read_request(L, te, cl, ce, sup, wire, dribble=2) if (te or '').lower() == 'chunked' else got
        got_r = impl_read_response(L, cl, ce, sup, wire) if response_too else None
    if 'HANG' in (got, got_d):
        ctx.fail('read_request_body:hang', 'read_request_body does not terminate', case)
    ctx.count('request:' + ' '.join(got.split(' ')[:2 if got.startswith('err') else 1]))
    ctx.case({'k': 'req', **case}, nontrivial=len(wire) > 0)
    supa = [] if sup is None else sup
    B.add(f'req {es(te)} {cl_token(cl)} {es(ce)} {esl(supa)} {hx(wire)}', got, 'readRequestBody == read_request_body (toy codec)', case)
    if got_d != got:
        ctx.fail('read_request_body:short-read-dependent', f'{_clip(got, 80)} vs {_clip(got_d, 80)}', case)
    if response_too:
        B.add(f'resp {cl_token(cl)} {es(ce)} {esl(supa)} {hx(wire)}', got_r, 'readResponseBody == read_response_body (toy codec)', case)


def run_bodies(ctx, L, B):
    """read_request_body / read_response_body on consistent and inconsistent (headers, wire) pairs"""
    rng = ctx.subrng('bodies')
    toys = toy_registry(L)
    for _ in range(ctx.n(1200, 15000)):
        body = gen_body(rng, rng.choice([0, 1, 5, 40, 300]))
        ce = rng.choice(CE_VALUES)
        payload = body
        if ce and ce.lower().strip() in toys and rng.random() < 0.8:
            payload = toys[ce.lower().strip()][1].compress_payload(body)
            if rng.random() < 0.15:   # corrupt coding: wrong codec / cut / damaged tag
                payload = rng.choice([payload[1:], b'', bytes([payload[0] ^ 1]) + payload[1:], body])
        te = rng.choice(TE_VALUES) if rng.random() < 0.5 else rng.choice([None, 'chunked'])
        if te and te.lower() == 'chunked':
            wire = L.rd.mk_chunks(payload, rng.choice([1, 3, 16, 512]))
            if rng.random() < 0.15:
                wire = mutate_stream(rng, wire)
            cl = rng.choice([None, None, str(len(wire)), '0'])
        else:
            wire = payload
            cl = rng.choice([str(len(wire))] * 6 + [None, '', '0', str(len(wire) + 5), str(max(0, len(wire) - 1)), '-1', ' 7 ', 'abc', '1_0',
                                                   '+3', '0x10', '1.0', '٣'])
        sup = rng.choice(SUP_READ)
        check_request_case(ctx, L, B, te, cl, ce, sup, wire)
    # SoapClient._send_soap_request: headers and wire it produces, then the server side reader on exactly that
    for _ in range(ctx.n(400, 5000)):
        xml = gen_body(rng, rng.choice([0, 1, 20, 200, 2000]))
        sup = rng.choice([['gzip', 'x-lz4', 'lz4'], ['gzip'], [], ['lz4'], ['x-lz4', 'lz4'], ['GZIP'], ['zstd', 'gzip']])
        req = rng.choice([[], ['gzip'], ['x-lz4', 'gzip'], ['lz4'], ['br', 'gzip'], ['zstd'], ['GZIP'], ['x-lz4'], ['', 'gzip']])
        chunk = rng.choice([0, 0, 1, 2, 16, 512, 100000])
        case = {'kind': 'send', 'xml': hx(xml), 'sup': sup, 'req': req, 'chunk': chunk}
        with toys_installed(L):
            got, sent = impl_send(L, sup, req, chunk, xml)
        if got == 'HANG':
            ctx.fail('send_soap_request:hang', '', case)
        B.add(f'send {esl(sup)} {esl(req)} {chunk} {hx(xml)}', got, 'sendRequest == SoapClient._send_soap_request (toy codec)', case)
        if xml[:40].lower().find(b'utf-8') >= 0 or rng.random() < 0.3:
            xml_a = xml if b'utf-8' in xml[:100].lower() else b"<?xml version='1.0' encoding='UTF-8'?>" + xml
            with toys_installed(L):
                got_a, sent_a = impl_send_async(L, sup, req, chunk, xml_a)
            if sent_a is not None:
                bad = framing_problem(*sent_a)
                if bad:
                    ctx.fail('sent-framing:async-client', f'SoapClientAsync (chunk_size={chunk}): {bad}', {**case, 'xml': hx(xml_a), 'async': True})
            B.add(f'send {esl(sup)} {esl(req)} {chunk} {hx(xml_a)}', got_a, 'sendRequest == SoapClientAsync.async_post_message_to (toy codec)',
                  {**case, 'async': True})
            ctx.count('send-async')
        ctx.case({'k': 'send', **case}, nontrivial=len(xml) > 0)
        ctx.count('send:' + ('err' if sent is None else 'coded' if 'Content-Encoding' in sent[0] else 'identity'))
        if sent is not None:
            h, wire = sent
            bad = framing_problem({k.lower(): v for k, v in h.items()}, wire)
            if bad:
                ctx.fail('sent-framing:sync-client', f'SoapClient._send_soap_request (chunk_size={chunk}): {bad}', case)
            check_request_case(ctx, L, B, h.get('transfer-encoding'), h.get('Content-Length'), h.get('Content-Encoding'),
                               rng.choice(SUP_READ), wire, response_too=False)


# ------------------------------------------------------------------------------------------------ end to end, real codecs
class LoopSock:
    """client side socket: what http.client sends is handed to the real request handler, its output is read back"""
    def __init__(self, serve):
        self.serve = serve
        self.buf = []

    def sendall(self, b):
        self.buf.append(bytes(b))

    def makefile(self, *a, **k):
        return GuardStream(self.serve(b''.join(self.buf)))

    def close(self):
        pass

    def settimeout(self, t):
        pass


def check_e2e(ctx, L, xml, client_sup, req_encs, client_chunk, server_sup, server_chunk):
    case = {'kind': 'e2e', 'xml': hx(xml) if len(xml) <= 4096 else None, 'xml_len': len(xml), 'client_sup': client_sup,
            'req_encs': req_encs, 'client_chunk': client_chunk, 'server_sup': server_sup, 'server_chunk': server_chunk}
    comp = EchoComponent()
    seen = {}

    def serve(raw):
        seen['request'] = raw
        seen['response'] = run_server(L, raw, server_sup, server_chunk, comp)
        return seen['response']
    cl = mk_soap_client(L, client_sup, req_encs, client_chunk)
    conn = http.client.HTTPConnection('verif.invalid')
    conn.sock = LoopSock(serve)
    cl._http_connection = conn
    r = WD.call(cl._send_soap_request, '/svc', xml, 'verif')
    ctx.case({'k': 'e2e', **{k: v for k, v in case.items() if k != 'xml'}, 'x': hx(xml[:32])}, nontrivial=len(xml) > 0)
    if r[0] == 'hang':
        ctx.fail('e2e:hang', 'request/response exchange does not terminate', case)
        return
    req_head = seen.get('request', b'').partition(b'\r\n\r\n')[0].decode('latin-1').lower()
    if seen.get('request'):
        # what http.client put on the wire for the soap client, judged like a strict peer would
        bad = framing_problem(parse_head(seen['request'].partition(b'\r\n\r\n')[0])[1], seen['request'].partition(b'\r\n\r\n')[2])
        if bad:
            ctx.fail('sent-framing:sync-client', f'request on the wire (chunk_size={client_chunk}): {bad}', case)
    m = re.search(r'content-encoding: *([^\r\n]*)', req_head)
    req_ce = m.group(1) if m else None
    if req_ce is not None and (req_ce not in client_sup or req_ce not in req_encs):
        ctx.fail('choice:not-enabled', f'request coded with {req_ce!r}; enabled {client_sup}, accepted by peer {req_encs}', case)
    # the peer rejects a coding it has not enabled: then no body may reach the component at all
    rejected = req_ce is not None and req_ce not in (L.CH.available_encodings)
    if r[0] == 'exc':
        ctx.count('e2e:exception:' + type(r[1]).__name__)
        if comp.received and comp.received[0] != xml:
            ctx.fail('request:body-misinterpreted', f'component received {len(comp.received[0])} bytes that are not the request', case)
        if not rejected and not isinstance(r[1], (L.comp.CompressionError,)):
            ctx.fail('e2e:exchange-failed', f'{type(r[1]).__name__}: {str(r[1])[:200]}', case)
        return
    _, content = r[1]
    if comp.received != [xml]:
        ctx.fail('request:body-lost', f'component received {[len(x) for x in comp.received]} bytes, sent {len(xml)}', case)
    if content != xml:
        ctx.fail('response:body-lost', f'client decoded {len(content)} bytes, component answered {len(xml)}', case)
    status, h, wire = split_response(seen['response'])
    ce = h.get('content-encoding')
    m = re.search(r'accept-encoding: *([^\r\n]*)', req_head)
    ae = m.group(1) if m else None
    if ce is not None and (ce not in server_sup or not declares_acceptable(ae, ce)):
        ctx.fail('choice:not-enabled' if ce not in server_sup else 'choice:q0-coding-chosen',
                 f'response coded with {ce!r}; enabled {server_sup}; Accept-Encoding {ae!r}', case)
    for name, hd, w in (('request', req_head, seen['request'].partition(b'\r\n\r\n')[2]), ('response', str(h), wire)):
        if 'chunked' in hd and rfc_chunked(w) is None:
            ctx.fail('chunk-framing:not-rfc7230', f'{name} body is not a valid chunked-body', case)
    ctx.count(f"e2e:req={req_ce or 'identity'}{'+chunked' if client_chunk else ''}:resp={ce or 'identity'}{'+chunked' if server_chunk else ''}")


def corrupt_cases(ctx, L):
    """unsupported or corrupt coding is rejected (real codecs): never a body"""
    rng = ctx.subrng('corrupt')
    for _ in range(ctx.n(150, 1500)):
        body = gen_body(rng, rng.choice([1, 30, 500, 5000]))
        alg = rng.choice(L.CH.available_encodings)
        good = L.CH.compress_payload(alg, body)
        kind = rng.choice(['cut', 'magic', 'other-codec', 'plain', 'unsupported-name'])
        ce, payload = alg, good
        if kind == 'cut':
            payload = good[:rng.randrange(len(good))]
        elif kind == 'magic':
            payload = bytes([good[0] ^ 0xff]) + good[1:]
        elif kind == 'other-codec':
            other = [a for a in L.CH.available_encodings if L.CH.handlers[a] is not L.CH.handlers[alg]]
            if not other:
                continue
            payload = L.CH.compress_payload(rng.choice(other), body)
        elif kind == 'plain':
            payload = body
        else:
            ce = rng.choice(['deflate', 'br', 'zstd', 'GZIP', 'gzip ', 'x-gzip'])
        chunk = rng.choice([0, 1, 16, 512])
        wire = L.rd.mk_chunks(payload, chunk) if chunk else payload
        case = {'kind': 'corrupt', 'how': kind, 'ce': ce, 'chunk': chunk, 'wire': hx(wire), 'body': hx(body)}
        got = impl_read_request(L, 'chunked' if chunk else None, None if chunk else str(len(wire)), ce, None, wire)
        ctx.case({'k': 'corrupt', 'how': kind, 'ce': ce, 'w': hx(wire[:48]), 'n': len(wire)})
        ctx.count('corrupt:' + kind + ':' + got.split(' ')[0] + (':' + got.split(' ')[1] if got.startswith('err') else ''))
        if got == 'HANG':
            ctx.fail('read_request_body:hang', '', case)
        elif got.startswith('ok'):
            if got == 'ok ' + hx(body) and kind == 'plain' and False:
                pass
            ctx.fail('coding:corrupt-accepted' if kind != 'unsupported-name' else 'coding:unsupported-accepted',
                     f'{kind}: read_request_body returns a body for Content-Encoding {ce!r}', case)


def run_end_to_end(ctx, L):
    rng = ctx.subrng('e2e')
    avail = list(L.CH.available_encodings)
    sup_sets = [avail, ['gzip'], [], [a for a in avail if 'lz4' in a], ['lz4', 'gzip']]
    # every coding x chunked / not, both directions
    for alg in avail + [None]:
        for cchunk in (0, 1, 512):
            for schunk in (0, 3, 512):
                xml = gen_body(rng, rng.choice([0, 1, 100, 3000]))
                check_e2e(ctx, L, xml, avail, [alg] if alg else [], cchunk, avail if alg else [], schunk)
    for _ in range(ctx.n(250, 3000)):
        xml = gen_body(rng, rng.choice([0, 1, 10, 100, 1000, 20000]))
        check_e2e(ctx, L, xml, rng.choice(sup_sets), rng.choice([[], ['gzip'], ['x-lz4'], ['lz4', 'gzip'], ['br', 'lz4'], ['zstd']]),
                  rng.choice([0, 0, 1, 2, 17, 512, 4096]), rng.choice(sup_sets), rng.choice([0, 0, 1, 5, 512, 65536]))
    for _ in range(ctx.n(1, 4)):   # multi-megabyte
        xml = rng.randbytes(rng.randint(1_000_000, 3_000_000))
        check_e2e(ctx, L, xml, avail, [rng.choice(avail)], rng.choice([512, 65536]), avail, rng.choice([512, 4096]))
    corrupt_cases(ctx, L)


# ------------------------------------------------------------------------------------------------ search / replay
def search(ctx):
    """deeper failing-input search when a proof obligation or the correspondence broke: bigger budgets, no model"""
    L = lib()
    ctx.driver_ok = False
    B = Batch(ctx, L)
    saved = ctx.tier
    ctx.tier = 'thorough'
    try:
        run_chunks(ctx, L, B)
        if not ctx.failures:
            run_headers(ctx, L, B)
        if not ctx.failures:
            run_keepalive(ctx, L, B)
        if not ctx.failures:
            run_config_histories(ctx, L, B)
        if not ctx.failures:
            run_notifications(ctx, L, B)
        if not ctx.failures:
            run_connection_framing(ctx, L)
        if not ctx.failures:
            run_end_to_end(ctx, L)
        if not ctx.failures:
            registry_oracle(ctx, L)
    finally:
        ctx.tier = saved


def registry_oracle(ctx, L):
    """every available encoding must have a handler and round-trip"""
    for alg in L.CH.available_encodings:
        case = {'kind': 'registry', 'alg': alg}
        try:
            ok = L.CH.decompress_payload(alg, L.CH.compress_payload(alg, b'verif' * 50)) == b'verif' * 50
        except Exception as ex:  # noqa: BLE001
            ctx.fail('registry:coding-without-working-handler', f'{alg}: {type(ex).__name__}', case)
            continue
        if not ok:
            ctx.fail('registry:coding-not-lossless', alg, case)
    w = read_window(L)
    if w != 16 and 3 <= w <= 8:
        # the writer can emit chunk-size lines the reader can no longer read
        n = 16 ** (w - 2)
        body = b'x' * n
        got = impl_dechunk(L, L.rd.mk_chunks(body, n))
        if got != f'ok {hx(body)} 0':
            ctx.fail('chunk-roundtrip:rejected', f'_read_until window {w}: a chunk of {n} bytes is not read back: {_clip(got, 60)}',
                     {'kind': 'chunk', 'body': None, 'body_len': n, 'n': n, 'fill': 'x'})


def replay(ctx, obj):
    L = lib()
    ctx.driver_ok = False
    B = Batch(ctx, L)
    case = obj['case']
    before = len(ctx.failures)
    if case.get('kind') == 'corrupt':
        got = impl_read_request(L, 'chunked' if case['chunk'] else None, None if case['chunk'] else str(len(unhx(case['wire']))),
                                case['ce'], None, unhx(case['wire']))
        print('read_request_body ->', _clip(got, 200))
        return got.startswith('ok') or got == 'HANG'
    if case.get('kind') == 'registry':
        registry_oracle(ctx, L)
    else:
        _run_case(ctx, L, B, case)
    for f in ctx.failures[before:]:
        print(f['signature'], '-', f['detail'])
    return len(ctx.failures) > before
