"""C11 — every MDIB lookup always agrees with a scan of the stored objects; a rejected insertion is a no-op.

Tie to the source
  * translator: the index definitions (class, index_none_values, order, name) of `DescriptorsLookup()`, `StatesLookup()`,
    `MultiStatesLookup()` and the subscriptions table are introspected from the running code and written to
    `Generated/IndexDefs.lean`; `Properties/C11.lean` proves the instance facts about them by `decide`.
  * correspondence (i): the real `MultiKeyLookup` with a dummy object class and arbitrary index sets is driven with the
    same operations as the Lean model (`drv_c11`); after every operation the result class and the complete content of
    `_objects`, every index dict and `_object_ids` are compared. Random sequences + exhaustive small scope.
  * (ii) oracle `mk_oracle.table_problems` on the real MDIB tables after every random provider transaction and after every
    report the consumer processed (harness/loopback.py), and on the subscription tables of a running provider.
"""
from __future__ import annotations

import copy
import dataclasses
import hashlib
import itertools
import json
import multiprocessing
import os
import random
import subprocess
import traceback
from collections import Counter
from decimal import Decimal
from unittest import mock

import core
import mk_oracle

READY = True
MANIFEST = dict(
    technique='Lean 4 invariant proof over a transcribed model of MultiKeyLookup (all index-definition lists, all operation '
              'histories incl. rejected operations); translator regenerates the index definitions of the real tables; '
              'differential run model vs. real table after every operation (random + exhaustive small scope); scan oracle '
              'on the real provider/consumer MDIB tables',
    text='Theorems (Properties/C11.lean): for every list of index definitions and every history of set-attributes / add / '
         'remove / update / clear / plural operations (rejected ones included) every index list holds exactly the stored '
         'objects whose key set contains the key (with multiplicity), _object_ids is exact, unique indices hold at most one '
         'object per key, a rejected add leaves objects, all index dicts and _object_ids unchanged, a rejected update keeps '
         'the last accepted indexing; get / in / get_one equal a scan. The model is compared with the real MultiKeyLookup '
         'after every operation; the index definitions of the MDIB tables and the subscription table are regenerated.',
    note='Trusted: Lean kernel; translator + harness; Python set/dict/list.remove semantics; key values hashable. The '
         'invariant relates the indices to the key values at the last accepted (re-)index; that the MDIB code re-indexes '
         'after every attribute change is checked by the scan oracle on real transactions / reports (tested, not proved). '
         'Repaired in /repo: non-atomic rejected add/update (126f65e); consumer did not re-index an updated descriptor (91d9de4).',
    ref='5 C11')
DRIVERS = ['drv_c11']
RULE = ('one case = (index definitions, operation sequence) on a MultiKeyLookup, or one transaction / one delivered report '
        'on a real MDIB; distinct = different canonical JSON; non-trivial = at least one accepted add followed by a further '
        'operation on a non-empty table (exhaustive tier: every sequence of the enumerated alphabet is distinct by '
        'construction and is counted per enumeration block)')
TRUSTED = ['CPython set / dict / list.append / list.remove semantics; object identity modelled as a number',
           'key values are hashable (a list of keys for a 1:n index contains hashable elements)',
           'index definitions are added before the first object (as in all sdc11073 tables)',
           'MDIB level (transactions / incoming reports re-index every changed object): scan oracle on generated histories, not a theorem']
ASSUMPTIONS = ['key functions are pure attribute reads', 'single-threaded use of a table during one operation (callers hold the lock)']

DRIVER_BIN = os.path.join(core.LEAN, '.lake', 'build', 'bin', 'drv_c11')
MISSING = '__missing__'
REPO = os.environ.get('VERIF_REPO', '/repo')
MDIB_FILES = [REPO + '/tests/70041_MDIB_Final.xml', REPO + '/tests/70041_MDIB_multi.xml', REPO + '/tests/mdib_two_mds.xml']


# ------------------------------------------------------------------------------------------------------------------
# translator

def real_tables():
    """name -> fresh instance of every MultiKeyLookup table the property names."""
    import sdc11073.definitions_sdc  # noqa: F401  (protocol registry)
    from sdc11073.mdib import mdibbase
    from sdc11073.provider import subscriptionmgr_base as smb
    with mock.patch.object(smb.Thread, 'start', lambda self: None):
        mgr = smb.SubscriptionsManagerBase(sdc11073.definitions_sdc.SdcV1Definitions, mock.MagicMock(), mock.MagicMock())
    return {'descriptorsLookup': mdibbase.DescriptorsLookup(), 'statesLookup': mdibbase.StatesLookup(),
            'multiStatesLookup': mdibbase.MultiStatesLookup(), 'subscriptions': mgr._subscriptions}


def index_class(idx):
    from sdc11073 import multikey
    # exact classes: a subclass with an own mk_keys is something the model does not describe
    return {multikey.IndexDefinition: 'multi', multikey.UIndexDefinition: 'unique',
            multikey.IndexDefinition1n: 'oneN'}.get(type(idx))


def translate(ctx):
    lines = ['import SdcModel.Multikey', '/-! GENERATED by harness/props/c11.py from the index definitions of the running code; do not edit -/',
             'namespace Sdc.Generated', 'open Sdc.Multikey', '',
             'def defsOf (tbl : List (String × IdxDef)) : List IdxDef := tbl.map (·.2)',
             'def idxPos (tbl : List (String × IdxDef)) (name : String) : Nat := tbl.findIdx (·.1 == name)', '']
    for name, table in real_tables().items():
        items = []
        for iname, idx in table._idx_defs.items():
            kind = index_class(idx)
            if kind is None:
                raise RuntimeError(f'{name}.{iname}: index class {type(idx).__name__} is not one of the three modelled classes')
            items.append(f'("{iname}", ⟨.{kind}, {"true" if idx._index_none_values else "false"}⟩)')
        lines.append(f'/-- `{type(table).__name__}` ({name}), indices in definition order -/')
        lines.append(f'def {name} : List (String × IdxDef) :=\n  [' + ',\n   '.join(items) + ']')
        lines.append('')
    lines.append('end Sdc.Generated')
    core.write_if_changed(core.GENERATED + '/IndexDefs.lean', '\n'.join(lines) + '\n')


# ------------------------------------------------------------------------------------------------------------------
# (i) MultiKeyLookup <-> model: values, interning, execution, dump

class Obj:
    """dummy object: identity hash / eq; attributes a0, a1, … are set and deleted by the `set` op"""

    def __init__(self, n):
        self.n = n

    def __repr__(self):
        return f'obj{self.n}'


def dec(v):
    """JSON value of a case -> python key-function result"""
    if isinstance(v, dict):
        return tuple(dec(x) for x in v['tuple'])
    if isinstance(v, list):
        return [dec(x) for x in v]
    return v


_CHAR = {'a': 21, 'b': 22, 'c': 23}


def intern(k):
    """hashable python key -> Nat of the model (0 = None)"""
    if k is None:
        return 0
    if isinstance(k, int):
        assert 1 <= k <= 9
        return k
    if isinstance(k, str):
        if len(k) == 1:
            return _CHAR[k]
        return 2000 + int(''.join(str(_CHAR[c] - 20) for c in k))
    if isinstance(k, tuple):
        return 1000 + int('0' + ''.join(str(x) for x in k))
    raise TypeError(k)


def token(v):
    """python key-function result (or MISSING) -> KeyRes token of the driver protocol"""
    if isinstance(v, str) and v == MISSING:
        return 'E'
    if v is None:
        return 'N'
    if isinstance(v, int):
        return f'o{v}'
    if isinstance(v, (str, tuple)):
        return f's{intern(v)}:' + ','.join(str(intern(x)) for x in v)
    if isinstance(v, list):
        return 'l' + ','.join(str(intern(x)) for x in v)
    raise TypeError(v)


def mk_index(j, k, nn):
    from sdc11073 import multikey
    cls = {'m': multikey.IndexDefinition, 'u': multikey.UIndexDefinition, 'n': multikey.IndexDefinition1n}
    return cls[k](lambda o, a=f'a{j}': getattr(o, a), index_none_values=bool(nn))


def build_table(defs):
    from sdc11073 import multikey
    t = multikey.MultiKeyLookup()
    for j, (k, nn) in enumerate(defs):
        t.add_index(f'i{j}', mk_index(j, k, nn))
    return t, list(t._idx_defs.values())


def py_dump(t, idxs, num):
    parts = ['O:' + ','.join(map(str, sorted(num.get(id(o), 999) for o in t._objects)))]
    pos = {}
    for i, d in enumerate(idxs):
        pos[id(d)] = i
        items = sorted((intern(k), lst) for k, lst in dict.items(d))
        parts.append(f'I{i}:' + '|'.join(f'{k}=' + ','.join(str(num.get(id(o), 999)) for o in lst) for k, lst in items))
    refs = sorted((num.get(i, 999), r) for i, r in t._object_ids.items())
    parts.append('R:' + '/'.join(f'{n}=' + ','.join(f'{pos.get(id(x.index_dict), "?")}.{intern(x.key)}' for x in r)
                                 for n, r in refs))
    return ' '.join(parts)


def op_line(op):
    k = op[0]
    if k == 'set':
        return f'set {op[1]} ' + ' '.join(token(dec(v)) for v in op[2])
    if k in ('add', 'rm', 'upd'):
        return f'{k} {op[1]}'
    if k == 'addidx':
        return f'addidx {op[1]}{int(op[2])} ' + ' '.join(map(str, op[3]))
    if k == 'clear':
        return 'clear'
    if k in ('addm', 'rmm', 'updm'):
        return f'{k} ' + ' '.join(map(str, op[1]))
    if k in ('get', 'has'):
        return f'{k} {op[1]} {intern(dec(op[2]))}'
    if k == 'one':
        return f'one {op[1]} {intern(dec(op[2]))} {int(op[3])}'
    raise ValueError(op)


class Impl:
    """the real table + the oracle bookkeeping of one case"""

    def __init__(self, defs, nobj):
        self.t, self.idxs = build_table(defs)
        self.objs = {n: Obj(n) for n in range(1, nobj + 1)}
        self.num = {id(o): n for n, o in self.objs.items()}
        self.pending = set()       # objects whose attributes were written after their last accepted (re-)index
        self.failures = []         # (signature, detail)

    def stored(self):
        return {self.num[id(o)] for o in self.t._objects if id(o) in self.num}

    def _call(self, f, *a):
        try:
            f(*a)
        except (KeyError, ValueError) as ex:
            return 'err ' + type(ex).__name__
        except Exception as ex:  # noqa: BLE001
            return 'err ' + type(ex).__name__
        return 'ok'

    def execute(self, op, dump=True):
        """run one op on the real table; returns the answer line the model has to give"""
        k, t = op[0], self.t
        if k == 'set':
            o = self.objs[op[1]]
            for j, v in enumerate(op[2]):
                if isinstance(v, str) and v == MISSING:
                    if hasattr(o, f'a{j}'):
                        delattr(o, f'a{j}')
                else:
                    setattr(o, f'a{j}', dec(v))
            self.pending.add(op[1])
            res = 'ok'
        elif k in ('add', 'rm', 'upd'):
            o = self.objs[op[1]]
            nolock = len(op) > 2 and op[2]
            before = mk_oracle.table_dump(t)
            was_stored = o in t._objects
            meth = {'add': (t.add_object, t.add_object_no_lock), 'rm': (t.remove_object, t.remove_object_no_lock),
                    'upd': (t.update_object, t.update_object_no_lock)}[k][1 if nolock else 0]
            res = self._call(meth, o)
            after = mk_oracle.table_dump(t)
            if k == 'add':
                if res != 'ok' and after != before:
                    self.failures.append(('rejected-add-modifies-table',
                                          f'add_object raised {res[4:]} and left the table changed: objects/indices/_object_ids before {_short(before, self.num)} after {_short(after, self.num)}'))
                if res == 'ok' and not was_stored:
                    self.pending.discard(op[1])
            elif k == 'upd':
                if res != 'ok' and not _same_content(before, after):
                    self.failures.append(('rejected-update-modifies-table',
                                          f'update_object raised {res[4:]} and changed the table content: before {_short(before, self.num)} after {_short(after, self.num)}'))
                if res == 'ok':
                    self.pending.discard(op[1])
            elif k == 'rm' and res != 'ok':
                self.failures.append(('remove-raises', f'remove_object raised {res[4:]}'))
        elif k == 'addidx':
            # add_index at run time; the iteration order of the object set is observed and handed to the model
            j = len(self.idxs)
            op[3:] = [[self.num[id(o)] for o in t._objects]]
            idx = mk_index(j, op[1], op[2])
            before = mk_oracle.table_dump(t)
            res = self._call(t.add_index, f'i{j}', idx)
            if res == 'ok':
                self.idxs.append(idx)
            elif mk_oracle.table_dump(t) != before:
                self.failures.append(('rejected-add-index-modifies-table',
                                      f'add_index raised {res[4:]} and left the table changed: before {_short(before, self.num)} after {_short(mk_oracle.table_dump(t), self.num)}'))
        elif k == 'clear':
            res = self._call(t.clear)
        elif k in ('addm', 'rmm', 'updm'):
            objs = [self.objs[n] for n in op[1]]
            nolock = len(op) > 2 and op[2]
            before_stored = self.stored()
            meth = {'addm': (t.add_objects, t.add_objects_no_lock), 'rmm': (t.remove_objects, t.remove_objects_no_lock),
                    'updm': (t.update_objects, t.update_objects_no_lock)}[k][1 if nolock else 0]
            res = self._call(meth, objs)
            if k == 'addm':
                self.pending -= (self.stored() - before_stored)
            elif k == 'updm' and res == 'ok':
                self.pending -= set(op[1])
        elif k == 'get':
            try:
                r = self.idxs[op[1]].get(dec(op[2]))
            except Exception as ex:  # noqa: BLE001
                return 'err ' + type(ex).__name__
            return 'none' if r is None else ','.join(str(self.num.get(id(o), 999)) for o in r)
        elif k == 'has':
            return 'true' if dec(op[2]) in self.idxs[op[1]] else 'false'
        elif k == 'one':
            try:
                r = self.idxs[op[1]].get_one(dec(op[2]), allow_none=bool(op[3]))
            except Exception as ex:  # noqa: BLE001
                return 'err ' + type(ex).__name__
            return 'ok none' if r is None else f'ok {self.num[id(r)]}'
        else:
            raise ValueError(op)
        return res + ' ' + py_dump(t, self.idxs, self.num) if dump else res

    def check_scan(self):
        """the property's observable: lookups == scan (only meaningful when no stored object has unindexed writes)"""
        if self.pending & self.stored():
            return False
        probs = mk_oracle.table_problems(self.t)
        if probs:
            self.failures.append(('lookup-disagrees-with-scan:multikey', '; '.join(probs[:4])))
        return True


def _short(d, num):
    objs, idx, refs = d
    return json.dumps({'objects': sorted(num.get(i, i) for i in objs),
                       'indices': {n: {repr(k): [num.get(i, i) for i in l] for k, l in dd.items()} for n, dd in idx.items()},
                       '_object_ids': sorted(num.get(i, i) for i in refs)})[:700]


def _same_content(a, b):
    """objects and _object_ids identical, every index list identical as a multiset"""
    if a[0] != b[0] or a[2] != b[2] or a[1].keys() != b[1].keys():
        return False
    for n in a[1]:
        if a[1][n].keys() != b[1][n].keys():
            return False
        for k in a[1][n]:
            if Counter(a[1][n][k]) != Counter(b[1][n][k]):
                return False
    return True


def run_case_impl(case, dump_last_only=False):
    """-> (driver lines, expected answers (None = not compared), Impl)"""
    impl = Impl(case['defs'], case['nobj'])
    lines = ['defs ' + ' '.join(f'{k}{int(nn)}' for k, nn in case['defs'])]
    exp = ['ok']
    ops = case['ops']
    for j, op in enumerate(ops):
        mut = op[0] not in ('get', 'has', 'one')
        quiet = dump_last_only and j < len(ops) - 1 and mut
        exp.append(impl.execute(op, dump=not quiet))       # (fills in the observed iteration order of an addidx op)
        lines.append(('. ' if quiet else '') + op_line(op))
        if not dump_last_only or j == len(ops) - 1:
            impl.check_scan()
    return lines, exp, impl


def drive(lines):
    r = subprocess.run([DRIVER_BIN], input=('\n'.join(lines) + '\n').encode(), capture_output=True, timeout=3000)
    if r.returncode != 0:
        raise RuntimeError('drv_c11 failed: ' + r.stderr.decode()[:500])
    out = r.stdout.decode().split('\n')
    if out and out[-1] == '':
        out.pop()
    if len(out) != len(lines):
        raise RuntimeError(f'drv_c11: {len(lines)} lines in, {len(out)} out')
    return out


# ---- random cases

VALUES = [None, None, 1, 1, 2, 2, 3, MISSING, {'tuple': [1, 2]}, {'tuple': [1, 1]}, {'tuple': []}, 'a', 'ab', 'ba',
          [1], [1, 2], [1, 1], [2, 1, 2], [], [2, 'a'], [{'tuple': [1, 2]}, 1]]
KEYS = [None, 1, 2, 3, 'a', 'b', 'ab', {'tuple': [1, 2]}, {'tuple': [1, 1]}, {'tuple': []}]


def gen_case(rng, max_ops=40):
    nidx = rng.choice([1, 2, 2, 3, 3, 4])
    defs = [[rng.choice('mmunun' if j else 'mun'), rng.randint(0, 1)] for j in range(nidx)]
    if rng.random() < 0.3:
        defs[rng.randrange(nidx)][0] = 'u'
    nobj = rng.randint(2, 5)
    vals = VALUES if rng.random() < 0.6 else [None, 1, 2, 1, 2, [1, 2], [1, 1], MISSING]
    ops = []
    n = rng.randint(3, max_ops)
    disciplined = rng.random() < 0.6

    nslots = nidx + 2          # attributes for up to two indices added at run time

    def attrs():
        return [rng.choice(vals) for _ in range(nslots)]
    nadded = [0]
    for o in range(1, nobj + 1):
        if rng.random() < 0.8:
            ops.append(['set', o, attrs()])
    while len(ops) < n:
        r = rng.random()
        o = rng.randint(1, nobj)
        nl = rng.random() < 0.5
        if r < 0.22:
            ops.append(['add', o, nl])
        elif r < 0.32:
            ops.append(['rm', o, nl])
        elif r < 0.50:
            ops.append(['set', o, attrs()])
            if disciplined or rng.random() < 0.5:
                ops.append(['upd', o, nl])
        elif r < 0.58:
            ops.append(['upd', o, nl])
        elif r < 0.595 and nadded[0] < 2:
            nadded[0] += 1
            ops.append(['addidx', rng.choice('mun'), rng.randint(0, 1)])
        elif r < 0.60:
            ops.append(['clear'])
        elif r < 0.66:
            ops.append(['addm', [rng.randint(1, nobj) for _ in range(rng.randint(0, 4))], nl])
        elif r < 0.70:
            ops.append(['rmm', [rng.randint(1, nobj) for _ in range(rng.randint(0, 3))], nl])
        elif r < 0.74:
            ops.append(['updm', [rng.randint(1, nobj) for _ in range(rng.randint(0, 3))], nl])
        elif r < 0.84:
            ops.append(['get', rng.randrange(nidx), rng.choice(KEYS)])
        elif r < 0.90:
            ops.append(['has', rng.randrange(nidx), rng.choice(KEYS)])
        else:
            ops.append(['one', rng.randrange(nidx), rng.choice(KEYS), rng.randint(0, 1)])
    if rng.random() < 0.5:
        # an index added to the loaded table in the middle of the history (most useful place)
        ops.insert(rng.randint(len(ops) // 3, len(ops)), ['addidx', rng.choice('mun'), rng.randint(0, 1)])
    return {'defs': defs, 'nobj': nobj, 'ops': ops}


def _subrng(seed, *key):
    h = hashlib.sha1(repr((seed,) + key).encode()).hexdigest()
    return random.Random(int(h[:16], 16))


def _compare(case, lines, exp, out, res, what):
    for j, (e, o) in enumerate(zip(exp, out)):
        if e != o:
            if len(res['disagreements']) < 5:
                res['disagreements'].append((what, {'defs': case['defs'], 'nobj': case['nobj'], 'ops': case['ops'][:j]},
                                             f'line {lines[j]!r}: {o}', e))
            res['ndis'] += 1
            return False
    return True


def _new_res():
    return {'n': 0, 'nontrivial': 0, 'hist': Counter(), 'disagreements': [], 'ndis': 0, 'failures': [], 'samples': [],
            'canon': []}


def _account(case, exp, impl, res, keep_canon):
    res['n'] += 1
    nt = False
    seen_add = False
    for op, e in zip(case['ops'], exp[1:]):
        kind = op[0]
        res['hist']['op:' + kind + ('_no_lock' if kind in ('add', 'rm', 'upd', 'addm', 'rmm', 'updm') and len(op) > 2 and op[2] else '')] += 1
        if e.startswith('err '):
            res['hist'][f'rejected:{kind}:{e.split()[1]}'] += 1
        if seen_add and impl is not None:
            nt = True
        if kind in ('add', 'addm') and e.startswith('ok'):
            seen_add = True
    res['nontrivial'] += nt
    if keep_canon:
        res['canon'].append((hashlib.sha1(json.dumps(case, sort_keys=True).encode()).hexdigest()[:20], nt))
    for sig, detail in impl.failures:
        if len(res['failures']) < 6:
            res['failures'].append((sig, detail, case))
        res['hist']['oracle-failure:' + sig] += 1


def task_random(args):
    seed, chunk, n, max_ops, driver_ok = args
    res = _new_res()
    try:
        rng = _subrng(seed, 'c11-random', chunk)
        all_lines, metas = [], []
        for _ in range(n):
            case = gen_case(rng, max_ops)
            lines, exp, impl = run_case_impl(case)
            _account(case, exp, impl, res, keep_canon=True)
            if len(res['samples']) < 1 and chunk == 0 and len(case['ops']) <= 12:
                res['samples'].append({'defs': case['defs'], 'ops': case['ops'], 'impl_answers': exp[1:]})
            metas.append((case, lines, exp, len(all_lines)))
            all_lines.extend(lines)
        if driver_ok:
            out = drive(all_lines)
            for case, lines, exp, off in metas:
                _compare(case, lines, exp, out[off:off + len(lines)], res, 'random op sequence: answer + table dump after every op')
    except Exception:  # noqa: BLE001
        res['error'] = traceback.format_exc()[-1500:]
    return res


# ---- exhaustive small scope: 3 objects, keys {1, 2} (+None), every op sequence up to a length

EXH_CONFIGS = {
    # name: (defs, per object (attrs A, attrs B))
    'multi+unique': ([['m', 1], ['u', 1]],
                     {1: ([1, 1], [2, 2]), 2: ([2, 1], [1, 2]), 3: ([None, 2], [1, None])}),
    'oneN+unique+multi': ([['n', 0], ['u', 0], ['m', 0]],
                          {1: ([[1, 1], 1, None], [[1, 2], 2, 1]), 2: ([[2], 1, 1], [[1], [1], 2]),
                           3: ([MISSING, None, {'tuple': [1, 2]}], [{'tuple': [1, 2]}, 2, [1]])}),
    'unique+unique': ([['u', 1], ['u', 0]],
                      {1: ([1, 1], [2, 2]), 2: ([2, 1], [1, 2]), 3: ([None, 1], [2, None])}),
}
EXH_ALPHABET = [(k, o) for o in (1, 2, 3) for k in ('add', 'rm', 'upd', 'flip')] + [('clear', 0)]


def exh_case(cfg, seq, variant):
    defs, attrs = EXH_CONFIGS[cfg]
    ops = [['set', o, attrs[o][0]] for o in (1, 2, 3)]
    side = {1: 0, 2: 0, 3: 0}
    for a in seq:
        k, o = EXH_ALPHABET[a]
        if k == 'flip':
            side[o] ^= 1
            ops.append(['set', o, attrs[o][side[o]]])
        elif k == 'clear':
            ops.append(['clear'])
        else:
            ops.append([k, o, bool(variant)])
    return {'defs': defs, 'nobj': 3, 'ops': ops}


def task_exhaustive(args):
    cfg, length, first, driver_ok = args
    res = _new_res()
    try:
        all_lines, metas = [], []

        def flush():
            if driver_ok and all_lines:
                out = drive(all_lines)
                for case, lines, exp, off in metas:
                    _compare(case, lines, exp, out[off:off + len(lines)], res,
                             f'exhaustive {cfg}: answers of every op + table dump after the last op')
            all_lines.clear()
            metas.clear()
        for k, rest in enumerate(itertools.product(range(len(EXH_ALPHABET)), repeat=length - 1)):
            seq = (first, *rest)
            case = exh_case(cfg, seq, k & 1)
            lines, exp, impl = run_case_impl(case, dump_last_only=True)
            _account(case, exp, impl, res, keep_canon=False)
            metas.append((case, lines, exp, len(all_lines)))
            all_lines.extend(lines)
            if len(all_lines) > 400000:
                flush()
        flush()
    except Exception:  # noqa: BLE001
        res['error'] = traceback.format_exc()[-1500:]
    return res


def _merge(ctx, res, label, exhaustive_block=None):
    if 'error' in res:
        raise RuntimeError(f'{label}: worker failed: {res["error"]}')
    for k, v in res['hist'].items():
        ctx.count(k, v)
    for what, case, model, impl in res['disagreements']:
        ctx.disagree(what, case, model, impl)
    if res['ndis'] > len(res['disagreements']):
        ctx.count('disagreement:(more)', res['ndis'] - len(res['disagreements']))
    for sig, detail, case in res['failures']:
        ctx.fail(sig, detail, shrink(case, sig))
    for s in res['samples']:
        if len(ctx.samples) < ctx.max_samples:
            ctx.samples.append(s)
    keep = list(ctx.samples)
    if exhaustive_block is not None:
        ctx.case(exhaustive_block, nontrivial=res['nontrivial'] > 0)
        ctx.evaluations += res['n'] - 1
    else:
        for h, nt in res['canon']:
            ctx.case(h, nontrivial=nt)
    ctx.samples = keep


def case_fails(case, sig=None):
    try:
        _, _, impl = run_case_impl(case)
    except Exception:  # noqa: BLE001
        return False
    return any(s == sig or sig is None for s, _ in impl.failures)


def shrink(case, sig):
    """greedy removal of ops while the same oracle failure remains"""
    ops = list(case['ops'])
    # cut behind the first failing op
    for j in range(1, len(ops) + 1):
        if case_fails({**case, 'ops': ops[:j]}, sig):
            ops = ops[:j]
            break
    changed = True
    while changed and len(ops) > 1:
        changed = False
        for j in range(len(ops) - 1):
            cand = ops[:j] + ops[j + 1:]
            if case_fails({**case, 'ops': cand}, sig):
                ops, changed = cand, True
                break
    return {'kind': 'multikey', 'defs': case['defs'], 'nobj': case['nobj'], 'ops': ops}


def run_multikey_part(ctx):
    nrand = ctx.n(2000, 100000)
    nchunks = ctx.n(8, 64)
    tasks = [('random', (ctx.seed, c, nrand // nchunks, 40, ctx.driver_ok)) for c in range(nchunks)]
    lengths = {'multi+unique': ctx.n(4, 6), 'oneN+unique+multi': ctx.n(4, 5), 'unique+unique': ctx.n(4, 5)}
    for cfg, lmax in lengths.items():
        for length in range(1, lmax + 1):
            for first in range(len(EXH_ALPHABET)):
                tasks.append(('exh', (cfg, length, first, ctx.driver_ok)))
    extra = ''
    if ctx.tier == 'quick':
        # one level deeper for the sequences that start with an insertion (first rejected re-index needs 5 ops)
        for first, (k, _) in enumerate(EXH_ALPHABET):
            if k == 'add':
                tasks.append(('exh', ('multi+unique', 5, first, ctx.driver_ok)))
        extra = '; multi+unique additionally every sequence of length 5 that starts with an add'
    # big tasks first
    tasks.sort(key=lambda t: -(t[1][1] if t[0] == 'exh' else 3))
    with multiprocessing.Pool(min(8, os.cpu_count() or 2)) as pool:
        results = pool.map(_dispatch, tasks, chunksize=1)
    nexh = 0
    for (kind, args), res in zip(tasks, results):
        if kind == 'random':
            _merge(ctx, res, f'random chunk {args[1]}')
        else:
            nexh += res.get('n', 0)
            _merge(ctx, res, f'exhaustive {args[:3]}', exhaustive_block={'exhaustive': args[0], 'length': args[1], 'first_op': EXH_ALPHABET[args[2]]})
    ctx.exhaustive = True
    ctx.notes['exhaustive_scope'] = {'configurations': {k: {'defs': v[0], 'max_length': lengths[k]} for k, v in EXH_CONFIGS.items()},
                                     'alphabet': [f'{k}{o or ""}' for k, o in EXH_ALPHABET], 'sequences': nexh,
                                     'note': 'every sequence over the alphabet up to max_length, 3 objects with 2 attribute assignments each (flip = attribute write without re-index)' + extra}
    ctx.notes['random_sequences'] = nrand


def _dispatch(task):
    return task_random(task[1]) if task[0] == 'random' else task_exhaustive(task[1])


# ------------------------------------------------------------------------------------------------------------------
# (ii) real MDIB tables: random provider transactions, scan oracle after each

def _load_mdib(path):
    import sdc11073.definitions_sdc  # noqa: F401
    from sdc11073.mdib import ProviderMdib
    return ProviderMdib.from_mdib_file(path)


def gen_tx(rng, mdib, counter):
    """one random transaction script (JSON) from the current content of the provider mdib"""
    from sdc11073.xml_types import pm_qnames as q
    d = mdib.descriptions
    by_type = lambda *names: [x.Handle for n in names for x in (d.NODETYPE.get(getattr(q, n)) or [])]  # noqa: E731
    metrics = by_type('NumericMetricDescriptor', 'StringMetricDescriptor', 'EnumStringMetricDescriptor')
    conds = by_type('AlertConditionDescriptor', 'LimitAlertConditionDescriptor')
    signals = by_type('AlertSignalDescriptor')
    systems = by_type('AlertSystemDescriptor')
    comps = by_type('ChannelDescriptor', 'VmdDescriptor', 'MdsDescriptor')
    channels = by_type('ChannelDescriptor')
    opers = by_type('SetValueOperationDescriptor', 'SetStringOperationDescriptor', 'ActivateOperationDescriptor',
                    'SetContextStateOperationDescriptor', 'SetAlertStateOperationDescriptor')
    rts = by_type('RealTimeSampleArrayMetricDescriptor')
    ctxd = by_type('PatientContextDescriptor', 'LocationContextDescriptor', *CTX_KINDS)
    sysctx = by_type('SystemContextDescriptor')
    added = [x.Handle for x in d.objects if x.Handle.startswith('verif.')]

    def some(lst, lo=1, hi=3):
        return rng.sample(lst, min(len(lst), rng.randint(lo, hi))) if lst else []
    r = rng.random()
    abort = rng.random() < 0.05
    tx = None
    if rng.random() < 0.05:
        # an application adds its own index to a loaded table (public API of the table); ordinary transactions follow
        counter[0] += 1
        table = rng.choice(['descriptions', 'descriptions', 'states', 'context_states'])
        # (not DescriptorVersion: the version of a parent is incremented in place when a child is added / removed, without
        #  update_object - no lookup of the property depends on it, an application index over it is outside the statement)
        key = rng.choice({'descriptions': ['type_code', 'handle', 'source', 'safety', 'condition_signaled'],
                          'states': ['descriptor_handle', 'state_version', 'activation'],
                          'context_states': ['descriptor_handle', 'handle', 'association']}[table])
        cls = rng.choice(['multi', 'multi', 'unique', 'oneN'])
        if cls == 'unique' and key in ('source', 'condition_signaled'):
            # a unique index over an attribute that descriptor updates change in place and that is not unique: the re-index of
            # an updated descriptor is then rejected (KeyError in the commit) although the attribute is already written - no table
            # can list two objects under one unique key, the statement cannot ask for it (model: the object stays `pending`)
            cls = 'multi'
        return {'tx': 'add_index', 'table': table, 'name': f'verif_idx_{counter[0]}', 'key': key,
                'cls': cls, 'index_none': rng.random() < 0.5, 'abort': False}
    if r < 0.15 and metrics:
        tx = {'tx': 'metric', 'handles': some(metrics)}
    elif r < 0.25 and (conds or signals or systems):
        tx = {'tx': 'alert', 'handles': some(conds + signals + systems)}
    elif r < 0.32 and comps:
        tx = {'tx': 'component', 'handles': some(comps)}
    elif r < 0.38 and opers:
        tx = {'tx': 'operational', 'handles': some(opers)}
    elif r < 0.42 and rts:
        tx = {'tx': 'rt', 'handles': some(rts, 1, 2)}
    elif r < 0.55 and ctxd:
        existing = [s.Handle for s in mdib.context_states.objects]
        if existing and rng.random() < 0.5:
            tx = {'tx': 'context_update', 'handles': some(existing, 1, 2), 'assoc': rng.choice(['Assoc', 'Dis', 'No'])}
        elif rng.random() < 0.3:
            # add_state of an application-made context state container, with or without a Handle
            counter[0] += 1
            tx = {'tx': 'context_add', 'descriptor': rng.choice(ctxd),
                  'state_handle': None if rng.random() < 0.6 else f'verif.cs.{counter[0]}'}
        else:
            tx = {'tx': 'context_new', 'descriptor': rng.choice(ctxd)}
    elif r < 0.62 and systems:
        # entities made with entities.new_entity and written with write_entity / write_entities (create); the application
        # keeps its entity objects afterwards (see handed_in / provider_reads)
        ents = []
        for _ in range(rng.choice([1, 1, 2])):
            counter[0] += 1
            if rng.random() < 0.6:
                src = some(metrics, 0, 3)
                ents.append({'kind': 'AlertConditionDescriptor', 'handle': f'verif.{counter[0]}', 'parent': rng.choice(systems),
                             'set': {'Source': src}})
            else:
                ents.append({'kind': 'AlertSignalDescriptor', 'handle': f'verif.{counter[0]}', 'parent': rng.choice(systems),
                             'set': {'ConditionSignaled': rng.choice([*conds, None]) if conds else None}})
        tx = {'tx': 'entity_new', 'entities': ents, 'plural': rng.random() < 0.4, 'adjust': rng.random() < 0.8}
    elif r < 0.68 and (conds or signals):
        # write_entity, mostly with adjust_version_counter=False: the report carries the *same* DescriptorVersion
        # although an indexed attribute changes (an application that manages version counters itself)
        h = rng.choice(conds + signals)
        if h in conds:
            src = some(metrics, 0, 3)
            if src and rng.random() < 0.2:
                src.append(src[0])
            chg = {'Source': src}
        else:
            chg = {'ConditionSignaled': rng.choice([*conds, None])}
        if rng.random() < 0.2 and systems:
            chg['parent_handle'] = rng.choice(systems)
        tx = {'tx': 'entity', 'handle': h, 'set': chg, 'adjust': rng.random() < 0.25}
    else:
        steps = []
        for _ in range(rng.randint(1, 3)):
            s = rng.random()
            if s < 0.25 and conds:
                src = some(metrics, 0, 3)
                if src and rng.random() < 0.2:
                    src.append(src[0])       # duplicate entry in the 1:n key list
                steps.append({'do': 'update', 'handle': rng.choice(conds), 'set': {'Source': src}})
            elif s < 0.45 and signals and conds:
                steps.append({'do': 'update', 'handle': rng.choice(signals),
                              'set': {'ConditionSignaled': rng.choice([*conds, None])}})
            elif s < 0.55 and metrics and channels:
                steps.append({'do': 'update', 'handle': rng.choice(metrics), 'set': {'parent_handle': rng.choice(channels)}})
            elif s < 0.62 and (metrics or comps):
                steps.append({'do': 'update', 'handle': rng.choice(metrics + comps), 'set': {}})
            elif s < 0.80 and channels:
                counter[0] += 1
                kind = rng.choice(['NumericMetricDescriptor', 'AlertConditionDescriptor', 'AlertSignalDescriptor'])
                parent = rng.choice(channels) if kind == 'NumericMetricDescriptor' else (rng.choice(systems) if systems else None)
                if parent is not None:
                    steps.append({'do': 'add', 'kind': kind, 'handle': f'verif.{counter[0]}' if rng.random() < 0.9 else rng.choice(metrics or ['x']),
                                  'parent': parent, 'with_state': rng.random() < 0.8, 'adjust': rng.random() < 0.8,
                                  'set': ({'Source': some(metrics, 0, 2)} if kind == 'AlertConditionDescriptor' else
                                          {'ConditionSignaled': rng.choice([*conds, None])} if kind == 'AlertSignalDescriptor' and conds else {})})
            elif s < 0.87 and sysctx:
                # a new context descriptor, its state container made by the application (with / without Handle)
                counter[0] += 1
                steps.append({'do': 'add_ctx', 'kind': rng.choice(CTX_KINDS), 'handle': f'verif.{counter[0]}', 'parent': rng.choice(sysctx),
                              'state': rng.choice(['none', 'no_handle', 'no_handle', 'handle']), 'state_handle': f'verif.cs.{counter[0]}',
                              'via': rng.choice(['add_descriptor', 'add_state'])})
            elif s < 0.90 and ctxd:
                counter[0] += 1
                steps.append({'do': 'add_ctx_state', 'handle': rng.choice(ctxd),
                              'state_handle': None if rng.random() < 0.6 else f'verif.cs.{counter[0]}'})
            elif s < 0.96 and added:
                steps.append({'do': 'remove', 'handle': rng.choice(added)})
            elif channels and rng.random() < 0.3:
                steps.append({'do': 'remove', 'handle': rng.choice(channels)})
        if rng.random() < 0.35:
            _add_commit_fault(rng, mdib, steps, conds, signals, metrics, ctxd, counter, systems)
        tx = {'tx': 'descriptor', 'steps': steps}
    tx['abort'] = abort
    return tx


def _add_commit_fault(rng, mdib, steps, conds, signals, metrics, ctxd, counter, systems):
    """Append a step that makes the commit of this descriptor transaction fail *after* it has started to apply the
    updates (everything an application can provoke through the transaction API), behind at least one update of an
    indexed attribute. The table lookups must agree with a scan afterwards, whatever else the failed commit leaves."""
    upd = [s for s in steps if s['do'] == 'update' and (s['handle'] in conds or s['handle'] in signals)]
    if not upd and (conds or signals):
        h = rng.choice(conds + signals)
        if h in conds:
            upd = [{'do': 'update', 'handle': h, 'set': {'Source': rng.sample(metrics, min(len(metrics), rng.randint(0, 2)))}}]
        else:
            upd = [{'do': 'update', 'handle': h, 'set': {'ConditionSignaled': rng.choice([*conds, None])}}]
        if any(s.get('handle') == h for s in steps):
            return
        steps.insert(0, upd[0])
    if not upd:
        return
    h = upd[0]['handle']
    with_state = [x.DescriptorHandle for x in mdib.states.objects if x.DescriptorHandle != h]
    other_ctx = [(st.Handle, st.DescriptorHandle) for st in mdib.context_states.objects]
    kinds = ['add_state_existing', 'rehandle_state', 'rename_added']
    if other_ctx and len(ctxd) > 1:
        kinds.append('ctx_collision')
    k = rng.choice(kinds)
    if k == 'add_state_existing':
        # add_state instead of get_state for a descriptor that has a state: the state table refuses it at commit time
        steps.append({'do': 'add_state_existing', 'handle': h})
    elif k == 'rehandle_state' and with_state:
        # the state handed out by get_state gets the DescriptorHandle of another state
        steps.append({'do': 'rehandle_state', 'handle': h, 'to': rng.choice(sorted(with_state))})
    elif k == 'rename_added' and systems:
        # a new descriptor whose Handle is changed to an existing one after add_descriptor
        counter[0] += 1
        steps.append({'do': 'add', 'kind': 'AlertConditionDescriptor', 'handle': f'verif.{counter[0]}', 'parent': rng.choice(systems),
                      'with_state': rng.random() < 0.5, 'adjust': True, 'set': {'Source': []},
                      'rename_to': rng.choice(conds + signals + metrics)})
    elif k == 'ctx_collision':
        sh, dh = rng.choice(sorted(other_ctx))
        others = [d for d in ctxd if d != dh]
        if others:
            # a context state written under one context descriptor with the Handle of a state of another one
            steps.append({'do': 'ctx_collision', 'descriptor': rng.choice(others), 'state_handle': sh})


KEY_FUNCS = {
    'type_code': lambda obj: obj.Type.Code,               # AttributeError for descriptors without Type
    'handle': lambda obj: obj.Handle,
    'source': lambda obj: obj.Source,
    'safety': lambda obj: obj.SafetyClassification,
    'condition_signaled': lambda obj: obj.ConditionSignaled,
    'descriptor_handle': lambda obj: obj.DescriptorHandle,
    'state_version': lambda obj: obj.StateVersion,
    'activation': lambda obj: obj.ActivationState,
    'association': lambda obj: obj.ContextAssociation,
}
CTX_KINDS = ['EnsembleContextDescriptor', 'WorkflowContextDescriptor', 'OperatorContextDescriptor', 'MeansContextDescriptor']


class _Abort(Exception):
    pass


def run_tx(mdib, tx):
    """execute one transaction script on the real provider mdib; exceptions of the API are part of the history"""
    from sdc11073.xml_types import pm_qnames as q
    from sdc11073.xml_types import pm_types
    STAGE[0] = None
    try:
        kind = tx['tx']
        if kind == 'add_index':
            from sdc11073 import multikey
            cls = {'multi': multikey.IndexDefinition, 'unique': multikey.UIndexDefinition, 'oneN': multikey.IndexDefinition1n}[tx['cls']]
            getattr(mdib, tx['table']).add_index(tx['name'], cls(KEY_FUNCS[tx['key']], index_none_values=tx['index_none']))
            return 'ok'
        if kind in ('metric', 'alert', 'component', 'operational', 'rt'):
            with getattr(mdib, {'rt': 'rt_sample_state_transaction'}.get(kind, kind + '_state_transaction'))() as tr:
                for h in tx['handles']:
                    st = tr.get_state(h)
                    if kind == 'operational':
                        st.OperatingMode = pm_types.OperatingMode.DISABLED if st.OperatingMode != pm_types.OperatingMode.DISABLED else pm_types.OperatingMode.ENABLED
                    elif kind == 'alert':
                        st.ActivationState = pm_types.AlertActivation.OFF if st.ActivationState != pm_types.AlertActivation.OFF else pm_types.AlertActivation.ON
                    else:
                        st.ActivationState = pm_types.ComponentActivation.OFF if st.ActivationState != pm_types.ComponentActivation.OFF else pm_types.ComponentActivation.ON
                if tx['abort']:
                    raise _Abort
        elif kind == 'context_new':
            with mdib.context_state_transaction() as tr:
                st = tr.mk_context_state(tx['descriptor'], set_associated=True)
                if tx['abort']:
                    raise _Abort
        elif kind == 'context_add':
            with mdib.context_state_transaction() as tr:
                st = mdib.data_model.mk_state_container(mdib.descriptions.handle.get_one(tx['descriptor']))
                st.Handle = tx['state_handle']
                tr.add_state(st)
                if tx['abort']:
                    raise _Abort
        elif kind == 'context_update':
            with mdib.context_state_transaction() as tr:
                for h in tx['handles']:
                    st = tr.get_context_state(h)
                    st.ContextAssociation = pm_types.ContextAssociation(tx['assoc'])
                if tx['abort']:
                    raise _Abort
        elif kind == 'entity_new':
            ents = []
            for e in tx['entities']:
                ent = mdib.entities.new_entity(getattr(q, e['kind']), e['handle'], e['parent'])
                for a, v in e['set'].items():
                    setattr(ent.descriptor, a, list(v) if isinstance(v, list) else v)
                if e['kind'] == 'AlertSignalDescriptor':
                    ent.descriptor.Manifestation = pm_types.AlertSignalManifestation.VIS
                    ent.descriptor.Latching = False
                else:
                    ent.descriptor.Kind = pm_types.AlertConditionKind.TECHNICAL
                    ent.descriptor.Priority = pm_types.AlertConditionPriority.LOW
                ents.append(ent)
                handed_in(mdib, ent)
            with mdib.descriptor_transaction() as tr:
                if tx['plural']:
                    tr.write_entities(ents, adjust_version_counter=tx['adjust'])
                else:
                    for ent in ents:
                        tr.write_entity(ent, adjust_version_counter=tx['adjust'])
                if tx['abort']:
                    raise _Abort
                STAGE[0] = 'commit'
        elif kind == 'entity':
            entity = mdib.entities.by_handle(tx['handle'])
            entity.descriptor = copy.deepcopy(entity.descriptor)     # never write to the table's object directly
            for a, v in tx['set'].items():
                setattr(entity.descriptor, a, v)
            handed_in(mdib, entity)
            with mdib.descriptor_transaction() as tr:
                tr.write_entity(entity, adjust_version_counter=tx['adjust'])
                if tx['abort']:
                    raise _Abort
        elif kind == 'descriptor':
            with mdib.descriptor_transaction() as tr:
                for s in tx['steps']:
                    if s['do'] == 'update':
                        dc = tr.get_descriptor(s['handle'])
                        for a, v in s['set'].items():
                            setattr(dc, a, v)
                    elif s['do'] == 'add':
                        parent = mdib.descriptions.handle.get_one(s['parent'])
                        dc = mdib.data_model.mk_descriptor_container(getattr(q, s['kind']), handle=s['handle'], parent_descriptor=parent)
                        for a, v in s['set'].items():
                            setattr(dc, a, v)
                        if s['kind'] == 'NumericMetricDescriptor':
                            dc.Resolution = Decimal(1)
                            dc.MetricCategory = pm_types.MetricCategory.MEASUREMENT
                            dc.MetricAvailability = pm_types.MetricAvailability.CONTINUOUS
                            dc.Unit = pm_types.CodedValue('1234')
                        elif s['kind'] == 'AlertSignalDescriptor':
                            dc.Manifestation = pm_types.AlertSignalManifestation.AUD
                            dc.Latching = False
                        else:
                            dc.Kind = pm_types.AlertConditionKind.OTHER
                            dc.Priority = pm_types.AlertConditionPriority.NONE
                        dc.Type = pm_types.CodedValue('5678')
                        st = mdib.data_model.mk_state_container(dc) if s['with_state'] else None
                        tr.add_descriptor(dc, adjust_descriptor_version=s.get('adjust', True), state_container=st)
                        if s.get('rename_to'):
                            dc.Handle = s['rename_to']
                    elif s['do'] == 'add_ctx':
                        parent = mdib.descriptions.handle.get_one(s['parent'])
                        dc = mdib.data_model.mk_descriptor_container(getattr(q, s['kind']), handle=s['handle'], parent_descriptor=parent)
                        st = None
                        if s['state'] != 'none':
                            st = mdib.data_model.mk_state_container(dc)
                            st.Handle = s['state_handle'] if s['state'] == 'handle' else None
                        if s['via'] == 'add_descriptor':
                            tr.add_descriptor(dc, state_container=st)
                        else:
                            tr.add_descriptor(dc)
                            if st is not None:
                                tr.add_state(st)
                    elif s['do'] == 'add_ctx_state':
                        dc = tr.get_descriptor(s['handle'])
                        st = mdib.data_model.mk_state_container(dc)
                        st.Handle = s['state_handle']
                        tr.add_state(st)
                    elif s['do'] == 'remove':
                        tr.remove_descriptor(s['handle'])
                    elif s['do'] == 'add_state_existing':
                        dc = tr.actual_descriptor(s['handle'])
                        tr.add_state(mdib.data_model.mk_state_container(dc))
                    elif s['do'] == 'rehandle_state':
                        st = tr.get_state(s['handle'])
                        st.DescriptorHandle = s['to']
                    elif s['do'] == 'ctx_collision':
                        entity = mdib.entities.by_handle(s['descriptor'])
                        entity.descriptor = copy.deepcopy(entity.descriptor)
                        other = copy.deepcopy(mdib.context_states.handle.get_one(s['state_handle']))
                        other.DescriptorHandle = s['descriptor']
                        entity.states = {k: copy.deepcopy(v) for k, v in entity.states.items()}
                        entity.states[other.Handle] = other
                        handed_in(mdib, entity)
                        tr.write_entity(entity)
                if tx['abort']:
                    raise _Abort
                STAGE[0] = 'commit'
        return 'ok'
    except _Abort:
        return 'abort'
    except Exception as ex:  # noqa: BLE001
        LAST_ERROR[0] = traceback.format_exc()
        return ('err-in-commit ' if STAGE[0] == 'commit' else 'err ') + type(ex).__name__


LAST_ERROR = [None]
STAGE = [None]       # 'commit' once the body of a descriptor transaction is through: an exception after that comes from the commit


def late_write(container, tables, seen):
    """An application edits, in place, a value it was handed. `container` is not one of the stored objects, so this must
    never be visible in the MDIB. Every list-valued result of a key function of the tables is changed (deterministically)."""
    n = 0
    for t in tables:
        for idx in t._idx_defs.values():  # noqa: SLF001
            try:
                v = idx._get_key_func(container)  # noqa: SLF001
            except Exception:  # noqa: BLE001
                continue
            if isinstance(v, list) and id(v) not in seen:
                seen.add(id(v))
                if v:
                    v.pop()
                else:
                    v.append('verif.late')
                n += 1
    return n


def handed_in(mdib, entity):
    """The application hands an entity to write_entity / write_entities and keeps it: remember its containers (write_entity
    promises to store copies, so later edits of the application's objects must not be visible in the mdib)."""
    reg = mdib.__dict__.setdefault('_verif_handed_in', [])
    reg.append(entity.descriptor)
    if getattr(entity, 'is_multi_state', False):
        reg.extend(entity.states.values())
    elif getattr(entity, 'state', None) is not None:
        reg.append(entity.state)
    del reg[:-40]


def _tables(mdib):
    return (mdib.descriptions, mdib.states, mdib.context_states)


def _stored_ids(mdib):
    return {id(o) for t in _tables(mdib) for o in t.objects}


def provider_reads(mdib, ctx=None):
    """What happens between two transactions of a provider: serialisation for Get requests (reconstruct_*), the
    application reading entities and the last transaction result and editing what it got. None of it is a transaction,
    so none of it may change what the lookups / a scan return. Returns the number of late writes."""
    from sdc11073.xml_types import pm_qnames as q
    mdib.reconstruct_mdib_with_context_states()
    mdib.reconstruct_mdib()
    stored = _stored_ids(mdib)
    seen = set()
    n = 0
    handed = []
    tr = getattr(mdib, 'transaction', None)
    if tr is not None:
        for name in ('descr_updated', 'descr_created', 'descr_deleted'):
            handed.extend(getattr(tr, name, []) or [])
        try:
            handed.extend(tr.all_states())
        except Exception:  # noqa: BLE001
            pass
    for d in list(mdib.descriptions.NODETYPE.get(q.AlertConditionDescriptor) or [])[:6]:
        try:
            e = mdib.entities.by_handle(d.Handle)
        except KeyError:
            continue          # descriptor without state (left behind by a commit that failed half-way)
        if e is not None:
            handed.append(e.descriptor)
    for c in handed:
        if id(c) not in stored:
            n += late_write(c, _tables(mdib), seen)
    # ... and the entities it handed in through the entity interface and still holds
    m = 0
    for c in mdib.__dict__.get('_verif_handed_in', []):
        if id(c) not in stored:
            m += late_write(c, _tables(mdib), seen)
    if ctx is not None:
        ctx.count('provider-late-writes', n)
        ctx.count('provider-late-writes-into-handed-in-entities', m)
    return n + m


def provider_step(mdib, tx, ctx=None):
    """one transaction, the oracle, the reads in between, the oracle again -> (result, findings)"""
    res = run_tx(mdib, tx)
    probs = _mdib_findings(mdib, 'provider')
    if not probs:
        provider_reads(mdib, ctx)
        probs = [(sig, p + ' [after serialisation (reconstruct_mdib*) / late writes into handed-out copies]')
                 for sig, p in _mdib_findings(mdib, 'provider')]
    return res, probs


def _mdib_findings(mdib, side):
    """[(signature, message)] of the scan oracle on the three tables; signature names side, table and index"""
    return [(f'lookup-disagrees-with-scan:{side}:{where}', f'{side}:{msg}') for where, msg in mk_oracle.mdib_problem_items(mdib)]


def run_provider_part(ctx):
    import logging
    logging.disable(logging.CRITICAL)
    for fi, path in enumerate(MDIB_FILES):
        if not os.path.exists(path):
            continue
        for rep in range(ctx.n(2, 10)):
            rng = ctx.subrng('provider', os.path.basename(path), rep)
            mdib = _load_mdib(path)
            for sig, p in _mdib_findings(mdib, 'provider'):
                ctx.fail(sig, p, {'kind': 'provider', 'file': path, 'txs': []})
            counter = [0]
            script = []
            for _ in range(ctx.n(40, 150)):
                tx = gen_tx(rng, mdib, counter)
                script.append(tx)
                res, probs = provider_step(mdib, tx, ctx)
                ctx.count(f'provider-tx:{tx["tx"]}:{res}')
                if tx['tx'] == 'descriptor':
                    for s in tx['steps']:
                        ctx.count('provider-descr-step:' + s['do'] + (':' + ','.join(sorted(s.get('set', {}))) if s.get('set') else '') + (':renamed' if s.get('rename_to') else ''))
                ctx.case({'file': fi, 'rep': rep, 'n': len(script), 'tx': tx}, nontrivial=res == 'ok' or res.startswith('err-in-commit'),
                         sample={'file': os.path.basename(path), 'tx': tx, 'result': res, 'table_problems': [p for _, p in probs]} if (fi, rep, len(script)) == (0, 0, 3) else None)
                if probs:
                    ctx.fail(probs[0][0], '; '.join(p for _, p in probs[:4]), {'kind': 'provider', 'file': path, 'txs': list(script)})
                    break


def run_real_tables_part(ctx):
    """rejected insertion on the real table classes with real containers (duplicate handle)"""
    mdib = _load_mdib(MDIB_FILES[0])
    rng = ctx.subrng('real-tables')
    for name, table, objs in (('descriptions', mdib.descriptions, list(mdib.descriptions.objects)),
                              ('states', mdib.states, list(mdib.states.objects)),
                              ('context_states', mdib.context_states, list(mdib.context_states.objects))):
        for o in rng.sample(objs, min(len(objs), ctx.n(10, 60))):
            dup = o.mk_copy()
            before = mk_oracle.table_dump(table)
            try:
                (table.add_object if rng.random() < 0.5 else table.add_object_no_lock)(dup)
                res = 'ok'
            except Exception as ex:  # noqa: BLE001
                res = type(ex).__name__
            after = mk_oracle.table_dump(table)
            ctx.count(f'real-table-duplicate-add:{name}:{res}')
            ctx.case({'real-table': name, 'dup': getattr(o, 'Handle', None) or o.DescriptorHandle}, nontrivial=True)
            if res != 'ok' and before != after:
                ctx.fail('rejected-add-modifies-table', f'{name}.add_object(copy of {mk_oracle._label(o)}) raised {res} and changed the table',
                         {'kind': 'real-table', 'table': name, 'handle': getattr(o, 'Handle', None) or o.DescriptorHandle})
            probs = mk_oracle.table_problem_items(table)
            if probs:
                ctx.fail(f'lookup-disagrees-with-scan:provider:{name}.{probs[0][0]}', '; '.join(p for _, p in probs[:3]),
                         {'kind': 'real-table', 'table': name, 'handle': getattr(o, 'Handle', None) or o.DescriptorHandle})
            if res == 'ok':
                table.remove_object(dup)


OBSERVABLES = ['metrics_by_handle', 'waveform_by_handle', 'alert_by_handle', 'context_by_handle', 'component_by_handle',
               'operation_by_handle', 'new_descriptors_by_handle', 'updated_descriptors_by_handle',
               'deleted_descriptors_by_handle', 'deleted_states_by_handle', 'description_modifications']
NS_MSG = 'http://standards.ieee.org/downloads/11073/11073-10207-2017/message'
NS_DOM = 'http://standards.ieee.org/downloads/11073/11073-10207-2017/participant'
NS_XSI = 'http://www.w3.org/2001/XMLSchema-instance'


def craft_candidates(raw):
    """[(handle, 'Source' | 'ConditionSignaled' | None, modification type, ParentDescriptor)] of all descriptors in the parts of
    a DescriptionModificationReport"""
    from lxml import etree
    res = []
    root = etree.fromstring(raw)
    for part in root.iter(f'{{{NS_MSG}}}ReportPart'):
        mod = part.get('ModificationType', 'Upt')
        for d in part.findall(f'{{{NS_MSG}}}Descriptor'):
            typ = (d.get(f'{{{NS_XSI}}}type') or '').split(':')[-1]
            what = ('Source' if typ in ('AlertConditionDescriptor', 'LimitAlertConditionDescriptor')
                    else 'ConditionSignaled' if typ == 'AlertSignalDescriptor' else None)
            res.append((d.get('Handle'), what, mod, part.get('ParentDescriptor')))
    return res


def craft_report(raw, edits, retype=None):
    """Same report (same MdibVersion, same DescriptorVersion, same states); indexed members of the descriptors in `edits`
    (handle -> {'Source': [...]}, {'ConditionSignaled': h | None}, {'parent': h}) replaced; `retype` maps the ModificationType of
    the parts (e.g. {'Upt': 'Crt'}: a CREATE part for descriptors the receiver still stores)."""
    from lxml import etree
    root = etree.fromstring(raw)
    for part in root.iter(f'{{{NS_MSG}}}ReportPart'):
        mod = part.get('ModificationType', 'Upt')
        if retype and mod in retype:
            part.set('ModificationType', retype[mod])
        for d in part.findall(f'{{{NS_MSG}}}Descriptor'):
            e = edits.get(d.get('Handle'))
            if e and e.get('parent'):
                part.set('ParentDescriptor', e['parent'])
    for d in root.iter(f'{{{NS_MSG}}}Descriptor'):
        e = edits.get(d.get('Handle'))
        if not e:
            continue
        if 'Source' in e:
            old = d.findall(f'{{{NS_DOM}}}Source')
            if old:
                pos = list(d).index(old[0])
            else:   # schema order: Extension, Type, Source*, CauseInfo*
                pos = sum(1 for c in d if isinstance(c.tag, str) and etree.QName(c).localname in ('Extension', 'Type'))
            for c in old:
                d.remove(c)
            for k, h in enumerate(e['Source']):
                el = etree.Element(f'{{{NS_DOM}}}Source')
                el.text = h
                d.insert(pos + k, el)
        if 'ConditionSignaled' in e:
            if e['ConditionSignaled'] is None:
                d.attrib.pop('ConditionSignaled', None)
            else:
                d.set('ConditionSignaled', e['ConditionSignaled'])
    return etree.tostring(root, xml_declaration=True, encoding='UTF-8')


def gen_crafted(rng, mdib, raw):
    """'crafted' history items for the DescriptionModificationReport that was just delivered: what a lossy / duplicating
    transport or a provider that manages versions itself can make of it -
      * the same parts with changed indexed members and unchanged versions,
      * UPDATE parts arriving as CREATE parts (the receiver still stores the handles: missed deletion),
      * CREATE parts a second time, differing in parent / Source / ConditionSignaled,
      * DELETE parts a second time (handles are gone).
    Returns a list (possibly empty)."""
    from sdc11073.xml_types import pm_qnames as q
    cands = craft_candidates(raw)
    if not cands:
        return []
    d = mdib.descriptions
    metrics = [x.Handle for x in (d.NODETYPE.get(q.NumericMetricDescriptor) or [])]
    conds = [x.Handle for n in ('AlertConditionDescriptor', 'LimitAlertConditionDescriptor')
             for x in (d.NODETYPE.get(getattr(q, n)) or [])]

    def other_parent(parent):
        p = d.handle.get_one(parent, allow_none=True) if parent else None
        if p is None:
            return None
        sibs = sorted(x.Handle for x in (d.NODETYPE.get(p.NODETYPE) or []) if x.Handle != parent)
        return rng.choice(sibs) if sibs else None

    def edits_for(mods, with_parent):
        edits = {}
        for h, what, mod, parent in cands:
            if mod not in mods:
                continue
            e = {}
            if what == 'Source':
                src = rng.sample(metrics, min(len(metrics), rng.randint(0, 3)))
                if src and rng.random() < 0.2:
                    src.append(src[0])
                e['Source'] = src
            elif what == 'ConditionSignaled':
                e['ConditionSignaled'] = rng.choice([*conds, None])
            if with_parent and rng.random() < 0.6:
                np = other_parent(parent)
                if np:
                    e['parent'] = np
            if e:
                edits[h] = e
        return edits
    mods = {m for _, _, m, _ in cands}
    items = []
    if 'Upt' in mods:
        if rng.random() < 0.5:
            e = edits_for({'Upt'}, False)
            if e:
                items.append({'tx': 'crafted', 'edits': e})
        else:
            items.append({'tx': 'crafted', 'edits': edits_for({'Upt'}, True), 'retype': {'Upt': 'Crt'}})
    if 'Crt' in mods and rng.random() < 0.9:
        items.append({'tx': 'crafted', 'edits': edits_for({'Crt'}, True)})
    if 'Del' in mods and rng.random() < 0.7:
        items.append({'tx': 'crafted', 'edits': {}})
    return items


def run_consumer_part(ctx, script=None, path=None):
    """provider transactions -> reports -> consumer (harness/loopback.py); scan oracle on both sides after each report.
    Returns the list of (signature, detail) found (used by replay)."""
    try:
        import loopback as lb
    except Exception as ex:  # noqa: BLE001
        ctx.notes['consumer_part'] = f'skipped: harness/loopback.py not importable ({ex!r})'
        return []
    lb.quiet()
    found = []
    path = path or MDIB_FILES[0]
    prov = cons = None
    try:
        prov = lb.Provider(mdib_path=path)
        cons = lb.Consumer(prov)
        for name, mgr in prov.device._subscriptions_managers.items():  # noqa: SLF001
            for p in mk_oracle.table_problems(mgr._subscriptions, f'subscriptions:{name}'):  # noqa: SLF001
                ctx.fail('lookup-disagrees-with-scan:subscriptions', p, {'kind': 'subscriptions', 'when': 'after subscribe'})
            ctx.count('subscription-table-checked', 1)
            ctx.count('subscription-table-objects', len(mgr._subscriptions.objects))  # noqa: SLF001
        prov.take_wire()
        rng = ctx.subrng('consumer', os.path.basename(path))
        counter = [0]
        txs = []
        todo = list(script) if script is not None else [None] * ctx.n(60, 400)
        last_dmr = None         # the last DescriptionModificationReport that was delivered (template for crafted reports)

        # the application: observes everything the consumer mdib publishes and keeps what it receives
        from sdc11073 import observableproperties
        received = []

        def on_value(value):
            if value is not None:
                received.append(value)
        observed = [n for n in OBSERVABLES if hasattr(type(cons.mdib), n)]
        observableproperties.bind(cons.mdib, **{n: on_value for n in observed})
        ctx.count('consumer-observables-bound', len(observed))

        def consumer_late_writes():
            """the application edits (in place) the containers it received that are not the mdib's own objects"""
            containers = []
            for v in received:
                if isinstance(v, dict):
                    containers.extend(v.values())
                elif hasattr(v, 'ReportPart'):
                    for part in v.ReportPart:
                        containers.extend(getattr(part, 'Descriptor', []) or [])
                        containers.extend(getattr(part, 'State', []) or [])
            received.clear()
            stored = _stored_ids(cons.mdib)
            seen = set()
            return sum(late_write(c, _tables(cons.mdib), seen) for c in containers if id(c) not in stored)

        def deliver(w, tx, label):
            received.clear()
            try:
                cons.deliver(w)
                dres = 'ok'
            except Exception as ex:  # noqa: BLE001
                dres = 'err ' + type(ex).__name__
            ctx.count(f'consumer-report:{label}:{dres}')
            with cons.mdib.mdib_lock:
                cp = _mdib_findings(cons.mdib, 'consumer')
                if not cp:
                    n = consumer_late_writes()
                    ctx.count('consumer-late-writes', n)
                    if n:
                        cp = [(sig, p + ' [after the application edited the containers it had received from the observables]')
                              for sig, p in _mdib_findings(cons.mdib, 'consumer')]
            ctx.case({'loopback': os.path.basename(path), 'n': len(txs), 'report': label, 'v': w.mdib_version,
                      'crafted': tx.get('edits')}, nontrivial=True,
                     sample={'tx': tx, 'report': label, 'consumer_table_problems': [p for _, p in cp]}
                     if (len(txs) == 2 or (tx['tx'] == 'crafted' and not crafted_sampled)) else None)
            for sig, p in cp:
                if sig not in {s for s, _ in found}:     # stale entries stay for the rest of the run: report once
                    found.append((sig, p))
                    ctx.fail(sig, p, {'kind': 'loopback', 'file': path, 'txs': list(txs)})
        crafted_sampled = []
        while todo:
            item = todo.pop(0)
            if item is not None and item['tx'] == 'crafted':
                # a report with the same MdibVersion and the same DescriptorVersion, but changed indexed attributes
                txs.append(item)
                if last_dmr is None:
                    ctx.count('crafted-report:no-template')
                    continue
                w2 = dataclasses.replace(last_dmr, raw=craft_report(last_dmr.raw, item['edits'], item.get('retype')))
                deliver(w2, item, 'crafted-DescriptionModificationReport')
                crafted_sampled.append(1)
                kinds = sorted({m for _, _, m, _ in craft_candidates(w2.raw)})
                ctx.count('crafted-report-parts:' + '+'.join(kinds) + (':retyped' if item.get('retype') else ''))
                for e in item['edits'].values():
                    ctx.count('crafted-edit:' + ','.join(sorted(e)))
                deliver(last_dmr, {'tx': 'redeliver-original'}, 're-delivered-DescriptionModificationReport')   # back in sync
                continue
            with prov.mdib.mdib_lock:
                tx = item if item is not None else gen_tx(rng, prov.mdib, counter)
            txs.append(tx)
            res = run_tx(prov.mdib, tx)
            ctx.count(f'loopback-tx:{tx["tx"]}:{res}' + (':same-version' if tx.get('adjust') is False else ''))
            pp = _mdib_findings(prov.mdib, 'provider')
            if not pp:
                # between two transactions: Get requests of the consumer (serialisation of the provider mdib), local reads
                try:
                    k = len(txs) % 3
                    if k == 0:
                        cons.sdc.get_service_client.get_mdib()
                    elif k == 1:
                        cons.sdc.context_service_client.get_context_states()
                    else:
                        cons.sdc.get_service_client.get_md_state()
                    ctx.count(f'loopback-get-request:{("GetMdib", "GetContextStates", "GetMdState")[k]}:ok')
                except Exception as ex:  # noqa: BLE001
                    ctx.count(f'loopback-get-request:err {type(ex).__name__}')
                provider_reads(prov.mdib, ctx)
                pp = [(sig, p + ' [after Get request / serialisation / late writes into handed-out copies]')
                      for sig, p in _mdib_findings(prov.mdib, 'provider')]
            if pp:
                found.append((pp[0][0], '; '.join(p for _, p in pp[:4])))
                ctx.fail(found[-1][0], found[-1][1], {'kind': 'loopback', 'file': path, 'txs': list(txs)})
                break
            for w in prov.take_wire():
                deliver(w, tx, w.short)
                if w.short == 'DescriptionModificationReport':
                    last_dmr = w
                    if script is None and rng.random() < 0.9:
                        todo[0:0] = gen_crafted(rng, cons.mdib, w.raw)
        for name, mgr in prov.device._subscriptions_managers.items():  # noqa: SLF001
            for p in mk_oracle.table_problems(mgr._subscriptions, f'subscriptions:{name}'):  # noqa: SLF001
                ctx.fail('lookup-disagrees-with-scan:subscriptions', p, {'kind': 'subscriptions', 'when': 'end of run'})
        cons.stop()
        cons = None
        for name, mgr in prov.device._subscriptions_managers.items():  # noqa: SLF001
            for p in mk_oracle.table_problems(mgr._subscriptions, f'subscriptions:{name}'):  # noqa: SLF001
                ctx.fail('lookup-disagrees-with-scan:subscriptions', p, {'kind': 'subscriptions', 'when': 'after unsubscribe'})
            ctx.count('subscription-table-objects-after-unsubscribe', len(mgr._subscriptions.objects))  # noqa: SLF001
    finally:
        for x in (cons, prov):
            try:
                if x is not None:
                    x.stop()
            except Exception:  # noqa: BLE001
                pass
    return found


# ------------------------------------------------------------------------------------------------------------------

def oracle_selftest(ctx):
    """the scan oracle must stay silent on a consistent table and must see a stale index, a missing back reference,
    an empty list and an unlisted object (guards against an oracle that went blind)"""
    t, idxs = build_table([['m', 1], ['u', 1], ['n', 0]])
    a, b = Obj(1), Obj(2)
    a.a0, a.a1, a.a2 = 1, 1, [1, 2, 2]
    b.a0, b.a1, b.a2 = 1, 2, None
    t.add_object(a)
    t.add_object(b)

    def expect(what, needle):
        probs = mk_oracle.table_problems(t, 'selftest')
        if needle is None and probs:
            raise RuntimeError(f'oracle self-test ({what}): false alarm {probs}')
        if needle is not None and not any(needle in p for p in probs):
            raise RuntimeError(f'oracle self-test ({what}): {needle!r} not reported, got {probs}')
        ctx.count('oracle-selftest')
    expect('consistent', None)
    a.a0 = 2
    expect('stale multi index', 'selftest.i0[')
    t.update_object(a)
    expect('re-indexed', None)
    a.a2 = [2]
    expect('stale 1:n index', 'selftest.i2[')
    expect('stale back references', 'selftest._object_ids[')
    t.update_object(a)
    dict.__setitem__(idxs[0], 9, [])
    expect('empty list', 'empty list stored')
    dict.__delitem__(idxs[0], 9)
    saved = t._object_ids.pop(id(b))
    expect('missing back reference', 'no entry for stored object')
    t._object_ids[id(b)] = saved
    t._objects.discard(b)
    expect('listed but not stored', 'not stored')
    t._objects.add(b)
    expect('restored', None)


def run(ctx):
    oracle_selftest(ctx)
    corpus = os.path.join(core.VERIF, 'corpus', 'C11')
    if os.path.isdir(corpus):
        for f in sorted(os.listdir(corpus)):
            if f.endswith('.json'):
                obj = json.load(open(os.path.join(corpus, f)))
                case = obj.get('case', obj)
                if case.get('kind') == 'multikey':
                    lines, exp, impl = run_case_impl(case)
                    ctx.case(case, nontrivial=True)
                    for sig, detail in impl.failures:
                        ctx.fail(sig, detail, case)
                    if ctx.driver_ok:
                        out = drive(lines)
                        res = _new_res()
                        _compare(case, lines, exp, out, res, 'corpus case')
                        for what, c, m, i in res['disagreements']:
                            ctx.disagree(what, c, m, i)
    run_multikey_part(ctx)
    run_real_tables_part(ctx)
    run_provider_part(ctx)
    run_consumer_part(ctx)


def search(ctx):
    """deeper failing-input search with the oracles only (no model): more and longer random sequences"""
    for c in range(40):
        rng = ctx.subrng('search', c)
        for _ in range(500):
            case = gen_case(rng, 60)
            _, _, impl = run_case_impl(case)
            if impl.failures:
                sig, detail = impl.failures[0]
                ctx.fail(sig, detail, shrink(case, sig))
                return
    for cfg in EXH_CONFIGS:
        for length in range(1, 5):
            for seq in itertools.product(range(len(EXH_ALPHABET)), repeat=length):
                case = exh_case(cfg, seq, 0)
                _, _, impl = run_case_impl(case)
                if impl.failures:
                    sig, detail = impl.failures[0]
                    ctx.fail(sig, detail, shrink(case, sig))
                    return


def replay(ctx, obj):
    case = obj['case']
    kind = case.get('kind')
    sig = obj.get('signature')
    if kind == 'multikey':
        _, exp, impl = run_case_impl(case)
        for op, e in zip(case['ops'], exp[1:]):
            print(op, '->', e)
        for s, d in impl.failures:
            print('ORACLE', s, d)
        return any(s == sig for s, _ in impl.failures)
    if kind == 'provider':
        mdib = _load_mdib(case['file'])
        probs = []
        for tx in case['txs']:
            res, probs = provider_step(mdib, tx)
            print(tx, '->', res)
            if probs:
                break
        print('\n'.join(p for _, p in probs))
        return bool(probs)
    if kind == 'real-table':
        mdib = _load_mdib(MDIB_FILES[0])
        table = getattr(mdib, case['table'])
        idx = table.handle if case['table'] != 'states' else table.descriptor_handle
        o = idx.get_one(case['handle'])
        before = mk_oracle.table_dump(table)
        try:
            table.add_object(o.mk_copy())
            return False
        except Exception as ex:  # noqa: BLE001
            print('raised', type(ex).__name__)
        return before != mk_oracle.table_dump(table) or bool(mk_oracle.table_problems(table))
    if kind == 'loopback':
        found = run_consumer_part(ctx, script=case['txs'], path=case['file'])
        for s, d in found:
            print('ORACLE', s, d)
        return any(s == sig for s, _ in found)
    return False
