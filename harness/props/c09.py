"""C09 — operation invocations follow the BICEPS invocation-state protocol end to end.

Tie:
* translator: queue capacity, deque maxlen, state tables (by behaviour of a real OperationsManager) and the dynamic
  lock/access trace of `generate_transaction_id` -> Generated/Invocation.lean;
* correspondence (all in-process, single controlling thread, real classes):
  - id lock: forced interleavings of real threads inside the real `generate_transaction_id` (traced lock + traced
    attribute, cooperative scheduler) vs. the LTS of the model; all schedules of 2 threads are enumerated;
  - provider: a real SdcProvider (SomeDevice, not started: no sockets) with its real SetService / ContextService /
    ScoOperationsRegistry / _OperationsWorker objects; requests are made with the real consumer service clients through a
    loop-back soap client into `MessageConverterMiddleware.do_post`; the worker loop (`_OperationsWorker.run`) is executed
    one queue item at a time in the controlling thread; handlers are programmed per request (final state / raise) and may
    run further events (nested requests, worker steps of other SCOs) while they execute;
  - consumer: real `OperationsManager` objects fed with the real response and OperationInvokedReport messages in every
    position (exhaustive over words x response position x burst place x burst size) and in random scripts.
* oracle (independent of the model): ids unique and increasing; per transaction the states of response+reports are a legal
  word; raising handler => Fail + error info; unknown operation => Fail, no report, MDIB unchanged; every future completes
  exactly once with the final state and all parts of its transaction in order.
"""
from __future__ import annotations

import gc
import logging
import os
import queue
import sys
import threading
import time
import types
from decimal import Decimal
from unittest import mock

import core

READY = True
MANIFEST = dict(
    technique='Lean 4 theorems over a transcribed model of the invocation rendez-vous (interleaving semantics of the id '
              'lock for any number of threads and schedules; induction over arbitrary event lists on provider and '
              'consumer); translator for constants/state tables/lock trace; correspondence with the real provider and '
              'consumer classes incl. forced thread interleavings and exhaustive response/report orderings',
    text='Theorems (Properties/C09.lean): ids leave generate_transaction_id strictly increasing, gap-free, unique and in '
         'real-time order for every interleaving of any number of threads (and collide without the lock); for every event '
         'list (requests dispatched in any order, direct/queued, any SCO, worker steps) the messages about one transaction '
         'are exactly one of four complete exchanges or a prefix of them, hence a legal word Wait Start F | F with one '
         'response and one final state; raising handler => last report Fail with error info; unknown operation => Fail, '
         'no report, no handler run; full queue => Fail; on the consumer, for every event list around the response (any '
         'position among the parts, foreign parts/responses/dropped futures in between, window within the deque bound) the '
         'future completes exactly once with the final state and all parts in order. Tied by a translator (capacity, '
         'maxlen, state tables, lock trace) and by correspondence with the real classes.',
    note='Trusted: Lean kernel; harness/translator; queue.Queue FIFO and Future set-once semantics; handlers return a '
         'final state (ExecuteResult contract); reports of one subscription arrive in the order sent. A Fail/Cnclld '
         'response completes the future at once: report parts arriving later cannot be part of that result (proved as '
         'stated, theorem future_completes_once_immediate). Three defects repaired in /repo (see known_findings/C09.json).',
    ref='5 C09')
DRIVERS = ['drv_c09']
RULE = ('one case = one forced schedule of the id lock / one provider script (tree of requests, worker steps, deliveries) '
        '/ one consumer event list; distinct by canonical event list; non-trivial = at least one transaction completed '
        '(provider), one future completed (consumer), two threads interleaved (lock)')
TRUSTED = ['queue.Queue is FIFO and raises queue.Full when maxsize entries are queued', 'concurrent.futures.Future: result set once',
           'handlers return a final state (ExecuteResult contract); a non-final return value is outside the theorems',
           'notifications of one subscription are delivered in the order they were sent',
           'the atomicity of single attribute reads/writes under the GIL (granularity of the lock LTS)']
ASSUMPTIONS = ['provider constructed but not started (no sockets, no threads); worker loop executed in the controlling thread',
               'loop-back soap client calls MessageConverterMiddleware.do_post directly',
               'the put timeout of the operation queue is shortened from 1 s to 1 ms']

REPO = os.environ.get('VERIF_REPO', '/repo')
MDIB_FILE = REPO + '/tests/mdib_tns.xml'
CTOR = {'Wait': 'wait', 'Start': 'start', 'Cnclld': 'cnclld', 'CnclldMan': 'cnclldMan', 'Fin': 'fin', 'FinMod': 'finMod',
        'Fail': 'fail'}
FINALS = ['Cnclld', 'CnclldMan', 'Fin', 'FinMod', 'Fail']
NONFINAL = ['Wait', 'Start']
# what a raising handler says: the text is arbitrary data (it ends up in log calls and in InvocationErrorMessage)
RAISE_TEXTS = ['verif: handler raises', 'verif: 100% of {budget} used', 'verif: %d items %s %(x)s', 'verif: {0} {1} {2} {',
               'verif: }{ <&> "quoted" \'single\'', 'verif: 50%']
_env = {}


def env():
    """lazy imports of the implementation (keeps `import props.c09` cheap for mkmanifest)"""
    if _env:
        return types.SimpleNamespace(**_env)
    if REPO not in sys.path:
        sys.path.insert(0, REPO)
    import sdc11073.definitions_sdc  # noqa: F401  (registers the protocol definitions)
    from sdc11073 import observableproperties
    from sdc11073.consumer import operations as c_ops
    from sdc11073.consumer.serviceclients.contextservice import ContextServiceClient
    from sdc11073.consumer.serviceclients.setservice import SetServiceClient
    from sdc11073.definitions_sdc import SdcV1Definitions
    from sdc11073.provider import operations as p_ops
    from sdc11073.provider import provider_components_sync_factory, sco
    from sdc11073.pysoap.msgfactory import MessageFactory
    from sdc11073.pysoap.msgreader import MessageReader
    from sdc11073.pysoap.soapclient import HTTPReturnCodeError
    from sdc11073.xml_types import msg_types, pm_types
    from sdc11073.xml_types.addressing_types import HeaderInformationBlock
    from tests import mockstuff
    logging.disable(logging.CRITICAL)
    _env.update(locals())
    return types.SimpleNamespace(**_env)


def _case(ctx, canon, nontrivial=True, sample=None):
    """ctx.case without the automatic sample (the evidence samples are chosen explicitly)"""
    saved = ctx.max_samples
    if sample is None:
        ctx.max_samples = 0
    ctx.case(canon, nontrivial, sample)
    ctx.max_samples = saved


# ------------------------------------------------------------------------------------------------ id lock (LTS)

class _Coop:
    """Cooperative scheduler: traced threads stop before every traced action and run only when granted."""

    def __init__(self):
        self.cv = threading.Condition()
        self.pending = {}      # tid -> action the thread is about to execute
        self.granted = None
        self.finished = set()
        self.tls = threading.local()

    def point(self, action):
        tid = getattr(self.tls, 'tid', None)
        if tid is None:
            return
        with self.cv:
            self.pending[tid] = action
            self.cv.notify_all()
            while self.granted != tid:
                if not self.cv.wait(10):
                    raise RuntimeError('scheduler dead-lock')
            self.granted = None
            del self.pending[tid]

    def wait_settled(self, tid):
        with self.cv:
            while tid not in self.pending and tid not in self.finished:
                if not self.cv.wait(10):
                    raise RuntimeError('thread did not arrive at a yield point')

    def grant(self, tid):
        with self.cv:
            self.granted = tid
            self.cv.notify_all()
        with self.cv:
            while self.granted == tid or (tid not in self.pending and tid not in self.finished):
                if not self.cv.wait(10):
                    raise RuntimeError('granted thread did not come back')


def _stop_device(dev):
    """stop the helper threads a constructed (never started) provider owns: housekeeping of the subscription managers,
    worker loops of the role providers"""
    for mgr in dev._subscriptions_managers.values():
        try:
            mgr.stop_all(False)
        except Exception:  # noqa: BLE001
            pass
    for role in dev.product_lookup.values():
        try:
            role.stop()
        except Exception:  # noqa: BLE001
            pass


class IdLockRig:
    """real provider object whose `_transaction_id_lock` and `_transaction_id` are traced"""

    def __init__(self, dev=None):
        e = env()
        self.dev = dev or e.mockstuff.SomeDevice.from_mdib_file(e.mockstuff.MockWsDiscovery('127.0.0.1'), None, MDIB_FILE,
                                                               components=e.provider_components_sync_factory())
        self.coop = None
        self.trace = []          # (tid, action[, value])
        rig = self
        real_lock = self.dev._transaction_id_lock
        self.real_lock = real_lock

        class TracedLock:
            def acquire(self, blocking=True, timeout=-1):
                rig._point('acq')
                if not real_lock.acquire(False):
                    raise RuntimeError('granted a blocked acquire')  # the controller never grants it
                rig._log('acq')
                return True

            def release(self):
                rig._point('rel')
                rig._log('rel')
                real_lock.release()

            def __enter__(self):
                return self.acquire()

            def __exit__(self, *a):
                self.release()

            def locked(self):
                return real_lock.locked()

        def getter(obj):
            rig._point('get')
            v = obj.__dict__['_transaction_id']
            rig._log('get', v)
            return v

        def setter(obj, v):
            rig._point('set')
            rig._log('set', v)
            obj.__dict__['_transaction_id'] = v

        traced_cls = type('Traced' + type(self.dev).__name__, (type(self.dev),), {'_transaction_id': property(getter, setter)})
        self.dev.__class__ = traced_cls
        self.dev._transaction_id_lock = TracedLock()

    def close(self):
        _stop_device(self.dev)

    def _tid(self):
        return getattr(self.coop.tls, 'tid', None) if self.coop else None

    def _point(self, action):
        if self.coop is not None:
            self.coop.point(action)

    def _log(self, action, value=None):
        self.trace.append((self._tid(), action, value))

    def program(self):
        """single-threaded run -> the action list of generate_transaction_id in model terms"""
        self.coop = None
        self.trace = []
        before = self.dev.__dict__['_transaction_id']
        ret = self.dev.generate_transaction_id()
        acts = []
        last_get = None
        gets = [i for i, t in enumerate(self.trace) if t[1] == 'get']
        for i, (_, a, v) in enumerate(self.trace):
            if a == 'acq':
                acts.append('acq')
            elif a == 'rel':
                acts.append('rel')
            elif a == 'get':
                # the last read is the one whose value is returned; earlier reads feed the increment
                acts.append('ret' if i == gets[-1] and v == ret else 'load')
                last_get = v
            elif a == 'set':
                acts.append('store' if last_get is not None and v == last_get + 1 else 'store?')
        if ret != before + 1:
            acts.append('ret?')
        return acts

    def forced(self, nthreads, schedule):
        """run `nthreads` real threads through generate_transaction_id under the schedule; returns (granted schedule,
        issued [(thread, id)], results per thread, counter)"""
        self.coop = coop = _Coop()
        self.trace = []
        results = {}
        c0 = self.dev.__dict__['_transaction_id']

        def body(tid):
            coop.tls.tid = tid
            try:
                results[tid] = self.dev.generate_transaction_id()
            except Exception as ex:  # noqa: BLE001
                results[tid] = repr(ex)
            with coop.cv:
                coop.finished.add(tid)
                coop.cv.notify_all()

        threads = [threading.Thread(target=body, args=(i,), daemon=True) for i in range(nthreads)]
        for t in threads:
            t.start()
        for i in range(nthreads):
            coop.wait_settled(i)
        granted = []

        def enabled(tid):
            if tid in coop.finished or tid not in coop.pending:
                return False
            if coop.pending[tid] == 'acq' and self.real_lock.locked():
                return False
            return True
        for tid in schedule:
            if tid < nthreads and enabled(tid):
                coop.grant(tid)
                granted.append(tid)
        # drain: let everybody finish (round robin over enabled threads)
        progress = True
        while len(coop.finished) < nthreads and progress:
            progress = False
            for tid in range(nthreads):
                if enabled(tid):
                    coop.grant(tid)
                    granted.append(tid)
                    progress = True
        for t in threads:
            t.join(5)
        self.coop = None
        # the id a thread returns is the value of its last read
        issued = []
        lastget = {}
        for tid, a, v in self.trace:
            if a == 'get':
                lastget[tid] = v
        order = []
        seen_last = {}
        for idx, (tid, a, v) in enumerate(self.trace):
            if a == 'get':
                seen_last[tid] = idx
        for idx, (tid, a, v) in enumerate(self.trace):
            if a == 'get' and seen_last[tid] == idx:
                order.append((tid, v))
        issued = order
        return c0, granted, issued, [results.get(i) for i in range(nthreads)], self.dev.__dict__['_transaction_id']


def _prog_letter(acts):
    if acts == ['acq', 'load', 'store', 'ret', 'rel']:
        return 'L'
    if acts == ['load', 'store', 'ret']:
        return 'U'
    if acts == ['acq', 'load', 'store', 'rel', 'ret']:
        return 'R'
    return None


def run_idlock(ctx):
    rig = IdLockRig()
    acts = rig.program()
    letter = _prog_letter(acts)
    ctx.notes['id_lock_trace'] = acts
    cases = []
    rng = ctx.subrng('lts')
    import itertools
    scheds = []
    # the forced schedules (and the oracle on them) do not depend on the trace being one the model knows
    n_act = max(len(acts), 3)
    # all schedules of two threads (every list over {0,1} of the length of both programs)
    full = list(itertools.product((0, 1), repeat=2 * min(n_act, 5)))
    if ctx.tier == 'quick' and letter == 'L':
        full = [s for i, s in enumerate(full) if i % 4 == ctx.seed % 4]
    scheds += [(2, list(s)) for s in full]
    # one caller passes the whole function between any two actions of another one
    scheds += [(2, [0] * k + [1] * n_act + [0] * n_act) for k in range(n_act + 1)]
    scheds += [(3, [0] * k + [1] * n_act + [2] * n_act + [0] * n_act) for k in range(n_act + 1)]
    for _ in range(ctx.n(60, 1500)):
        n = rng.randint(2, 6)
        scheds.append((n, [rng.randrange(n) for _ in range(rng.randint(0, n * n_act + 4))]))
    lines = []
    for n, sched in scheds:
        c0, granted, issued, res, counter = rig.forced(n, sched)
        case = {'threads': n, 'schedule': sched, 'granted': granted}
        ids = [r for r in res if isinstance(r, int)]
        bad = None
        if len(ids) != n:
            bad = f'{n - len(ids)} of {n} requests got no id: {res}'
        elif len(set(ids)) != len(ids):
            bad = f'duplicate transaction ids {sorted(ids)}'
        elif [v for _, v in issued] != sorted(v for _, v in issued) or any(v <= c0 for v in ids):
            bad = f'ids not increasing in the order they were issued: {issued} (counter before: {c0})'
        if bad:
            ctx.fail('tx-id:not-unique-increasing', bad, {**case, 'impl_ids': res, 'issued': issued})
        lines.append(f"lts {c0} {letter or 'L'} {n} " + ' '.join(map(str, granted)))
        impl = 'issued [' + ' '.join(f'{t}:{v}' for t, v in issued) + '] res [' + ' '.join('-' if r is None else str(r) for r in res) + f'] counter {counter}'
        cases.append((case, impl))
        _case(ctx, {'lts': [n, granted]}, nontrivial=len(set(granted)) > 1,
              sample={'id-lock: threads': n, 'granted schedule': granted, 'ids per thread': res} if len(cases) == 300 else None)
        ctx.count('lts:threads=%d' % n)
    if letter is None:
        ctx.disagree('generate_transaction_id trace is neither the locked nor the unlocked program of the model',
                     {'trace': acts}, 'acq load store ret rel', ' '.join(acts))
    elif ctx.driver_ok and lines:
        out = ctx.driver('drv_c09', lines)
        for (case, impl), o in zip(cases, out):
            if o != impl:
                ctx.disagree('id lock LTS == forced interleaving of generate_transaction_id', case, o, impl)
    rig.close()
    return acts


# ------------------------------------------------------------------------------------------------ provider + consumers rig

class CountingFuture:
    """installed as `sdc11073.consumer.operations.Future`: counts set_result calls"""
    _cls = None

    @classmethod
    def make(cls):
        if cls._cls is None:
            from concurrent.futures import Future

            class VerifFuture(Future):
                def __init__(self):
                    super().__init__()
                    self.verif_set_calls = 0

                def set_result(self, result):
                    self.verif_set_calls += 1
                    return super().set_result(result)
            cls._cls = VerifFuture
        return cls._cls


class HookLock:
    """wraps `OperationsManager._transactions_lock`: runs a hook right before the lock is acquired (a yield point of the
    forced schedules: the only places where another thread can get in are outside the critical sections)"""

    def __init__(self, real, hook):
        self.real = real
        self.hook = hook
        self.busy = False

    def __enter__(self):
        if not self.busy:
            self.busy = True
            try:
                self.hook()
            finally:
                self.busy = False
        return self.real.__enter__()

    def __exit__(self, *a):
        return self.real.__exit__(*a)

    def acquire(self, *a, **k):
        return self.real.acquire(*a, **k)

    def release(self):
        return self.real.release()


class Loopback:
    """soap client of one consumer: hands the request to the provider's message converter in-process"""

    def __init__(self, rig, consumer):
        self.rig = rig
        self.consumer = consumer

    def post_message_to(self, path, created_message, msg='', request_manipulator=None, validate=True):  # noqa: ARG002
        return self.rig._post(self.consumer, path, created_message)


class Consumer:
    def __init__(self, rig, idx):
        e = env()
        self.idx = idx
        lg = logging.getLogger('verif.c09')
        self.reader = e.MessageReader(e.SdcV1Definitions, [], lg, validate=True)
        self.factory = e.MessageFactory(e.SdcV1Definitions, [], lg, validate=True)
        self.mgr = e.c_ops.OperationsManager(self.reader, f'c{idx}')
        self.lock_events = []
        self.mgr._transactions_lock = HookLock(self.mgr._transactions_lock, lambda: rig.run_lock_events(self))
        self.outbox = []           # report bytes not yet delivered (provider order)
        self.lines = []            # model lines
        self.impl = []             # implementation answers per line
        self.futures = {}          # fut id -> future (strong refs unless dropped)
        self.reported = set()
        fake = types.SimpleNamespace(sdc_definitions=e.SdcV1Definitions, msg_factory=self.factory, log_prefix=f'c{idx}')
        loop = Loopback(rig, self)
        dev = rig.dev
        set_hosted = dev.hosted_services.dpws_hosted_services['Set'].mk_dpws_hosted_instance()
        ctx_hosted = dev.hosted_services.dpws_hosted_services['StateEvent'].mk_dpws_hosted_instance()
        self.set_client = e.SetServiceClient(fake, loop, set_hosted, e.SetServiceClient.port_type_name)
        self.ctx_client = e.ContextServiceClient(fake, loop, ctx_hosted, e.ContextServiceClient.port_type_name)
        self.set_client.set_operations_manager(self.mgr)
        self.ctx_client.set_operations_manager(self.mgr)

    # ---- consumer-model bookkeeping
    def newly_done(self):
        res = []
        for fid, fut in sorted(self.futures.items()):
            if fid not in self.reported and fut.done():
                self.reported.add(fid)
                r = fut.result()
                from_report = r.InvocationInfo is not r.set_response.InvocationInfo
                res.append(f"done {fid} {r.InvocationInfo.InvocationState.value} {1 if from_report else 0} "
                           f"[{' '.join(str(p._verif_uid) for p in r.report_parts)}]")
        return ';'.join(res) if res else '-'


class Rig:
    """real provider (not started) + real consumer-side objects, driven by one thread"""

    def __init__(self, n_consumers=2):
        e = env()
        self.e = e
        from urllib.parse import SplitResult
        self.dev = dev = e.mockstuff.SomeDevice.from_mdib_file(e.mockstuff.MockWsDiscovery('127.0.0.1'), None, MDIB_FILE,
                                                              components=e.provider_components_sync_factory())
        dev.base_urls = [SplitResult('http', '127.0.0.1:9', dev.path_prefix, query=None, fragment=None)]
        self.scos = list(dev._sco_operations_registries.values())
        # two more operation kinds, registered in the SCO that has none
        empty = [s for s in self.scos if not s._registered_operations]
        target_sco = empty[0] if empty else self.scos[0]
        target_sco.register_operation(e.p_ops.SetMetricStateOperation('verif.setmetric', 'numeric.ch0.vmd1', self._handler))
        target_sco.register_operation(e.p_ops.SetComponentStateOperation('verif.setcomp', 'mds0', self._handler))
        self.ops = {}
        self.clock_offset = 0.0        # virtual clock of provider/operations.py (invocation timeouts)
        self.timeout_raises = False    # what the timeout handlers of the operations do
        self.timeouts_fired = 0
        self.dead = set()              # SCOs whose worker thread terminated
        for si, sco in enumerate(self.scos):
            for k, (h, op) in enumerate(sorted(sco._registered_operations.items())):
                op._operation_handler = self._handler
                self.ops[h] = (si, op)
                if k % 2 == 0:
                    # every second operation has an InvocationEffectiveTimeout and a timeout handler
                    op._operation_entity.descriptor.InvocationEffectiveTimeout = 5.0
                    op._timeout_handler = self._timeout_handler
        # workers: the real threads created and started by the real start_worker; every `get` of the worker loop waits
        # for a grant of the controlling thread, so ONE `run()` invocation lives through the whole script
        self.workers = []
        self.gates = []
        self.errors = []
        self.busy = set()
        self._tick_ctx = {}
        rig = self
        real_start = threading.Thread.start

        def start(worker):
            rig._gate_queue(len(rig.workers), worker._operations_queue)
            rig.workers.append(worker)
            real_start(worker)
        with mock.patch.object(e.sco._OperationsWorker, 'start', start):
            for sco in self.scos:
                sco.start_worker()
        self.cap = self.workers[0]._operations_queue.maxsize
        self.msgs = []          # provider log: ('resp'|'report'|'fault', tx, state, err, errmsg?) in emission order
        self.plines = []        # provider model lines
        self.pimpl = []         # implementation answers per provider line
        self.registered = set(self.ops)      # operations currently registered in their SCO (changes at run time)
        self.inflight = []      # model view: ids that have been generated and not yet dispatched
        self.id_log = []        # one slot per request in the order the requests reached the provider: the id it got
        self.unhooked = 0       # requests whose id did not come from SdcProvider.generate_transaction_id
        self.calls = {}         # message id -> call spec
        self.stack = []
        self.executions = 0
        self.exec_log = []
        self.uid = 0
        self.events_run = 0
        self._on_sent_ref = self._on_sent
        for mgr in dev._subscriptions_managers.values():
            e.observableproperties.bind(mgr, sent_to_subscribers=self._on_sent_ref)
        # id generation hook (instance attribute wrapper; the real method runs inside)
        real_gen = dev.generate_transaction_id

        def gen():
            tx = real_gen()
            self._after_id(tx)
            return tx
        dev.generate_transaction_id = gen
        self.consumers = [Consumer(self, i) for i in range(n_consumers)]
        self.future_cls = CountingFuture.make()
        rig_ = self
        fake_time = types.SimpleNamespace(time=lambda: time.time() + rig_.clock_offset)
        self.patches = [mock.patch.object(e.p_ops, 'time', fake_time),
                        mock.patch.object(e.c_ops, 'Future', self.future_cls),
                        mock.patch.object(e.msg_types.OperationInvokedReportPart, 'update_from_node', self._stamping_update())]
        for p in self.patches:
            p.start()
        self.base_version = dev.mdib.mdib_version

    def close(self):
        for g in self.gates:
            with g.cv:
                g.stop = True
                g.cv.notify_all()
        for w in self.workers:
            w.join(2)
        for p in self.patches:
            p.stop()
        _stop_device(self.dev)

    def _stamping_update(self):
        rig = self
        orig = self.e.msg_types.OperationInvokedReportPart.update_from_node

        def update_from_node(part, node):
            orig(part, node)
            rig.uid += 1
            part._verif_uid = rig.uid
        return update_from_node

    # ---- worker stepping
    def _gate_queue(self, si, q):
        rig = self
        orig_get, orig_put = q.get, q.put
        g = types.SimpleNamespace(cv=threading.Condition(), waiting=False, granted=False, stop=False, arrivals=0)
        self.gates.append(g)

        def get(block=True, timeout=None):  # noqa: ARG001
            with g.cv:
                g.waiting = True
                g.arrivals += 1
                g.cv.notify_all()
                while not g.granted and not g.stop:
                    g.cv.wait(1)
                g.waiting = False
                if g.stop:
                    return 'stop_sco'
                g.granted = False
            item = orig_get(block=False)    # queue.Empty propagates to the worker loop as in the real get(timeout)
            rig._on_pop(si, item)
            return item

        def put(item, block=True, timeout=None):
            return orig_put(item, block=block, timeout=None if timeout is None else min(timeout, 0.001))
        q.get, q.put = get, put

    def tick(self, si):
        """one iteration of the real worker loop of SCO `si`, executed by the worker thread while the calling thread waits
        (an empty queue is an idle iteration); a worker that is inside a handler cannot start another iteration"""
        if si >= len(self.workers) or si in self.busy:
            return
        if si in self.dead or not self.workers[si].is_alive():
            self.dead.add(si)      # nothing will ever take a request from this queue again
            return
        g = self.gates[si]
        self.busy.add(si)
        self._tick_ctx[si] = None
        line = len(self.plines)
        self.plines.append(f'tick {si}')
        self.pimpl.append(None)
        try:
            with g.cv:
                t_end = time.time() + 20
                while not g.waiting and si not in self.dead:
                    if not g.cv.wait(0.2):
                        if not self.workers[si].is_alive():
                            self.dead.add(si)
                        elif time.time() > t_end:
                            raise RuntimeError('worker thread is not waiting at its queue')
                n = g.arrivals
                g.granted = True
                g.cv.notify_all()
                t_end = time.time() + 60
                while g.arrivals == n:
                    if not g.cv.wait(0.2):
                        if not self.workers[si].is_alive():
                            self.dead.add(si)
                            break
                        if time.time() > t_end:
                            raise RuntimeError('worker thread did not come back to its queue')
        finally:
            self.busy.discard(si)
        popped = self._tick_ctx[si]
        if popped is None:
            self.pimpl[line] = 'idle'
        else:
            self.pimpl[line] = self._fmt([m for m in self.msgs if m[1] == popped and m[0] == 'report'])

    def _on_pop(self, si, item):
        self._tick_ctx[si] = item[0]

    def _timeout_handler(self, operation):  # noqa: ARG002
        self.timeouts_fired += 1
        if self.timeout_raises:
            raise RuntimeError('verif: timeout handler raises (100% {application} error)')

    # ---- handler of every operation
    def _handler(self, params):
        msgid = params.soap_message.header_info_block.MessageID
        spec = self.calls[msgid]
        self.executions += 1
        self.exec_log.append(spec['id'])
        # a real MDIB change, so that "MDIB untouched" is observable
        with self.dev.mdib.metric_state_transaction() as mgr:
            st = mgr.get_state('numeric.ch0.vmd1')
            if st.MetricValue is None:
                st.mk_metric_value()
            st.MetricValue.Value = Decimal(st.MetricValue.Value or 0) + 1
        try:
            self.run_events(spec.get('in_handler', ()))
        except BaseException as ex:  # noqa: BLE001
            self.errors.append(repr(ex))
            raise
        out = spec['outcome']
        if out == 'raise':
            raise ValueError(RAISE_TEXTS[spec['id'] % len(RAISE_TEXTS)])
        return self.e.p_ops.ExecuteResult(params.operation_instance.operation_target_handle, self.e.msg_types.InvocationState(out))

    # ---- provider side capture
    def _on_sent(self, value):
        action, _vg, body = value
        if not action.endswith('OperationInvokedReport'):
            return
        e = self.e
        rep = e.msg_types.OperationInvokedReport.from_node(body)
        for part in rep.ReportPart:
            inf = part.InvocationInfo
            self.msgs.append(('report', inf.TransactionId, inf.InvocationState.value,
                              1 if (inf.InvocationError is not None and len(inf.InvocationErrorMessage) > 0
                                    and any(t.text for t in inf.InvocationErrorMessage)) else 0))
        hdr = e.HeaderInformationBlock(action=action, addr_to='http://127.0.0.1:9/notify')
        data = self.dev.msg_factory.mk_soap_message_etree_payload(hdr, body).serialize()
        for c in self.consumers:
            c.outbox.append(data)

    def _after_id(self, tx):
        ctxs = self.stack[-1]
        ctxs['tx'] = tx
        self.id_log[ctxs['slot']] = tx
        self._log_recv(ctxs['spec'], tx)
        self.run_events(ctxs['spec'].get('after_id', ()))

    def _log_recv(self, spec, tx):
        h = spec['op']
        if spec.get('known', h in self.ops):
            si, op = self.ops[h]
            sco, mode = str(si), ('q' if op.delayed_processing else 'd')
        else:
            sco, mode = '-', 'q'
        self.plines.append(f"recv {sco} {mode} {spec['outcome']}")
        self.pimpl.append(f'ok {tx}')
        self.inflight.append(tx)

    def _post(self, consumer, path, created_message):
        e = self.e
        spec = self._cur_spec
        msgid = created_message.p_msg.header_info_block.MessageID
        self.calls[msgid] = spec
        data = created_message.serialize()
        frame = {'spec': spec, 'tx': None, 'slot': len(self.id_log)}
        self.id_log.append(None)
        self.stack.append(frame)
        nmsg = len(self.msgs)
        status, reason, xml = self.dev._msg_converter.do_post({}, path, 'verif', data)
        self.stack.pop()
        tx = frame['tx']
        md = consumer.reader.read_received_message(xml)
        is_fault = md.action.endswith('/fault')
        if tx is None and not is_fault:
            # the id was not taken from SdcProvider.generate_transaction_id: read it from the response
            tx = e.msg_types.AbstractSetResponse.from_node(md.p_msg.msg_node).InvocationInfo.TransactionId
            self.unhooked += 1
            self.id_log[frame['slot']] = tx
            self._log_recv(spec, tx)
        if tx is not None:
            k = self.inflight.index(tx)
            self.inflight.pop(k)
            self.plines.append(f'handle {k}')
            if is_fault:
                self.msgs.append(('fault', tx, f'{status}', 0))
                self.pimpl.append('fault')
            else:
                resp = e.msg_types.AbstractSetResponse.from_node(md.p_msg.msg_node)
                inf = resp.InvocationInfo
                err = 1 if (inf.InvocationError is not None and any(t.text for t in inf.InvocationErrorMessage)) else 0
                if inf.TransactionId != tx:
                    self.msgs.append(('resp-wrong-id', tx, str(inf.TransactionId), 0))
                self.msgs.append(('resp', tx, inf.InvocationState.value, err))
                mine = [m for m in self.msgs[nmsg:] if m[1] == tx]
                self.pimpl.append(self._fmt(mine))
        spec['tx'] = tx
        spec['fault'] = is_fault
        # what happens between the provider's answer and the consumer processing it
        self.run_events(spec.get('before_response', ()))
        if is_fault:
            raise e.HTTPReturnCodeError(status, reason, None)
        # events that happen exactly when call_operation is about to enter its critical section
        consumer.lock_events = list(spec.get('at_lock', ()))
        return md

    @staticmethod
    def _fmt(msgs):
        return ';'.join(f'{k} {tx} {st} {err}' for k, tx, st, err in msgs) if msgs else '-'

    # ---- requests through the real service clients
    def call(self, spec):
        e = self.e
        c = self.consumers[spec.get('consumer', 0)]
        h = spec['op']
        kind = spec.get('kind') or self._kind(h)
        self._cur_spec = spec
        spec['known'] = h in self.registered      # registered when the request arrives
        nested = any(spec.get(k) for k in ('after_id', 'in_handler', 'before_response', 'at_lock'))
        snap = self.snapshot() if (not spec['known'] and not nested) else None
        execs = self.executions
        fut = None
        try:
            if kind == 'string':
                fut = c.set_client.set_string(h, spec['outcome'])
            elif kind == 'value':
                fut = c.set_client.set_numeric_value(h, 42)
            elif kind == 'activate':
                fut = c.set_client.activate(h, None)
            elif kind == 'alert':
                st = self.dev.mdib.states.descriptor_handle.get_one(self.ops[h][1].operation_target_handle).mk_copy()
                fut = c.set_client.set_alert_state(h, st)
            elif kind == 'metric':
                st = self.dev.mdib.states.descriptor_handle.get_one('numeric.ch0.vmd1').mk_copy()
                fut = c.set_client.set_metric_state(h, [st])
            elif kind == 'component':
                st = self.dev.mdib.states.descriptor_handle.get_one('mds0').mk_copy()
                fut = c.set_client.set_component_state(h, [st])
            elif kind == 'context':
                sts = self.dev.mdib.context_states.descriptor_handle.get('PC.mds0', [])
                if sts:
                    st = sts[0].mk_copy()
                else:
                    st = self.dev.mdib.data_model.mk_state_container(self.dev.mdib.descriptions.handle.get_one('PC.mds0'))
                    st.Handle = 'PC.mds0'
                fut = c.ctx_client.set_context_state(h, [st])
            else:
                raise ValueError(kind)
        except e.HTTPReturnCodeError:
            spec['exception'] = 'HTTPReturnCodeError'
        spec['future'] = fut
        spec['snap_ok'] = None
        if snap is not None:
            spec['snap_ok'] = (snap == self.snapshot()) and execs == self.executions
        if fut is not None:
            fid = spec['id']
            c.futures[fid] = fut
            spec['parts_before_response'] = [int(l.split()[1]) for l in c.lines
                                             if l.startswith('part ') and int(l.split()[2]) == spec['tx']]
            # the early-part window of this call: parts this consumer got before the response, from the first own one on
            part_tx = [int(l.split()[2]) for l in c.lines if l.startswith('part ')]
            window = len(part_tx) - part_tx.index(spec['tx']) if spec['tx'] in part_tx else 0
            spec['window_ok'] = window <= spec_window(self.cap)
            c.lines.append(f"response {fid} {spec['tx']} {self._resp_state(spec['tx'])}")
            c.impl.append(c.newly_done())
        return fut

    def _resp_state(self, tx):
        for k, t, st, _ in self.msgs:
            if k == 'resp' and t == tx:
                return st
        return '?'

    def _kind(self, h):
        if h not in self.ops:
            return 'string'
        name = type(self.ops[h][1]).__name__
        return {'SetStringOperation': 'string', 'SetValueOperation': 'value', 'ActivateOperation': 'activate',
                'SetAlertStateOperation': 'alert', 'SetMetricStateOperation': 'metric',
                'SetComponentStateOperation': 'component', 'SetContextStateOperation': 'context'}[name]

    def snapshot(self):
        m = self.dev.mdib
        return (m.mdib_version, tuple(sorted((s.DescriptorHandle, s.StateVersion) for s in m.states.objects)),
                tuple(sorted((s.Handle, s.StateVersion) for s in m.context_states.objects)))

    # ---- deliveries
    def deliver(self, ci, n=None):
        c = self.consumers[ci]
        k = len(c.outbox) if n is None else min(n, len(c.outbox))
        for _ in range(k):
            data = c.outbox.pop(0)
            self.deliver_bytes(c, data)

    def deliver_bytes(self, c, data):
        e = self.e
        md = c.reader.read_received_message(data)
        uid0 = self.uid
        rep = e.msg_types.OperationInvokedReport.from_node(md.p_msg.msg_node)   # only to know the parts (stamps uids too)
        n = len(rep.ReportPart)
        self.uid = uid0            # the manager's own parse gets the same uids
        c.mgr.on_operation_invoked_report(md)
        done = c.newly_done()
        for i, part in enumerate(rep.ReportPart):
            c.lines.append(f'part {uid0 + 1 + i} {part.InvocationInfo.TransactionId} {part.InvocationInfo.InvocationState.value}')
            c.impl.append(None)
        # completions are reported on the line of the part that caused them; compare them as a group on the last line
        c.impl[-n:] = self._attribute(done, rep, uid0)

    @staticmethod
    def _attribute(done, rep, uid0):
        """distribute 'done …' entries of one multi-part report onto the lines of the completing (final) parts"""
        res = ['-'] * len(rep.ReportPart)
        if done == '-':
            return res
        entries = done.split(';')
        for ent in entries:
            uids = ent[ent.index('[') + 1:-1].split()
            last = int(uids[-1]) if uids else None
            idx = (last - uid0 - 1) if last is not None and 0 <= last - uid0 - 1 < len(res) else len(res) - 1
            res[idx] = ent if res[idx] == '-' else res[idx] + ';' + ent
        return res

    def drop(self, ci, fid):
        c = self.consumers[ci]
        if fid not in c.futures:
            return      # the call has not been made yet (it is nested in a handler that has not run)
        c.futures.pop(fid, None)
        for spec in self.calls.values():
            if spec['id'] == fid:
                spec['future'] = None
                spec['dropped'] = True
        gc.collect()
        c.lines.append(f'drop {fid}')
        c.impl.append('-')

    # ---- operations come and go at run time
    def unregister(self, h):
        if h in self.registered:
            self.scos[self.ops[h][0]].unregister_operation_by_handle(h)
            self.registered.discard(h)

    def register(self, h):
        if h in self.ops and h not in self.registered:
            si, old = self.ops[h]
            new = type(old)(h, old.operation_target_handle, self._handler, timeout_handler=old._timeout_handler,
                            delayed_processing=old.delayed_processing)
            self.scos[si].register_operation(new)
            self.ops[h] = (si, new)
            self.registered.add(h)

    def run_lock_events(self, consumer):
        evs, consumer.lock_events = consumer.lock_events, []
        if evs:
            self.run_events(evs)

    # ---- script interpreter
    def run_events(self, events):
        for ev in events:
            self.events_run += 1
            k = ev[0]
            if k == 'call':
                self.call(ev[1])
            elif k == 'tick':
                self.tick(ev[1])
            elif k == 'deliver':
                self.deliver(ev[1], ev[2])
            elif k == 'drop':
                self.drop(ev[1], ev[2])
            elif k == 'advance':
                self.clock_offset += ev[1]        # the invocation timeouts of the operations called so far expire
            elif k == 'timeouts':
                self.timeout_raises = bool(ev[1])
            elif k == 'unregister':
                self.unregister(ev[1])
            elif k == 'register':
                self.register(ev[1])
            else:
                raise ValueError(k)

    def drain(self):
        for _ in range(20):
            for si in range(len(self.scos)):
                while self.workers[si]._operations_queue.qsize() and si not in self.dead:
                    self.tick(si)
            for ci in range(len(self.consumers)):
                self.deliver(ci, None)
            if not any(w._operations_queue.qsize() for i, w in enumerate(self.workers) if i not in self.dead) and not any(c.outbox or c.lock_events for c in self.consumers):
                break

    def pstate_line(self):
        return f'pstate {len(self.scos)}'

    def pstate_impl(self):
        qs = ' '.join('[' + ' '.join(str(it[0]) for it in list(w._operations_queue.queue)) + ']' for w in self.workers)
        return (f"counter={self.dev.__dict__.get('_transaction_id', self.dev._transaction_id)} mdib={self.executions} "
                f"inflight=[{' '.join(map(str, self.inflight))}] queues={qs}")


# ------------------------------------------------------------------------------------------------ oracle (provider + end to end)

def spec_window(cap):
    """what the buffer of early parts must at least hold, whatever its implementation: the reports of a completely filled
    operation queue plus the running operation (theorem generated_buffer_covers_queue_backlog is the same bound)"""
    return 3 * (cap + 1)


def collapse(w):
    out = []
    for s in w:
        if not out or out[-1] != s:
            out.append(s)
    return out


def legal_word(w):
    return (len(w) == 1 and w[0] in FINALS) or (len(w) == 3 and w[0] == 'Wait' and w[1] == 'Start' and w[2] in FINALS)


def provider_oracle(ctx, rig, specs, script):
    """the property statement on the captured messages of the real provider"""
    by_tx = {}
    for m in rig.msgs:
        by_tx.setdefault(m[1], []).append(m)
    ids = [s['tx'] for s in specs if s.get('tx') is not None]
    gen_order = [t for t in rig.id_log if t is not None]    # all requests to this provider (Set and Context service, known
    if len(set(gen_order)) != len(gen_order) or gen_order != sorted(gen_order):   # and unknown operations), in arrival order
        ctx.fail('tx-id:not-unique-increasing', f'transaction ids of all requests to the provider in the order they arrived: {gen_order}', script)
        return
    for spec in specs:
        tx = spec.get('tx')
        if tx is None:
            continue
        ms = by_tx.get(tx, [])
        resps = [m for m in ms if m[0] == 'resp']
        reports = [m for m in ms if m[0] == 'report']
        word_emitted = [m[2] for m in ms if m[0] in ('resp', 'report')]
        known = spec.get('known', spec['op'] in rig.ops)
        what = f"{spec['op']} ({'not registered' if not known else ('queued' if rig.ops[spec['op']][1].delayed_processing else 'direct')}, handler {spec['outcome']})"
        if any(m[0] == 'fault' for m in ms):
            ctx.fail('invocation:soap-fault-instead-of-state', f'{what}: tx {tx} answered with a SOAP fault, no invocation state reported', script)
            continue
        if any(m[0] == 'resp-wrong-id' for m in ms):
            ctx.fail('invocation:response-id', f'{what}: response carries another transaction id', script)
        if len(resps) != 1:
            ctx.fail('invocation:response-count', f'{what}: tx {tx} has {len(resps)} responses', script)
            continue
        r = resps[0][2]
        rw = [m[2] for m in reports]
        finals = {s for s in [r] + rw if s in FINALS}
        # the report stream itself: nothing missing, nothing repeated, nothing after the final part
        ok = (r == 'Wait' and len(rw) in (2, 3) and rw[-2] == 'Start' and rw[-1] in FINALS and (len(rw) == 2 or rw[0] == 'Wait')) \
            or (r in FINALS and (rw == [] or rw == [r]))
        if not ok or len(finals) != 1:
            if known and rig.dead and rig.ops[spec['op']][0] in rig.dead:
                what += ' [the worker thread of this SCO has terminated]'
            sig = 'invocation:illegal-state-word'
            if known and r in FINALS and rw and rw[-1] in FINALS and rw[-1] != r:
                sig = 'invocation:response-final-differs-from-report'
            ctx.fail(sig, f'{what}: tx {tx} response {r}, reports {rw} (emitted: {word_emitted})', script)
            continue
        if not known:
            if r != 'Fail' or rw:
                ctx.fail('invocation:unknown-operation', f'{what}: response {resps[0]}, reports {rw}', script)
            if spec.get('snap_ok') is False:
                ctx.fail('invocation:unknown-operation-touched-mdib', f'{what}: MDIB / handler executions changed', script)
        if known and spec['outcome'] == 'raise':
            last = reports[-1] if reports else resps[0]
            if not (last[2] == 'Fail' and (last[3] or resps[0][3])):
                ctx.fail('invocation:raise-without-fail-or-error-info', f'{what}: final message {last}', script)
        if known and spec['outcome'] != 'raise' and r == 'Wait' and rw[-1] != spec['outcome']:
            ctx.fail('invocation:final-state-not-handler-state', f'{what}: final report {rw[-1]}', script)


def consumer_oracle(ctx, rig, specs, script, window_ok=True):
    """every future completes exactly once with the final state and all parts of its transaction in order"""
    delivered = {}     # consumer idx -> list of (uid, tx, state) in delivery order, from the consumer model lines
    for c in rig.consumers:
        lst = []
        for l in c.lines:
            w = l.split()
            if w[0] == 'part':
                lst.append((int(w[1]), int(w[2]), w[3]))
        delivered[c.idx] = lst
    for spec in specs:
        fut = spec.get('future')
        if fut is None:
            continue
        tx = spec['tx']
        what = f"call {spec['id']} tx {tx} ({spec['op']}, handler {spec['outcome']})"
        if fut.verif_set_calls > 1:
            ctx.fail('future:completed-more-than-once', f'{what}: set_result called {fut.verif_set_calls} times', script)
            continue
        provider_states = [m[2] for m in rig.msgs if m[1] == tx and m[0] in ('resp', 'report')]
        final = [s for s in provider_states if s in FINALS]
        if not final:
            continue    # provider never finished it (queue not drained): nothing to demand
        if not fut.done():
            ctx.fail('future:never-completes', f'{what}: all messages delivered, future still pending (provider states {provider_states})', script)
            continue
        res = fut.result()
        st = res.InvocationInfo.InvocationState.value
        if st not in FINALS or st != final[-1]:
            ctx.fail('future:wrong-final-state', f'{what}: result state {st}, provider final state {final[-1]}', script)
        own = [u for u, t, _ in delivered[spec.get('consumer', 0)] if t == tx]
        got = [p._verif_uid for p in res.report_parts]
        r = rig._resp_state(tx)
        if window_ok and spec.get('window_ok', True):
            if r in ('Fail', 'Cnclld', 'CnclldMan'):
                # completes at the response at the latest: the parts delivered before it are demanded
                before = spec.get('parts_before_response')
                if before is not None and got != before:
                    ctx.fail('future:parts-missing', f'{what}: parts delivered before the {r} response {before}, result has {got}', script)
            elif got != own:
                ctx.fail('future:parts-missing', f'{what}: delivered parts of the transaction {own}, result has {got}', script)


# ------------------------------------------------------------------------------------------------ script generation

def gen_script(rng, rig_ops, cap, n_consumers, size, maxlen):
    """a tree of events; returns (events, specs)"""
    specs = []
    handles = sorted(rig_ops) + ['verif.unknown', 'nonexisting_handle']
    counter = [0]

    def mk_call(depth):
        counter[0] += 1
        h = rng.choice(handles)
        spec = {'id': counter[0], 'op': h, 'consumer': rng.randrange(n_consumers),
                'outcome': rng.choice(FINALS + ['raise', 'Fin', 'Fin', 'raise'])}
        specs.append(spec)
        if depth < 2:
            for key, p in (('after_id', 0.15), ('in_handler', 0.2), ('before_response', 0.5), ('at_lock', 0.3)):
                if rng.random() < p:
                    spec[key] = mk_events(rng.randint(1, 3), depth + 1, inside=key)
        return ('call', spec)

    def mk_events(n, depth, inside=None):
        evs = []
        for _ in range(n):
            x = rng.random()
            if inside == 'at_lock':
                x = 0.45 + 0.5 * x      # at the lock of call_operation only the notification thread / the workers move
            if x < 0.45 and counter[0] < size:
                evs.append(mk_call(depth))
            elif x < 0.7:
                evs.append(('tick', rng.randrange(3)))
            elif x < 0.95:
                evs.append(('deliver', rng.randrange(n_consumers), rng.choice([None, 1, 1, 2, 3])))
            elif specs and inside is None and x < 0.975:
                s = rng.choice(specs)
                evs.append(('drop', s['consumer'], s['id']))
            elif inside in (None, 'before_response'):
                evs.append((rng.choice(['unregister', 'unregister', 'register']), rng.choice(sorted(rig_ops))))
        return evs
    events = mk_events(size, 0)
    # invocation timeouts: the handlers of half of the scripts raise; the clock jumps somewhere in the script and idle
    # worker cycles follow
    events.insert(0, ('timeouts', rng.random() < 0.5))
    for _ in range(rng.randint(0, 2)):
        pos = rng.randint(1, len(events))
        events[pos:pos] = [('advance', rng.choice([1, 6, 60])), ('tick', rng.randrange(3)), ('tick', rng.randrange(3))]
    return events, specs


def script_canon(events):
    def ev(e):
        if e[0] == 'call':
            s = e[1]
            return ['call', s['id'], s['op'], s['consumer'], s['outcome'], [ev(x) for x in s.get('after_id', ())],
                    [ev(x) for x in s.get('in_handler', ())], [ev(x) for x in s.get('before_response', ())],
                    [ev(x) for x in s.get('at_lock', ())]]
        return list(e)
    return [ev(e) for e in events]


def script_from_canon(canon):
    specs = []

    def ev(c):
        if c[0] == 'call':
            spec = {'id': c[1], 'op': c[2], 'consumer': c[3], 'outcome': c[4]}
            specs.append(spec)
            for key, sub in zip(('after_id', 'in_handler', 'before_response', 'at_lock'), c[5:9]):
                if sub:
                    spec[key] = [ev(x) for x in sub]
            return ('call', spec)
        return tuple(c)
    return [ev(c) for c in canon], specs


def run_script(ctx, events, specs, modes, model_cases, check_parts=True, shrink=True):
    """execute one script on a fresh rig; oracle; returns the model lines + implementation answers"""
    rig = Rig(n_consumers=2)
    n_fail = len(ctx.failures)
    try:
        for h, direct in modes.items():
            if h in rig.ops:
                rig.ops[h][1].delayed_processing = not direct
        canon = {'modes': sorted(h for h, d in modes.items() if d), 'events': script_canon(events)}
        rig.run_events(events)
        rig.drain()
        if rig.errors:
            raise RuntimeError(f'harness error inside a handler: {rig.errors[:2]}')
        if rig.unhooked:
            ctx.count('id-not-from-SdcProvider.generate_transaction_id', rig.unhooked)
        if rig.timeouts_fired:
            ctx.count('timeout-handler-calls' + (':raising' if rig.timeout_raises else ''), rig.timeouts_fired)
        if rig.dead:
            ctx.count('worker-thread-terminated', len(rig.dead))
        provider_oracle(ctx, rig, specs, canon)
        consumer_oracle(ctx, rig, specs, canon, window_ok=check_parts)
        if shrink and len(ctx.failures) > n_fail and len(canon['events']) > 1:
            done_sigs = {}
            for f in ctx.failures[n_fail:]:
                if f['signature'] not in done_sigs:
                    done_sigs[f['signature']] = shrink_script(ctx, canon, f['signature'])
                f['case'] = done_sigs[f['signature']]
        plines = [f'preset {rig.cap}'] + rig.plines + [rig.pstate_line()]
        pimpl = ['ok'] + rig.pimpl + [rig.pstate_impl()]
        model_cases.append((canon, 'provider', plines, pimpl))
        maxlen = rig.consumers[0].mgr._last_operation_invoked_reports.maxlen
        for c in rig.consumers:
            cl = [f'creset {maxlen}'] + c.lines + ['cstate']
            ci = ['ok'] + c.impl + [f"recent=[{' '.join(str(p._verif_uid) for p in c.mgr._last_operation_invoked_reports)}] done={len(c.reported)}"]
            model_cases.append((canon, f'consumer{c.idx}', cl, ci))
        done_tx = sum(1 for s in specs if s.get('tx') is not None)
        for s in specs:
            ctx.count('request:' + ('unknown' if not s.get('known', s['op'] in rig.ops) else ('direct' if modes.get(s['op']) else 'queued')) + ':' + s['outcome'])
            if s['op'] in rig.ops:
                ctx.count('kind:' + rig._kind(s['op']))
        return rig, canon, done_tx
    finally:
        rig.close()


def _sub_canon(canon_events, keep):
    """the script restricted to the top-level events with index in `keep`"""
    return [e for i, e in enumerate(canon_events) if i in keep]


def shrink_script(ctx, canon, signature, budget=40):
    """ddmin over the top-level events: the smallest sub-script on which the oracle still reports `signature`"""
    modes = {h: True for h in canon['modes']}
    events = canon['events']

    def fails(evs):
        scratch = core.Ctx(ctx.prop, ctx.tier, ctx.seed)
        scratch.driver_ok = False
        try:
            e2, s2 = script_from_canon(evs)
            run_script(scratch, e2, s2, modes, [], shrink=False)
        except Exception:  # noqa: BLE001
            return False
        return any(f['signature'] == signature for f in scratch.failures)
    cur = list(range(len(events)))
    n = 2
    runs = 0
    while len(cur) >= 2 and runs < budget:
        chunk = max(1, len(cur) // n)
        subsets = [cur[i:i + chunk] for i in range(0, len(cur), chunk)]
        reduced = False
        for sub in subsets:
            comp = [i for i in cur if i not in sub]
            runs += 1
            if comp and fails(_sub_canon(events, set(comp))):
                cur, n, reduced = comp, max(n - 1, 2), True
                break
            if runs >= budget:
                break
        if not reduced:
            if n >= len(cur):
                break
            n = min(len(cur), n * 2)
    return {'modes': canon['modes'], 'events': _sub_canon(events, set(cur))}


def compare_model(ctx, model_cases):
    if not ctx.driver_ok or not model_cases:
        return
    lines = []
    for _, _, ls, _ in model_cases:
        lines.extend(ls)
    out = ctx.driver('drv_c09', lines)
    pos = 0
    for canon, what, ls, impl in model_cases:
        o = out[pos:pos + len(ls)]
        pos += len(ls)
        for i, (a, b) in enumerate(zip(o, impl)):
            if b is None:
                continue
            if a != b:
                ctx.disagree(f'{what} model == implementation', {'script': canon, 'line': ls[i], 'index': i,
                                                                 'lines': ls[max(0, i - 6):i + 1]}, a, b)
                break


# ------------------------------------------------------------------------------------------------ consumer: exhaustive orderings

class ConsumerRig:
    """a real OperationsManager fed with real messages built by the message factory (no provider)"""

    def __init__(self):
        e = env()
        self.e = e
        lg = logging.getLogger('verif.c09')
        self.reader = e.MessageReader(e.SdcV1Definitions, [], lg, validate=True)
        self.factory = e.MessageFactory(e.SdcV1Definitions, [], lg, validate=True)
        self.future_cls = CountingFuture.make()
        self.uid = 0
        rig = self
        orig = e.msg_types.OperationInvokedReportPart.update_from_node

        def update_from_node(part, node):
            orig(part, node)
            rig.uid += 1
            part._verif_uid = rig.uid
        self.patches = [mock.patch.object(e.c_ops, 'Future', self.future_cls),
                        mock.patch.object(e.msg_types.OperationInvokedReportPart, 'update_from_node', update_from_node)]
        for p in self.patches:
            p.start()
        self._trace = []
        self._lock_results = []
        self.spec_window = spec_window(10)     # overwritten with the real queue capacity by the run
        self.new_manager()
        self._cache = {}

    def close(self):
        for p in self.patches:
            p.stop()

    def new_manager(self):
        self.mgr = self.e.c_ops.OperationsManager(self.reader, 'x')
        self.lock_events = []
        self.mgr._transactions_lock = HookLock(self.mgr._transactions_lock, self._run_lock_events)
        self.maxlen = self.mgr._last_operation_invoked_reports.maxlen
        self.futures = {}
        self.reported = set()
        self.lines = [f'creset {self.maxlen}']
        self.impl = ['ok']
        self.uid = 0

    def _run_lock_events(self):
        evs, self.lock_events = self.lock_events, []
        for ev in evs:
            self._lock_results.append(self.step(ev))

    def traced_programs(self):
        """lock operations and accesses to the shared rendez-vous state during call_operation /
        on_operation_invoked_report, in model terms, for the typical situations"""
        import collections
        progs = []
        rig = self

        class TLock:
            def __init__(self, real):
                self.real = real

            def __enter__(self):
                rig._trace.append('acq')
                return self.real.__enter__()

            def __exit__(self, *a):
                rig._trace.append('rel')
                return self.real.__exit__(*a)

        class TDeque(collections.deque):
            def __iter__(self):
                rig._trace.append('scanBuf')
                return super().__iter__()

            def append(self, x):
                rig._trace.append('appendBuf')
                return super().append(x)

        class TDict(dict):
            def __contains__(self, k):
                rig._trace.append('lookup')
                return super().__contains__(k)

            def __getitem__(self, k):
                rig._trace.append('getEntry')
                return super().__getitem__(k)

            def __setitem__(self, k, v):
                rig._trace.append('register')
                return super().__setitem__(k, v)

            def pop(self, *a):
                rig._trace.append('pop')
                return super().pop(*a)

            def get(self, *a):
                rig._trace.append('getEntry')
                return super().get(*a)

        def fresh():
            self.new_manager()
            m = self.mgr
            m._transactions_lock = TLock(m._transactions_lock.real)
            m._last_operation_invoked_reports = TDeque(m._last_operation_invoked_reports, maxlen=m._last_operation_invoked_reports.maxlen)
            m._transactions = TDict(m._transactions)
        orig_set = self.future_cls.set_result

        def set_result(fut, result):
            rig._trace.append('complete')
            return orig_set(fut, result)
        situations = [
            ('call: Wait response, nothing buffered', [], ('response', 1, 1, 'Wait')),
            ('call: final part buffered', [('parts', ((1, 'Fin'),))], ('response', 1, 1, 'Wait')),
            ('call: Fail response', [], ('response', 1, 1, 'Fail')),
            ('report: unknown transaction', [], ('parts', ((7, 'Start'),))),
            ('report: non-final part of a registered transaction', [('response', 1, 1, 'Wait')], ('parts', ((1, 'Start'),))),
            ('report: final part of a registered transaction', [('response', 1, 1, 'Wait')], ('parts', ((1, 'Fin'),))),
        ]
        with mock.patch.object(self.future_cls, 'set_result', set_result):
            for name, prelude, ev in situations:
                fresh()
                self._keep = [self.step(p) for p in prelude]
                self._trace = []
                self._keep.append(self.step(ev))
                progs.append((name, list(self._trace)))
        self._trace = []
        self.new_manager()
        return progs

    def report_bytes(self, parts):
        """parts: tuple of (tx, state)"""
        key = tuple(parts)
        if key not in self._cache:
            e = self.e
            rep = e.msg_types.OperationInvokedReport()
            rep.MdibVersion = 1
            rep.SequenceId = 'urn:uuid:0'
            for tx, st in parts:
                p = rep.add_report_part()
                p.InvocationInfo.TransactionId = tx
                p.InvocationInfo.InvocationState = e.msg_types.InvocationState(st)
                p.InvocationSource = e.pm_types.InstanceIdentifier('urn:x', extension_string='verif')
                p.OperationHandleRef = 'op'
            hdr = e.HeaderInformationBlock(action=rep.action, addr_to='http://127.0.0.1:9/n')
            self._cache[key] = self.factory.mk_soap_message(hdr, payload=rep).serialize()
        return self._cache[key]

    def response_bytes(self, tx, st):
        key = ('resp', tx, st)
        if key not in self._cache:
            e = self.e
            resp = e.msg_types.SetStringResponse()
            resp.MdibVersion = 1
            resp.SequenceId = 'urn:uuid:0'
            resp.InvocationInfo.TransactionId = tx
            resp.InvocationInfo.InvocationState = e.msg_types.InvocationState(st)
            hdr = e.HeaderInformationBlock(action=resp.action, addr_to='http://127.0.0.1:9/n')
            self._cache[key] = self.factory.mk_soap_message(hdr, payload=resp).serialize()
        return self._cache[key]

    def newly_done(self):
        res = []
        for fid, fut in sorted(self.futures.items()):
            if fid not in self.reported and fut.done():
                self.reported.add(fid)
                r = fut.result()
                from_report = r.InvocationInfo is not r.set_response.InvocationInfo
                res.append(f"done {fid} {r.InvocationInfo.InvocationState.value} {1 if from_report else 0} "
                           f"[{' '.join(str(p._verif_uid) for p in r.report_parts)}]")
        return ';'.join(res) if res else '-'

    def step(self, ev):
        """ev: ('parts', ((tx, st), …)) one report | ('response', fut, tx, st) | ('drop', fut)"""
        if ev[0] == 'parts':
            md = self.reader.read_received_message(self.report_bytes(ev[1]))
            uid0 = self.uid
            self.mgr.on_operation_invoked_report(md)
            done = self.newly_done()
            rep = types.SimpleNamespace(ReportPart=[None] * len(ev[1]))
            for i, (tx, st) in enumerate(ev[1]):
                self.lines.append(f'part {uid0 + 1 + i} {tx} {st}')
            self.impl.extend(Rig._attribute(done, rep, uid0))
            return [uid0 + 1 + i for i in range(len(ev[1]))]
        if ev[0] == 'response':
            _, fid, tx, st = ev[:4]
            md = self.reader.read_received_message(self.response_bytes(tx, st))
            at_lock = list(ev[4]) if len(ev) > 4 else []

            def post_message(*a, **k):
                self.lock_events = at_lock      # delivered when call_operation is about to take the lock
                return md
            client = types.SimpleNamespace(post_message=post_message)
            self._lock_results = []
            fut = self.mgr.call_operation(client, None)
            self.futures[fid] = fut
            self.lines.append(f'response {fid} {tx} {st}')
            self.impl.append(self.newly_done())
            return fut
        if ev[0] == 'drop':
            self.futures.pop(ev[1], None)
            gc.collect()
            self.lines.append(f'drop {ev[1]}')
            self.impl.append('-')
        return None

    def finish(self):
        self.lines.append('cstate')
        self.impl.append(f"recent=[{' '.join(str(p._verif_uid) for p in self.mgr._last_operation_invoked_reports)}] done={len(self.reported)}")


def consumer_case(ctx, crig, case, model_cases, tx, fid):
    """case: dict(word, resp, pos, gap, burst, pack); runs on the current manager of crig with ids tx/fid"""
    word, rs, pos, gap, burst, pack = case['word'], case['resp'], case['pos'], case['gap'], case['burst'], case['pack']
    # event sequence: own parts with the response inserted at `pos`; a burst of foreign parts in gap number `gap`
    seq = [('own', s) for s in word]
    seq.insert(pos, ('response',))
    own_uids, before_resp, fut = [], [], None
    responded = False
    foreign_tx = 10 ** 6 + tx * 100
    evs = []
    for i, item in enumerate(seq + [None]):
        if i == gap and burst:
            evs.append(('parts', tuple((foreign_tx + (j % 7), 'Start') for j in range(burst))))
        if item is None:
            break
        if item[0] == 'response':
            evs.append(('response', fid, tx, rs))
        else:
            evs.append(('parts', ((tx, item[1]),)))
    if pack:
        # merge adjacent part events into one multi-part report
        merged = []
        for ev in evs:
            if ev[0] == 'parts' and merged and merged[-1][0] == 'parts':
                merged[-1] = ('parts', merged[-1][1] + ev[1])
            else:
                merged.append(ev)
        evs = merged
    lock = case.get('lock', 0)
    if lock:
        # the `lock` part events that follow the response are processed by the notification thread exactly when
        # call_operation is about to enter its critical section (after the HTTP round trip, before the lock is taken)
        ri = next(i for i, ev in enumerate(evs) if ev[0] == 'response')
        moved = evs[ri + 1:ri + 1 + lock]
        evs = evs[:ri] + [evs[ri] + (tuple(moved),)] + evs[ri + 1 + lock:]
    window = 0      # parts arriving before the response, counted from the first own part
    started = False

    def note_parts(ev, uids):
        nonlocal window, started
        for (t, _), u in zip(ev[1], uids):
            if t == tx:
                own_uids.append(u)
                if not responded:
                    before_resp.append(u)
            if not responded:
                if t == tx:
                    started = True
                if started:
                    window += 1
    for ev in evs:
        r = crig.step(ev)
        if ev[0] == 'parts':
            note_parts(ev, r)
        else:
            for lev, lres in zip(ev[4] if len(ev) > 4 else (), crig._lock_results):
                note_parts(lev, lres)
            fut = r
            responded = True
    window_ok = window <= max(crig.maxlen, crig.spec_window)   # never less than the specification bound
    # ---- oracle
    sig_case = {'consumer-case': case}
    final_states = [s for s in word if s in FINALS]
    if fut.verif_set_calls > 1:
        ctx.fail('future:completed-more-than-once', f'set_result called {fut.verif_set_calls} times', sig_case)
    legal = legal_word(collapse(word)) and len(final_states) == 1 and word[-1] in FINALS
    consistent = (len(word) == 3 and rs == 'Wait') or (len(word) == 1 and rs == word[0])
    if legal and consistent and window_ok:
        immediate_resp = rs in ('Fail', 'Cnclld', 'CnclldMan')
        if not fut.done():
            ctx.fail('future:never-completes', f'word {word}, response {rs} at {pos}: future pending after all parts', sig_case)
        else:
            res = fut.result()
            st = res.InvocationInfo.InvocationState.value
            got = [p._verif_uid for p in res.report_parts]
            if st != word[-1]:
                ctx.fail('future:wrong-final-state', f'word {word}, response {rs} at {pos}: result state {st}', sig_case)
            want = before_resp if immediate_resp else own_uids
            if got != want:
                ctx.fail('future:parts-missing', f'word {word}, response {rs} at {pos}, burst {burst}@{gap}: parts of the '
                         f'transaction {"before the response " if immediate_resp else ""}{want}, result {got}', sig_case)
    _case(ctx, case, nontrivial=fut.done(), sample={**case, 'result parts (uids)': [p._verif_uid for p in fut.result().report_parts] if fut.done() else None, 'own uids': own_uids} if (case['burst'], case['pos'], case['gap'], len(word)) == (crig.maxlen - 1, 2, 1, 3) and word[-1] == 'FinMod' and case['fresh'] and not pack else None)
    ctx.count('consumer:resp-pos=%d' % pos)
    ctx.count('consumer:parts-at-lock=%d' % case.get('lock', 0))
    ctx.count('consumer:window-' + ('fits' if window_ok else 'overflows'))
    return fut


def run_consumer_exhaustive(ctx, model_cases, cap):
    crig = ConsumerRig()
    crig.spec_window = spec_window(cap)
    try:
        maxlen = crig.maxlen
        words = [[f] for f in FINALS] + [['Wait', 'Start', f] for f in FINALS]
        bursts = sorted({b for b in [0, 1, 3, 5, 20, crig.spec_window - 3, maxlen - 3, maxlen - 2, maxlen - 1, maxlen, maxlen + 1, maxlen + 7] if b >= 0})
        tx, fid = 0, 0
        n = 0
        for fresh in (True, False):
            if not fresh:
                crig.new_manager()
            for word in words:
                resps = ['Wait', word[-1]] if len(word) == 3 else [word[-1], 'Wait']
                if ctx.tier == 'thorough':
                    resps = sorted(set(resps + ['Fin', 'Fail']))
                for rs in resps:
                    for pos in range(len(word) + 1):
                        for gap in range(len(word) + 2):
                            for burst in bursts:
                                if burst == 0 and gap > 0:
                                    continue
                                for pack in ((False, True) if burst in (0, 1, maxlen - 1) else (True,)):
                                    # parts processed exactly at the lock of call_operation: every count, for the small bursts
                                    locks = range(0, len(word) - pos + 2) if burst in (0, 1, maxlen - 1) else (0,)
                                    for lock in locks:
                                        if ctx.tier == 'quick' and (n + ctx.seed) % 4 and (burst not in (0, 5, maxlen - 1) or not fresh):
                                            n += 1
                                            continue
                                        n += 1
                                        tx += 1
                                        fid += 1
                                        if fresh:
                                            crig.new_manager()
                                        case = {'word': word, 'resp': rs, 'pos': pos, 'gap': gap, 'burst': burst, 'pack': pack,
                                                'fresh': fresh, 'lock': lock}
                                        consumer_case(ctx, crig, case, model_cases, tx, fid)
                                        if fresh:
                                            crig.finish()
                                            model_cases.append((case, 'consumer(exhaustive)', crig.lines, crig.impl))
            if not fresh:
                crig.finish()
                model_cases.append(({'long-lived manager': True}, 'consumer(long-lived)', crig.lines, crig.impl))
        ctx.notes['consumer_orderings'] = n
    finally:
        crig.close()


def run_consumer_random(ctx, model_cases):
    """random event lists: several concurrent calls, illegal sequences, duplicates, drops, multi-part reports"""
    crig = ConsumerRig()
    rng = ctx.subrng('consumer-random')
    try:
        for k in range(ctx.n(60, 600)):
            crig.new_manager()
            ntx = rng.randint(1, 5)
            evs = []
            fid = 0
            streams = []
            for t in range(1, ntx + 1):
                kind = rng.random()
                if kind < 0.6:
                    w = rng.choice([['Wait', 'Start', rng.choice(FINALS)], [rng.choice(FINALS)]])
                else:
                    w = [rng.choice(FINALS + NONFINAL) for _ in range(rng.randint(0, 4))]
                items = [('p', t, s) for s in w]
                if rng.random() < 0.9:
                    fid += 1
                    items.insert(rng.randint(0, len(items)), ('r', fid, t, rng.choice(['Wait', 'Wait', 'Fin', 'Fail', 'Start', 'Cnclld', w[-1] if w else 'Fin'])))
                    if rng.random() < 0.15:
                        items.insert(rng.randint(0, len(items)), ('d', fid))
                streams.append(items)
            # random merge preserving each stream's order
            while any(streams):
                s = rng.choice([x for x in streams if x])
                evs.append(s.pop(0))
            # a 'd' before its 'r' is meaningless: drop it
            seen_r = set()
            cleaned = []
            for ev in evs:
                if ev[0] == 'r':
                    seen_r.add(ev[1])
                if ev[0] == 'd' and ev[1] not in seen_r:
                    continue
                cleaned.append(ev)
            # group adjacent parts into reports randomly, sprinkle foreign bursts
            i = 0
            script = []
            while i < len(cleaned):
                ev = cleaned[i]
                if ev[0] == 'p':
                    grp = [(ev[1], ev[2])]
                    while i + 1 < len(cleaned) and cleaned[i + 1][0] == 'p' and rng.random() < 0.4:
                        i += 1
                        grp.append((cleaned[i][1], cleaned[i][2]))
                    script.append(('parts', tuple(grp)))
                elif ev[0] == 'r':
                    script.append(('response', ev[1], ev[2], ev[3]))
                else:
                    script.append(('drop', ev[1]))
                if rng.random() < 0.15:
                    script.append(('parts', tuple((900 + rng.randrange(3), rng.choice(NONFINAL)) for _ in range(rng.choice([1, 5, crig.maxlen - 1, crig.maxlen + 3])))))
                i += 1
            futs = {}
            for ev in script:
                r = crig.step(ev)
                if ev[0] == 'response':
                    futs[ev[1]] = r
            for f_id, fut in futs.items():
                if fut.verif_set_calls > 1:
                    ctx.fail('future:completed-more-than-once', f'future {f_id}: set_result called {fut.verif_set_calls} times', {'consumer-script': script})
            crig.finish()
            canon = {'consumer-script': [list(e) for e in script]}
            model_cases.append((canon, 'consumer(random)', crig.lines, crig.impl))
            _case(ctx, canon, nontrivial=any(f.done() for f in futs.values()), sample=canon if k == 0 else None)
    finally:
        crig.close()


# ------------------------------------------------------------------------------------------------ translator

def translate(ctx):
    e = env()
    rig = Rig(n_consumers=1)
    try:
        cap = rig.cap
        caps = {w._operations_queue.maxsize for w in rig.workers}
        mgr = rig.consumers[0].mgr
        maxlen = mgr._last_operation_invoked_reports.maxlen
        nonfinal = [s.value for s in mgr.nonFinalOperationStates]
        all_states = [s.value for s in e.msg_types.InvocationState]
    finally:
        rig.close()
    # response states that complete a future although no part of the transaction is known
    crig = ConsumerRig()
    try:
        immediate = []
        for i, st in enumerate(all_states):
            fut = crig.step(('response', i + 1, i + 1, st))
            if fut.done():
                immediate.append(st)
        progs = crig.traced_programs()
    finally:
        crig.close()
    lock_rig = IdLockRig()
    acts = lock_rig.program()
    lock_rig.close()
    unmapped = [s for s in all_states + nonfinal + immediate if s not in CTOR]
    if unmapped or len(caps) != 1 or any(a.endswith('?') for a in acts):
        raise RuntimeError(f'translator: unmapped states {unmapped} / capacities {caps} / lock trace {acts}')

    def lst(xs):
        return '[' + ', '.join('.' + CTOR[x] for x in xs) + ']'
    src = ('import SdcModel.Invocation\n/-! generated by harness/props/c09.py from the running code — do not edit -/\n'
           'namespace Sdc.Generated.C09\nopen Sdc.Invocation\n'
           f'/-- `_OperationsWorker._operations_queue.maxsize` -/\ndef opQueueCap : Nat := {cap}\n'
           f'/-- `OperationsManager._last_operation_invoked_reports.maxlen` -/\ndef reportDequeMaxlen : Nat := {maxlen}\n'
           f'/-- members of `msg_types.InvocationState` -/\ndef allStates : List St := {lst(all_states)}\n'
           f'/-- `OperationsManager.nonFinalOperationStates` -/\ndef nonFinalStates : List St := {lst(nonfinal)}\n'
           '/-- response states for which `call_operation` completes the future without a final report part -/\n'
           f'def immediateStates : List St := {lst(immediate)}\n'
           '/-- dynamic trace of `SdcProvider.generate_transaction_id` (lock operations and accesses to `_transaction_id`) -/\n'
           f"def idProg : List Lts.Act := [{', '.join('.' + a for a in acts)}]\n"
           '/-- dynamic traces of `OperationsManager.call_operation` (after the HTTP round trip) and `on_operation_invoked_report`:\n'
           '    lock operations and accesses to `_transactions`, the early-part buffer and the future -/\n'
           'def consumerProgs : List (List Sync.CAct) := [\n'
           + ',\n'.join(f"  /- {name} -/ [{', '.join('.' + a for a in prog)}]" for name, prog in progs)
           + ']\n'
           'end Sdc.Generated.C09\n')
    core.write_if_changed(core.GENERATED + '/Invocation.lean', src)


# ------------------------------------------------------------------------------------------------ fixed scenarios

def fixed_scripts(ops, cap):
    """the situations named in the property, as deterministic scripts: (name, modes, canon events)"""
    s_str, s_val, s_act, s_ctx = 'SET_NTP_SRV_mds0', 'numeric.ch0.vmd1_sco_0', 'actop.mds0_sco_0', 'opSetPatCtx'
    res = []
    cid = [0]

    def call(op, outcome, consumer=0, after_id=(), in_handler=(), before_response=(), at_lock=()):
        cid[0] += 1
        return ['call', cid[0], op, consumer, outcome, list(after_id), list(in_handler), list(before_response), list(at_lock)]
    # every final state / raise, direct and queued, report before and after the response
    for direct in (False, True):
        for early in (False, True):
            evs = []
            cid[0] = 0
            for out in FINALS + ['raise']:
                for op in (s_str, s_val, s_act, s_ctx, 'as0.mds0_rem_dele', 'verif.setmetric', 'verif.setcomp'):
                    br = []
                    if early:
                        si = 0
                        br = [['tick', 0], ['tick', 1], ['tick', 2], ['deliver', 0, None]]
                    evs.append(call(op, out, before_response=br))
                    evs += [['tick', 0], ['tick', 1], ['tick', 2], ['deliver', 0, None], ['deliver', 1, 2]]
            res.append((f"all-kinds-{'direct' if direct else 'queued'}-{'report-first' if early else 'response-first'}",
                        {h: direct for h in ops}, evs))
    # unknown operation
    cid[0] = 0
    res.append(('unknown-operation', {}, [call('nonexisting_handle', 'Fin'), call(s_str, 'Fin'), call('verif.unknown', 'raise'),
                                          ['tick', 0], ['deliver', 0, None]]))
    # burst that fills the queue of SCO 0, the worker busy with the first one
    cid[0] = 0
    burst = [call(s_str, 'Fin', consumer=i % 2) for i in range(cap + 3)]
    res.append(('queue-full', {}, burst + [['tick', 0]] * 3 + [call(s_str, 'FinMod')] + [['tick', 0]] * (cap + 2) + [['deliver', 0, None], ['deliver', 1, None]]))
    cid[0] = 0
    inner = [call(s_act, 'Fin', consumer=1) for _ in range(cap + 1)]
    res.append(('queue-full-while-worker-busy', {}, [call(s_str, 'raise'), call(s_str, 'Fin', in_handler=inner), ['tick', 0], ['tick', 0]]))
    # ids taken in one order, dispatched in another; direct handler interleaved with queued requests and worker steps
    cid[0] = 0
    res.append(('id-order-vs-dispatch-order', {s_val: True},
                [call(s_str, 'Fin', after_id=[call(s_act, 'FinMod', consumer=1), call(s_val, 'raise', in_handler=[['tick', 0], call(s_ctx, 'Cnclld')])]),
                 ['tick', 0], ['tick', 0], ['tick', 2], ['deliver', 0, 1], ['tick', 0]]))
    # final state before the response, with foreign parts in between
    cid[0] = 0
    res.append(('final-before-response', {},
                [call(s_str, 'Fin', consumer=1), call(s_str, 'FinMod', consumer=0, before_response=[['tick', 0], ['tick', 0], ['deliver', 0, None]]),
                 ['deliver', 1, None]]))
    # a successful queued operation followed by a raising one on the same worker (one run() invocation), both services
    cid[0] = 0
    res.append(('success-then-raise-same-worker', {},
                [call(s_str, 'Fin'), call(s_ctx, 'FinMod', consumer=1), call(s_act, 'raise'), call(s_str, 'raise', consumer=1),
                 call(s_ctx, 'Cnclld'), ['tick', 0], ['tick', 0], ['tick', 0], ['tick', 0], ['tick', 0], ['deliver', 0, None], ['deliver', 1, None]]))
    # the reports arrive exactly when call_operation is about to enter its critical section
    cid[0] = 0
    res.append(('reports-at-the-lock', {s_val: True},
                [call(s_str, 'Fin', before_response=[['tick', 0]], at_lock=[['deliver', 0, None]]),
                 call(s_val, 'raise', at_lock=[['deliver', 0, None]]),
                 call(s_act, 'FinMod', before_response=[['tick', 0], ['deliver', 0, 1]], at_lock=[['deliver', 0, 1], ['deliver', 0, 1]]),
                 call(s_ctx, 'Fail', consumer=1, at_lock=[['tick', 0], ['deliver', 1, None]]), ['deliver', 0, None], ['deliver', 1, None]]))
    # the reports of other consumers' transactions fill the early-part window of a call (report-before-response race)
    cid[0] = 0
    res.append(('foreign-reports-in-the-early-window', {},
                [call(s_val, 'Fin', consumer=1), call(s_val, 'FinMod', consumer=1), call(s_val, 'raise', consumer=1), call(s_val, 'Fin', consumer=1),
                 call(s_str, 'FinMod', consumer=0, before_response=[['tick', 0], ['tick', 2], ['tick', 2], ['tick', 2], ['tick', 2], ['deliver', 0, None]]),
                 call(s_act, 'Fin', consumer=0, before_response=[['tick', 0], ['deliver', 0, 1]],
                      at_lock=[['deliver', 0, None]]),
                 ['deliver', 1, None]]))
    # invocation timeouts expire (virtual clock), the timeout handlers raise; requests before and after must be processed
    cid[0] = 0
    res.append(('timeout-handler-raises', {},
                [['timeouts', True], call(s_str, 'Fin'), call(s_val, 'FinMod', consumer=1), call(s_act, 'raise'), ['tick', 0], ['tick', 0], ['tick', 2],
                 ['advance', 60], ['tick', 0], ['tick', 1], ['tick', 2], ['tick', 0], call(s_str, 'FinMod'), call(s_ctx, 'Fin', consumer=1),
                 call(s_val, 'Cnclld'), ['tick', 0], ['tick', 0], ['tick', 2], ['timeouts', False], ['advance', 60], ['tick', 0], ['tick', 2],
                 call(s_act, 'Fin'), ['tick', 0], ['deliver', 0, None], ['deliver', 1, None]]))
    # operations unregistered and registered again at run time: a request for an unregistered operation is an unknown one
    cid[0] = 0
    res.append(('unregister-at-run-time', {s_val: True},
                [call(s_str, 'Fin'), call(s_val, 'FinMod'), ['tick', 0], ['unregister', s_str], ['unregister', s_val],
                 call(s_str, 'Fin'), call(s_val, 'Fin', consumer=1), call(s_ctx, 'Fin'), ['tick', 0], ['register', s_str],
                 call(s_str, 'raise'), ['tick', 0], ['register', s_val], call(s_val, 'Cnclld'), ['deliver', 0, None], ['deliver', 1, None]]))
    # a future dropped by the application
    cid[0] = 0
    res.append(('dropped-future', {}, [call(s_str, 'Fin'), ['drop', 0, 1], ['tick', 0], ['deliver', 0, None], call(s_str, 'Fin'), ['tick', 0]]))
    return res


def run(ctx):
    e = env()
    # ---- 1. id lock
    t0 = time.time()
    run_idlock(ctx)
    ctx.notes['t_idlock_s'] = round(time.time() - t0, 1)
    # ---- 2. provider + end to end scripts
    model_cases = []
    probe = Rig(n_consumers=1)
    ops, cap = dict(probe.ops), probe.cap
    maxlen = probe.consumers[0].mgr._last_operation_invoked_reports.maxlen
    probe.close()
    t0 = time.time()
    import glob
    import json
    import os
    for f in sorted(glob.glob(os.path.join(core.VERIF, 'corpus', 'C09', '*.json'))):
        obj = json.load(open(f))
        events, specs = script_from_canon(obj['events'])
        run_script(ctx, events, specs, {h: True for h in obj.get('modes', [])}, model_cases)
        ctx.count('corpus')
    for name, modes, canon in fixed_scripts(ops, cap):
        events, specs = script_from_canon(canon)
        rig, c, done = run_script(ctx, events, specs, modes, model_cases)
        _case(ctx, {'fixed': name}, nontrivial=done > 0,
              sample={'scenario': name, 'messages of the first transactions': rig.msgs[:8]} if name in ('queue-full', 'success-then-raise-same-worker') else None)
        ctx.count('scenario:' + name)
    rng = ctx.subrng('scripts')
    for k in range(ctx.n(30, 200)):
        direct = {h: rng.random() < 0.4 for h in ops}
        events, specs = gen_script(rng, ops, cap, 2, rng.choice([3, 6, 12, 25]), maxlen)
        rig, c, done = run_script(ctx, events, specs, direct, model_cases)
        _case(ctx, c, nontrivial=done > 0, sample={'random script': c, 'provider messages': rig.msgs[:12]} if k == 1 else None)
    ctx.notes['t_scripts_s'] = round(time.time() - t0, 1)
    # ---- 3. consumer orderings
    t0 = time.time()
    run_consumer_exhaustive(ctx, model_cases, cap)
    run_consumer_random(ctx, model_cases)
    ctx.notes['t_consumer_s'] = round(time.time() - t0, 1)
    ctx.exhaustive = ctx.tier == 'thorough'
    ctx.notes['explanation'] = ('exhaustive parts: all schedules of 2 threads through generate_transaction_id (thorough; a quarter in '
                                'quick); all legal words x response position x burst place x burst size around the deque bound')
    compare_model(ctx, model_cases)


def search(ctx):
    """deeper search, called when the proof or the correspondence broke and run() found no failing input"""
    # id lock: the classic lost update
    rig = IdLockRig()
    n_act = max(len(rig.program()), 3)
    pauses = [(2, [0] * k + [1] * n_act + [0] * n_act) for k in range(n_act + 1)]     # second caller passes between two actions
    for n, sched in [(2, [0, 1, 0, 1, 0, 1, 0, 1, 0, 1]), (2, [0, 1, 1, 1, 1, 1, 0, 0, 0, 0]), (3, [0, 1, 2] * 6)] + pauses:
        c0, granted, issued, res, counter = rig.forced(n, sched)
        ids = [r for r in res if isinstance(r, int)]
        if len(set(ids)) != len(ids) or len(ids) != n:
            ctx.fail('tx-id:not-unique-increasing', f'ids {res} under schedule {granted}', {'threads': n, 'schedule': sched})
            rig.close()
            return
    rig.close()
    # more scripts
    probe = Rig(n_consumers=1)
    ops, cap = dict(probe.ops), probe.cap
    probe.close()
    rng = ctx.subrng('search')
    cases = []
    for _ in range(300):
        direct = {h: rng.random() < 0.5 for h in ops}
        events, specs = gen_script(rng, ops, cap, 2, rng.choice([6, 12, 30]), 50)
        run_script(ctx, events, specs, direct, cases)
        if ctx.failures:
            return


def replay(ctx, obj):
    case = obj['case']
    before = len(ctx.failures)
    if 'schedule' in case and 'threads' in case:
        rig = IdLockRig()
        c0, granted, issued, res, counter = rig.forced(case['threads'], case['schedule'])
        print('ids per thread:', res, 'issued:', issued)
        ids = [r for r in res if isinstance(r, int)]
        return len(set(ids)) != len(ids) or len(ids) != case['threads'] or [v for _, v in issued] != sorted(v for _, v in issued)
    if 'consumer-case' in case:
        crig = ConsumerRig()
        try:
            consumer_case(ctx, crig, case['consumer-case'], [], 1, 1)
        finally:
            crig.close()
    elif 'consumer-script' in case:
        crig = ConsumerRig()
        try:
            futs = {}
            for ev in case['consumer-script']:
                ev = tuple(tuple(tuple(p) for p in x) if isinstance(x, list) else x for x in ev)
                r = crig.step(ev)
                if ev[0] == 'response':
                    futs[ev[1]] = r
            return any(f.verif_set_calls > 1 for f in futs.values())
        finally:
            crig.close()
    else:
        events, specs = script_from_canon(case['events'])
        rig, c, done = run_script(ctx, events, specs, {h: True for h in case.get('modes', [])}, [])
        print('provider messages:', rig.msgs)
    for f in ctx.failures[before:]:
        print(f['signature'], '-', f['detail'])
    return len(ctx.failures) > before
