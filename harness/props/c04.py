"""C04 — reports are complete, truthful, schema-valid and delivered in version order.

(a) content: every wire message the provider hands to its subscription managers after a transaction is parsed back
    (library reader + an independent lxml walk) and compared with `Reports.mkReports` of the Lean provider model;
    the oracle compares the reports with the change between the table snapshots before/after the commit.
(b) order: the writer program (lock operations, version write, send) is *generated* from a trace of a real transaction
    into Generated/WriterProg.lean; Properties/C04.lean proves for every number of writer threads running a well-locked
    program and every interleaving that each subscriber sees strictly increasing MdibVersions; real writer threads are
    run concurrently as the always-on oracle.
(c) retained copies (periodic report store) keep the values of the version they are labelled with.
Schema validity is supporting evidence only (library validator on every captured message).
"""
from __future__ import annotations

import os
import threading
from decimal import Decimal

from lxml import etree

import core
import loopback as lb
import txharness as tx
from props import c02

READY = True
DRIVERS = ['drv_c04']
PROPERTY_MODULES = ['C04', 'C04Result', 'C04Periodic']
MANIFEST = dict(
    technique='Lean 4 theorems on a transcribed report-construction model (exactness of report content, grouping by MDS) and on '
              'an interleaving semantics of writer threads (any number of threads, any schedule; writer program generated from a '
              'lock/send trace of the real commit path) + differential correspondence on wire messages',
    text='Properties/C04.lean + C04Result.lean + C04Periodic.lean (33 theorems): the transaction result is truthful and complete w.r.t. the table change '
         '(reported value = committed value, every changed state / descriptor reported once); every report of a transaction carries the committed version group; the states in the reports are '
         'exactly the states of the transaction result (permutation), each part holds the states of one MDS, description '
         'modification parts are exactly updated/created/deleted descriptors with their states; for any number of writer threads '
         'whose program keeps version write and send inside one critical section (generated program, checked by decide) the '
         'delivered versions are strictly increasing under every interleaving and no committed version stays unreported; the store of the '
         'fixed-interval periodic reports (program traced per report kind: copy and empty in one critical section, send afterwards) '
         'loses, repeats and invents nothing under any interleaving of commits with the collector. Wire messages of random transaction histories are '
         'parsed back and compared with the model; the oracle compares them with the table change of the commit.',
    note='Partial: XSD validity is not modelled (every captured message is validated with the bundled schemas by the library '
         'validator as supporting evidence). Trusted: Lean kernel, harness, XML reader used to parse the wire messages '
         '(cross-checked by an independent lxml walk of handles and version attributes), fairness/timing of real threads.',
    ref='9 C04')
RULE = ('one case = one transaction script in a history with all wire messages it produced; distinct by canonical script + '
        'position; non-trivial = at least one call')
TRUSTED = c02.TRUSTED + ['library XML reader for wire messages (cross-checked with a plain lxml walk)', 'thread scheduling of CPython for the concurrent-writer oracle']
ASSUMPTIONS = c02.ASSUMPTIONS + ['synchronous subscription managers for content; ordering trace taken for sync and async managers']

NS_MSG = 'http://standards.ieee.org/downloads/11073/11073-10207-2017/message'
NS_PM = 'http://standards.ieee.org/downloads/11073/11073-10207-2017/participant'
KIND_BY_ACTION = {'EpisodicMetricReport': 'metric', 'EpisodicAlertReport': 'alert', 'EpisodicComponentReport': 'component',
                  'EpisodicContextReport': 'context', 'EpisodicOperationalStateReport': 'operational', 'WaveformStream': 'waveform',
                  'DescriptionModificationReport': 'description'}


class Parser:
    def __init__(self, mdib):
        from sdc11073.pysoap.msgreader import MessageReader
        self.defs = mdib.sdc_definitions
        self.reader = MessageReader(self.defs, None, mdib.logger)
        self.msg_types = mdib.data_model.msg_types

    def parse(self, wire):
        """-> dict(kind, vg=(ver, seq, inst), parts=[...]) using the library reader; plus `raw` = independent lxml walk"""
        kind = KIND_BY_ACTION.get(wire.short, wire.short)
        md = self.reader.read_received_message(wire.raw)
        node = md.p_msg.msg_node
        vg = md.mdib_version_group
        cls = {'metric': 'EpisodicMetricReport', 'alert': 'EpisodicAlertReport', 'component': 'EpisodicComponentReport',
               'context': 'EpisodicContextReport', 'operational': 'EpisodicOperationalStateReport', 'waveform': 'WaveformStream',
               'description': 'DescriptionModificationReport'}[kind]
        rep = getattr(self.msg_types, cls).from_node(node)
        parts = []
        if kind == 'description':
            for p in rep.ReportPart:
                parts.append({'mod': p.ModificationType.value, 'parent': p.ParentDescriptor, 'mds': p.SourceMds,
                              'descr': list(p.Descriptor), 'states': list(p.State)})
        elif kind == 'waveform':
            parts.append({'mds': None, 'states': list(rep.State)})
        else:
            for p in rep.ReportPart:
                parts.append({'mds': p.SourceMds, 'states': list(p.values_list)})
        # independent walk
        root = etree.fromstring(wire.raw)
        body = root.find('{http://www.w3.org/2003/05/soap-envelope}Body')
        relem = body[0]
        raw = {'vg': (int(relem.get('MdibVersion', '0')), relem.get('SequenceId'), relem.get('InstanceId')),
               'states': [(e.get('DescriptorHandle'), e.get('Handle'), int(e.get('StateVersion', '0')), int(e.get('DescriptorVersion', '0')))
                          for e in relem.iter() if e.get('DescriptorHandle') is not None and e.get('StateVersion') is not None
                          or (e.tag in ('{%s}State' % NS_MSG, '{%s}MetricState' % NS_MSG, '{%s}AlertState' % NS_MSG, '{%s}ComponentState' % NS_MSG,
                                        '{%s}ContextState' % NS_MSG, '{%s}OperationState' % NS_MSG) and e.get('DescriptorHandle') is not None)]}
        return {'kind': kind, 'vg': (vg.mdib_version, vg.sequence_id, vg.instance_id), 'parts': parts, 'raw': raw}


class RetainedProbe:
    """A real PeriodicReportsHandler (thread not started) receives the states of every commit; what it retains for the next
    periodic report must keep showing the values of the version it is labelled with, whatever the application writes into the
    objects it was handed or into the transaction results it observed."""

    def __init__(self, w):
        from sdc11073.provider.periodicreports import PeriodicReportsHandler
        self.periodic = PeriodicReportsHandler(w.mdib, w.p.device.hosted_services, None)
        w.p.device._periodic_reports_handler = self.periodic  # noqa: SLF001
        self.retained = []
        orig = self.periodic._store_for_periodic_report  # noqa: SLF001

        def store(mdib_version, state_updates, destination_list):
            orig(mdib_version, state_updates, destination_list)
            entry = destination_list[-1]
            self.retained.append((entry, [self.canon(s) for s in entry.states]))
        self.periodic._store_for_periodic_report = store  # noqa: SLF001

    @staticmethod
    def canon(s):
        v = lb.canon_value(s)
        if isinstance(v, dict):
            v = {k: x for k, x in v.items() if k not in ('DateAndTime', 'DeterminationTime')}   # self-updating members of the clock
        return v

    def check(self, ctx, case):
        for entry, canon in self.retained[-30:]:
            now = [self.canon(s) for s in entry.states]
            if now != canon:
                bad = [s.DescriptorHandle for s, a, b in zip(entry.states, now, canon) if a != b]
                ctx.fail('retained-copy-changed', f'periodic store entry labelled version {entry.mdib_version}: states {bad} no longer show the published values', case)
                break
        ctx.count('retained-entries-checked', min(30, len(self.retained)))
        if len(self.retained) > 400:
            del self.retained[:200]


class C04Hook:
    def __init__(self, ctx):
        self.ctx = ctx

    def start(self, w):
        self.parser = Parser(w.mdib)
        self.seq = {}
        self.last_versions = []
        # (c) retained copies: a real PeriodicReportsHandler (thread not started) receives the states of every commit;
        # the application keeps writing into the objects it was handed (late writes)
        from sdc11073.provider.periodicreports import PeriodicReportsHandler
        self.periodic = PeriodicReportsHandler(w.mdib, w.p.device.hosted_services, None)
        w.p.device._periodic_reports_handler = self.periodic  # noqa: SLF001
        self.retained = []
        orig = self.periodic._store_for_periodic_report  # noqa: SLF001
        hook = self

        def store(mdib_version, state_updates, destination_list):
            orig(mdib_version, state_updates, destination_list)
            entry = destination_list[-1]
            hook.retained.append((entry, [lb.canon_value(s) for s in entry.states]))
        self.periodic._store_for_periodic_report = store  # noqa: SLF001
        w.late_writes = True
        w.scribble_results = True      # the application also writes into the transaction results it observed

    def before(self, w, script):
        self.before_snap = c02.norm_snap(lb.snapshot(w.mdib))
        w.p.take_wire()

    def _seq(self, s):
        return self.seq.setdefault(s, len(self.seq) + 1)

    def show_reports(self, w, reps):
        out = []
        for r in reps:
            vg = f"{r['vg'][0]},{self._seq(r['vg'][1])},{w.opt(r['vg'][2])}"
            if r['kind'] == 'description':
                ps = []
                for p in r['parts']:
                    d = p['descr'][0]
                    d._source_mds = p['mds']  # noqa: SLF001  (not transported inside the descriptor)
                    ss = [s for s in p['states'] if not s.is_context_state]
                    cs = [s for s in p['states'] if s.is_context_state]
                    ps.append(f"{p['mod']},{w.hid(p['parent'])},{w.hid(p['mds'])},{w.show_d(d)}[" + ';'.join(w.show_s(s) for s in ss)
                              + '][' + ';'.join(w.show_c(s) for s in cs) + ']')
                out.append(f'DESCR {vg} :: ' + ' && '.join(ps))
            elif r['kind'] == 'context':
                out.append(f'CTX {vg} :: ' + ' && '.join(f"{w.hid(p['mds'])}=[" + ';'.join(w.show_c(s) for s in p['states']) + ']' for p in r['parts']))
            else:
                out.append(f"STATES {r['kind']} {vg} :: " + ' && '.join(
                    f"{w.hid(p['mds'])}=[" + ';'.join(w.show_s(s) for s in p['states']) + ']' for p in r['parts']))
        return ' ## '.join(out)

    def after(self, w, script, info, history):  # noqa: C901, PLR0912
        ctx = self.ctx
        case = {'history': list(history), 'mdib': w.mdib_path}
        wire = w.p.take_wire()
        ctx.count('outcome:' + info['outcome'])
        for entry, canon in self.retained[-30:]:
            now = [lb.canon_value(s) for s in entry.states]
            if now != canon:
                bad = [s.DescriptorHandle for s, a, b in zip(entry.states, now, canon) if a != b]
                ctx.fail('retained-copy-changed', f'periodic store entry labelled version {entry.mdib_version}: states {bad} no longer show the published values', case)
                break
        ctx.count('retained-entries-checked', min(30, len(self.retained)))
        if len(self.retained) > 400:
            del self.retained[:200]
        for e in w.p.capture_errors:
            ctx.fail('report-not-schema-valid-or-not-serialisable', e[:300], case)
        w.p.capture_errors.clear()
        if info['outcome'] != 'committed':
            if wire:
                ctx.fail('report-without-commit', f"{info['outcome']}: {[m.short for m in wire]}", case)
            return
        snap = c02.norm_snap(lb.snapshot(w.mdib))
        reps = [self.parser.parse(m) for m in wire]
        for r in reps:
            ctx.count('report:' + r['kind'])
        # waveform reports have no parts in BICEPS (one flat state list): the model groups them by MDS like the others;
        # compare them as one part per MDS using the provider table
        for r in reps:
            if r['kind'] == 'waveform':
                groups = {}
                for s in r['parts'][0]['states']:
                    d = w.mdib.descriptions.handle.get_one(s.DescriptorHandle, allow_none=True)
                    groups.setdefault(d.source_mds if d is not None else None, []).append(s)
                r['parts'] = [{'mds': k, 'states': v} for k, v in groups.items()]
        w.emit(f"reports {self._seq(w.mdib.sequence_id)} {w.opt(w.mdib.instance_id)}", self.show_reports(w, reps))
        self.oracle(w, reps, snap, case)

    def oracle(self, w, reps, snap, case):  # noqa: C901, PLR0912
        ctx = self.ctx
        prev = self.before_snap
        vg_now = (snap['version'], snap['sequence_id'], snap['instance_id'])
        reported_s, reported_c, reported_d = {}, {}, {}
        for r in reps:
            if tuple(r['vg']) != vg_now:
                ctx.fail('report-version-group-wrong', f"{r['kind']} report carries {r['vg']}, mdib is at {vg_now}", case)
            if r['raw']['vg'][0] != r['vg'][0] or r['raw']['vg'][1] != r['vg'][1]:
                ctx.fail('report-version-group-wrong', f"xml attributes {r['raw']['vg']} vs reader {r['vg']}", case)
            for p in r['parts']:
                for st in p['states']:
                    key = st.Handle if st.is_context_state else st.DescriptorHandle
                    tab = reported_c if st.is_context_state else reported_s
                    if key in tab and r['kind'] != 'description' and tab[key][1] != 'description':
                        ctx.fail('state-reported-twice', f'{key} in {tab[key][1]} and {r["kind"]}', case)
                    cur = tab.get(key)
                    if cur is None or r['kind'] != 'description':
                        tab[key] = (st, r['kind'], p.get('mds'))
                    # grouped under the MDS it belongs to
                    dh = st.DescriptorHandle
                    mds = self.mds_of(snap, dh)
                    if r['kind'] != 'description' and mds is not None and p.get('mds') != mds:
                        ctx.fail('state-under-wrong-mds', f'{key}: part SourceMds={p.get("mds")}, descriptor belongs to {mds}', case)
                for d in p.get('descr', []):
                    reported_d.setdefault(d.Handle, []).append((d, p['mod'], p['parent'], p['mds']))
                    if p['mod'] in ('Crt', 'Upt'):
                        # a description modification part carries the changed states of its descriptor, all of them
                        in_part = sorted((st.Handle if st.is_context_state else st.DescriptorHandle) for st in p['states'])
                        changed = sorted([h for h, c in snap['states'].items() if h == d.Handle and prev['states'].get(h) != c]
                                         + [h for h, c in snap['context_states'].items()
                                            if c['dh'] == d.Handle and prev['context_states'].get(h) != c])
                        if in_part != changed:
                            ctx.fail('description-part-states-incomplete',
                                     f'{p["mod"]} part of {d.Handle} carries states {in_part}, the commit changed {changed}', case)
        # truthful: reported values = committed values
        for key, (st, kind, _mds) in reported_s.items():
            cur = snap['states'].get(key)
            if cur is None:
                ctx.fail('reported-state-not-in-mdib', f'{key} ({kind})', case)
            elif (cur['sv'], cur['dv']) != (st.StateVersion, st.DescriptorVersion) or \
                    tx.strip_keys(lb.state_body(st), ('DeterminationTime', 'DateAndTime')) != cur['body']:
                ctx.fail('reported-state-differs-from-committed', f'{key}: report sv={st.StateVersion} dv={st.DescriptorVersion}, mdib sv={cur["sv"]} dv={cur["dv"]}', case)
        for key, (st, kind, _mds) in reported_c.items():
            cur = snap['context_states'].get(key)
            if cur is None:
                ctx.fail('reported-state-not-in-mdib', f'context {key} ({kind})', case)
            elif (cur['sv'], cur['dv']) != (st.StateVersion, st.DescriptorVersion) or \
                    tx.strip_keys(lb.state_body(st), ('DeterminationTime', 'DateAndTime')) != cur['body']:
                ctx.fail('reported-state-differs-from-committed', f'context {key}: sv {st.StateVersion} vs {cur["sv"]}', case)
        # complete: every changed / new state is reported
        for tab, rep in (('states', reported_s), ('context_states', reported_c)):
            for key, cur in snap[tab].items():
                if prev[tab].get(key) != cur and key not in rep:
                    ctx.fail('changed-state-not-reported', f'{tab}[{key}] changed (sv {prev[tab].get(key, {}).get("sv")} -> {cur["sv"]}) but is in no report', case)
                # a state that existed before and was changed is (also) in the episodic report of its kind: a subscriber of the
                # state reports only must not miss it because the change came with a descriptor transaction
                if key in prev[tab] and prev[tab][key] != cur and key in rep and rep[key][1] == 'description':
                    ctx.fail('changed-state-not-in-episodic-report',
                             f'{tab}[{key}] changed (sv {prev[tab][key].get("sv")} -> {cur["sv"]}) and is only in the DescriptionModificationReport', case)
            for key in rep:
                if prev[tab].get(key) == snap[tab].get(key):
                    ctx.fail('unchanged-state-reported', f'{tab}[{key}]', case)
        # descriptors
        for h, cur in snap['descriptors'].items():
            if prev['descriptors'].get(h) != cur:
                mods = [m for (_, m, _, _) in reported_d.get(h, [])]
                want = 'Crt' if h not in prev['descriptors'] else 'Upt'
                if want not in mods:
                    ctx.fail('changed-descriptor-not-reported', f'{h}: expected a {want} part, got {mods}', case)
        for h in prev['descriptors']:
            if h not in snap['descriptors'] and 'Del' not in [m for (_, m, _, _) in reported_d.get(h, [])]:
                ctx.fail('deleted-descriptor-not-reported', h, case)
        for h, lst in reported_d.items():
            if len(lst) > 1:
                ctx.fail('descriptor-reported-twice', f'{h}: {[m for (_, m, _, _) in lst]}', case)
            for d, mod, parent, mds in lst:
                cur = snap['descriptors'].get(h)
                if mod in ('Crt', 'Upt'):
                    if cur is None:
                        ctx.fail('reported-descriptor-not-in-mdib', f'{h} {mod}', case)
                    elif cur['ver'] != d.DescriptorVersion or cur['body'] != lb.descr_body(d) or cur['parent'] != parent:
                        rb = lb.descr_body(d)
                        keys = sorted(k for k in set(rb) | set(cur['body']) if rb.get(k) != cur['body'].get(k))
                        ctx.fail('reported-descriptor-differs-from-committed', f'{h} {mod}: report ver={d.DescriptorVersion} parent={parent}, mdib ver={cur["ver"]} parent={cur["parent"]}; differing content: {keys}', case)
                    elif self.mds_of(snap, h) != mds:
                        ctx.fail('descriptor-under-wrong-mds', f'{h}: SourceMds={mds}', case)
                elif cur is not None:
                    ctx.fail('deleted-descriptor-still-in-mdib', h, case)
                if mod == 'Upt' and prev['descriptors'].get(h) == cur:
                    ctx.fail('unchanged-descriptor-reported', h, case)

    @staticmethod
    def mds_of(snap, h):
        seen = 0
        while h is not None and seen < 50:
            d = snap['descriptors'].get(h)
            if d is None:
                return None
            if d['parent'] is None:
                return h
            h = d['parent']
            seen += 1
        return None


# ---------------------------------------------------------------------------------------------------------------
# (b) order: trace of the real commit path -> writer program; concurrent writers as oracle


class TracedLock:
    def __init__(self, real, name, log):
        self._real, self._name, self._log = real, name, log
        self._depth = {}

    def acquire(self, *a, **k):
        r = self._real.acquire(*a, **k)
        tid = threading.get_ident()
        self._depth[tid] = self._depth.get(tid, 0) + 1
        if self._depth[tid] == 1:
            self._log.append(('acq', self._name))
        return r

    def release(self):
        tid = threading.get_ident()
        self._depth[tid] -= 1
        if self._depth[tid] == 0:
            self._log.append(('rel', self._name))
        self._real.release()

    def __enter__(self):
        self.acquire()
        return self

    def __exit__(self, *a):
        self.release()


class FakeSubscriber:
    """Stands in for a subscription: `delivered` is logged when the notification has really been handed over.
    The first delivery is slow: it completes only when the harness releases it (or after `max_wait` s)."""
    notify_to_address = 'http://127.0.0.1:1/slow'
    is_valid = True

    def __init__(self, log, slow_first, max_wait=3.6):
        self.log, self.slow_first, self.max_wait = log, slow_first, max_wait
        self.release = threading.Event()
        self.started = threading.Event()
        self.n = 0
        self.received = []

    def _version(self, body_node):
        return int(body_node.get('MdibVersion', '0'))

    def send_notification_report(self, body_node, action):
        import time as _t
        self.n += 1
        self.started.set()
        if self.slow_first and self.n == 1:
            self.release.wait(self.max_wait)
        else:
            _t.sleep(0.01)
        self.received.append(self._version(body_node))
        self.log.append(('delivered', None))

    async def async_send_notification_report(self, body_node, action):
        import asyncio
        import time as _t
        self.n += 1
        self.started.set()
        if self.slow_first and self.n == 1:
            t0 = _t.time()
            while not self.release.is_set() and _t.time() - t0 < self.max_wait:
                await asyncio.sleep(0.02)
        else:
            await asyncio.sleep(0.01)
        self.received.append(self._version(body_node))
        self.log.append(('delivered', None))


def install_fake_subscriber(p, fake):
    for mgr in p.device._subscriptions_managers.values():  # noqa: SLF001
        mgr._get_subscriptions_for_action = lambda action, _f=fake: [_f]  # noqa: SLF001


def trace_writer(sync=True):
    """One real transaction with traced locks and a (slow) subscriber: lock ops, version write, completed deliveries."""
    p = lb.Provider(start=True, role_providers=False, sync=sync)
    try:
        m = p.mdib
        log = []
        m._tr_lock = TracedLock(m._tr_lock, 'tr', log)  # noqa: SLF001
        m.mdib_lock = TracedLock(m.mdib_lock, 'mdib', log)
        cls = type(m)

        class Traced(cls):
            @property
            def mdib_version(self):
                return self.__dict__['_v']

            @mdib_version.setter
            def mdib_version(self, v):
                if '_v' in self.__dict__ and log is not None:
                    log.append(('setVersion', None))
                self.__dict__['_v'] = v
        v = m.mdib_version
        m.__class__ = Traced
        m.__dict__['_v'] = v
        fake = FakeSubscriber(log, slow_first=not sync)     # the async manager is traced with a subscriber slower than any internal wait
        install_fake_subscriber(p, fake)
        h = tx.World(p, __import__('random').Random(1)).states_of_kind('metric')[0]

        def commit():
            with m.metric_state_transaction() as mgr:
                st = mgr.get_state(h)
                if st.MetricValue is None:
                    st.mk_metric_value()
                st.MetricValue.Value = Decimal(1)
            log.append(('commitReturned', None))
        t = threading.Thread(target=commit, daemon=True)
        t.start()
        t.join(fake.max_wait + 0.4 if not sync else 5)     # a correct writer is still inside its send here (async case)
        fake.release.set()
        t.join(10)
        import time as _t
        t0 = _t.time()
        while not any(e == 'delivered' for e, _ in log) and _t.time() - t0 < 5:
            _t.sleep(0.02)
        return list(log)
    finally:
        p.stop()


def setup_periodic(p, handles_per_kind=2):
    """periodic retrievability for a few metrics, an alert, a component and the context descriptors; returns the handler"""
    from sdc11073.provider.periodicreports import PeriodicReportsHandler
    m = p.mdib
    w = tx.World(p, __import__('random').Random(3))
    hs = (w.states_of_kind('metric')[:handles_per_kind] + w.states_of_kind('alert')[:1] + w.states_of_kind('component')[:1]
          + w.descr_handles(lambda d: d.is_context_descriptor)[:2])
    w.close()
    m.retrievability_periodic.clear()
    m.retrievability_periodic[1000] = list(hs)
    return PeriodicReportsHandler(m, p.device.hosted_services, None), hs


class _StopLoop(Exception):
    pass


def run_collector_once(handler, before_body=None, loop='_periodic_reports_send_loop'):
    """exactly one iteration of the real `_periodic_reports_send_loop` (or of the fixed-interval loop)"""
    import sdc11073.provider.periodicreports as pr
    calls = [0]

    class OneShotTimer:
        def __init__(self, period_in_seconds):
            pass

        def remaining_time(self):
            return 0

        def wait_next_interval_begin(self):
            calls[0] += 1
            if calls[0] > 1:
                raise _StopLoop
            if before_body:
                before_body()
    orig_timer, orig_sleep = pr.intervaltimer.IntervalTimer, pr.time.sleep
    pr.intervaltimer.IntervalTimer = OneShotTimer
    pr.time = __import__('types').SimpleNamespace(sleep=lambda s: None, time=orig_sleep.__self__.time if hasattr(orig_sleep, '__self__') else __import__('time').time)
    handler._run_periodic_reports_thread = True  # noqa: SLF001
    import contextlib
    import io
    try:
        with contextlib.redirect_stdout(io.StringIO()):      # the loop prints debugging output
            getattr(handler, loop)()
    except _StopLoop:
        pass
    finally:
        pr.intervaltimer.IntervalTimer = orig_timer
        pr.time = __import__('time')


def trace_periodic_collector():
    """lock / access trace of one iteration of the periodic report collector (label = mdib_version, state copies)"""
    import locktrace
    p = lb.Provider(start=False, role_providers=False)
    handler, _hs = setup_periodic(p)
    tracer = locktrace.install_tracing(p.mdib)
    tracer.enabled = False

    def begin():
        tracer.enabled = True
    try:
        run_collector_once(handler, before_body=begin)
    finally:
        tracer.enabled = False
    # what labels the copies is `mdib_version`; the report-level version group is read at send time by design, and the
    # descriptor look-ups only classify handles (descriptor kinds never change): neither belongs to the snapshot
    evs = [e for e in tracer.events if e[2] not in ('descriptions', 'descriptor', 'descriptor-object') and e[1] != 'deref']
    events = []
    i = 0
    while i < len(evs):
        # `mdib_version_group` = consecutive reads of mdib_version, sequence_id, instance_id (report-level stamp at send time)
        if [x[2] for x in evs[i:i + 3]] == ['mdib_version', 'sequence_id', 'instance_id'] and all(x[1] == 'rdV' for x in evs[i:i + 3]):
            i += 3
            continue
        events.append(evs[i])
        i += 1
    return locktrace.to_actions(events)


def trace_periodic_store():
    """Per report kind: the operations of one period of the real `_simple_periodic_reports_send_loop` on the store list of that
    kind, grouped into blocks (inside one critical section of `_periodic_reports_lock` = one block, outside = one block each)."""
    import sdc11073.provider.periodicreports as pr
    p = lb.Provider(mdib_path=c02.MDIBS[1], start=False, role_providers=False)
    try:
        m = p.mdib
        w = tx.World(p, __import__('random').Random(5))
        handler = pr.PeriodicReportsHandler(m, p.device.hosted_services, None)
        handler._periodic_reports_interval = 1.0  # noqa: SLF001
        events = []   # (kind or None, what)

        class Lock:
            def __init__(self, inner):
                self.inner = inner

            def __enter__(self):
                self.inner.acquire()
                events.append((None, 'acq'))

            def __exit__(self, *a):
                events.append((None, 'rel'))
                self.inner.release()

            def acquire(self, *a, **k):
                r = self.inner.acquire(*a, **k)
                events.append((None, 'acq'))
                return r

            def release(self):
                events.append((None, 'rel'))
                self.inner.release()

        class Store(list):
            kind = None

            def __getitem__(self, i):
                if isinstance(i, slice):
                    events.append((self.kind, 'take'))
                return list.__getitem__(self, i)

            def copy(self):
                events.append((self.kind, 'take'))
                return list.copy(self)

            def __delitem__(self, i):
                events.append((self.kind, 'clear'))
                return list.__delitem__(self, i)

            def clear(self):
                events.append((self.kind, 'clear'))
                return list.clear(self)
        names = {'metric': '_periodic_metric_reports', 'alert': '_periodic_alert_reports', 'component': '_periodic_component_state_reports',
                 'context': '_periodic_context_state_reports', 'operational': '_periodic_operational_state_reports'}
        for kind, attr in names.items():
            st = Store(getattr(handler, attr))
            st.kind = kind
            setattr(handler, attr, st)
        p.device._periodic_reports_handler = handler  # noqa: SLF001  (the device hands every commit to it)
        # one commit of every kind, so that every store has something to send
        for kind in ('metric', 'alert', 'component', 'operational'):
            hs = w.states_of_kind(kind)
            if hs:
                with getattr(m, f'{kind}_state_transaction')() as mgr:
                    w.mutate_state(mgr.get_state(hs[0]), 11)
        with m.context_state_transaction() as mgr:
            mgr.mk_context_state('PC.mds0', 'ps_patient', set_associated=False)
        handler._periodic_reports_lock = Lock(handler._periodic_reports_lock)  # noqa: SLF001
        ses, cs = p.device.hosted_services.state_event_service, p.device.hosted_services.context_service
        sends = {'metric': (ses, 'send_periodic_metric_report'), 'alert': (ses, 'send_periodic_alert_report'),
                 'component': (ses, 'send_periodic_component_state_report'), 'context': (cs, 'send_periodic_context_report'),
                 'operational': (ses, 'send_periodic_operational_state_report')}
        originals = {}
        for kind, (srv, name) in sends.items():
            originals[kind] = getattr(srv, name)
            setattr(srv, name, lambda *a, _k=kind, **k: events.append((_k, 'send')))
        try:
            run_collector_once(handler, loop='_simple_periodic_reports_send_loop')
        finally:
            for kind, (srv, name) in sends.items():
                setattr(srv, name, originals[kind])
        w.close()
    finally:
        p.stop()
    progs = {}
    for kind in names:
        blocks, cur, locked = [], None, False
        for k, what in events:
            if what == 'acq':
                locked, cur = True, []
            elif what == 'rel':
                if cur:
                    blocks.append(cur)
                locked, cur = False, None
            elif k == kind:
                if locked:
                    cur.append(what)
                else:
                    blocks.append([what])
        progs[kind] = blocks
    return progs


def periodic_forced(ctx):
    """Forced schedule on the real periodic collector: one transaction commits just before the collector takes mdib_lock,
    another right after it released it. Every PeriodicStates(label, copies) handed to the report services must show, for
    every copy, the value that state had at the labelled MdibVersion."""
    import locktrace
    p = lb.Provider(start=False, role_providers=False)
    m = p.mdib
    handler, hs = setup_periodic(p)
    w = tx.World(p, ctx.subrng('periodic'))
    metrics = [h for h in hs if h in w.states_of_kind('metric')]
    history = {}

    def record():
        history[m.mdib_version] = {s.DescriptorHandle: (s.StateVersion, lb.canon_value(s)) for s in m.states.objects}
    record()
    tracer = locktrace.install_tracing(m)
    captured = []
    for srv, names in ((p.device.hosted_services.state_event_service, ('send_periodic_metric_report', 'send_periodic_alert_report',
                                                                         'send_periodic_component_state_report',
                                                                         'send_periodic_operational_state_report')),
                       (p.device.hosted_services.context_service, ('send_periodic_context_report',))):
        for n in names:
            if hasattr(srv, n):
                setattr(srv, n, (lambda lst, vg, _n=n: captured.append((_n, [(x.mdib_version, list(x.states)) for x in lst]))))
    done = {'before': False, 'after': False}

    def commit(h, val):
        with tracer.suspended():
            with m.metric_state_transaction() as mgr:
                st = mgr.get_state(h)
                if st.MetricValue is None:
                    st.mk_metric_value()
                st.MetricValue.Value = Decimal(val) if st.NODETYPE.localname == 'NumericMetricState' else f'v{val}'
            record()

    def on_event(kind, what, holds):
        if kind == 'before-acq' and not done['before']:
            done['before'] = True
            commit(metrics[0], 11)
        elif kind == 'rel' and not done['after']:
            done['after'] = True
            commit(metrics[-1], 22)
    tracer.on_event = on_event

    def begin():
        tracer.enabled = True
    try:
        run_collector_once(handler, before_body=begin)
    finally:
        tracer.enabled = False
        w.close()
    case = {'periodic_forced': True, 'handles': hs}
    for name, lst in captured:
        for label, states in lst:
            snap = history.get(label)
            bad = []
            for st in states:
                if st.is_context_state:
                    continue
                exp = snap.get(st.DescriptorHandle) if snap else None
                if exp is None or exp != (st.StateVersion, lb.canon_value(st)):
                    bad.append(f'{st.DescriptorHandle}: copy has StateVersion {st.StateVersion}, version {label} had {exp[0] if exp else None}')
            if bad:
                ctx.fail('periodic-copy-not-of-labelled-version', f'{name}: copies labelled MdibVersion {label}: ' + '; '.join(bad[:3]), case)
    if not captured:
        ctx.fail('periodic-collector-sent-nothing', 'no periodic report was handed to the report services', case)
    ctx.case({**case, 'reports': [n for n, _ in captured]}, nontrivial=True)
    ctx.count('periodic-forced-runs')


def wire_validity_scenario(ctx):
    """Every message the provider really hands to the transport (real subscription objects, real soap clients of the
    synchronous manager, a real subscribed consumer on localhost) validates against the bundled schemas — also when the
    application commits content that is not schema-valid: the library has to refuse, not to send."""
    import sdc11073.pysoap.soapclient as sc
    p = lb.Provider(mdib_path=c02.MDIBS[1], start=True, role_providers=False, sync=True)
    sent = []
    orig = sc.SoapClient._send_soap_request  # noqa: SLF001

    def spy(self, path, xml, log_msg):
        sent.append(xml)
        return orig(self, path, xml, log_msg)
    sc.SoapClient._send_soap_request = spy  # noqa: SLF001
    cons = None
    try:
        cons = lb.Consumer(p, init_mdib=False, subscribe_reports=True)
        m = p.mdib
        w = tx.World(p, ctx.subrng('wirevalid'))
        del sent[:]
        steps = []

        def attempt(label, fn):
            try:
                fn()
                steps.append((label, 'committed'))
            except Exception as ex:  # noqa: BLE001
                steps.append((label, type(ex).__name__))

        def valid_metric():
            with m.metric_state_transaction() as mgr:
                st = mgr.get_state(w.states_of_kind('metric')[0])
                w.mutate_state(st, 3)

        def invalid_context():
            with m.context_state_transaction() as mgr:
                st = mgr.mk_context_state('PC.mds0', 'wv_patient', set_associated=True)
                st.BindingMdibVersion = -1       # not an xsd:unsignedLong

        def invalid_descriptor():
            with m.descriptor_transaction() as mgr:
                d = mgr.get_descriptor(w.states_of_kind('metric')[1])
                d.DescriptorVersion = -3

        def valid_context():
            with m.context_state_transaction() as mgr:
                mgr.mk_context_state('PC.mds0', 'wv_patient2', set_associated=False)
        for label, fn in (('valid metric', valid_metric), ('context state with BindingMdibVersion=-1', invalid_context),
                          ('descriptor with DescriptorVersion=-3', invalid_descriptor), ('valid context', valid_context)):
            attempt(label, fn)
        w.close()
        import time as _t
        _t.sleep(0.3)
        reader = p.device.msg_reader
        bad = []
        n_reports = 0
        for xml in sent:
            if b'Report' not in xml and b'WaveformStream' not in xml:
                continue
            n_reports += 1
            try:
                reader.read_received_message(xml, validate=True)
            except Exception as ex:  # noqa: BLE001
                bad.append(f'{type(ex).__name__}: {str(ex)[:120]}')
        case = {'wire_validity': True, 'steps': steps, 'reports_on_the_wire': n_reports}
        if bad:
            ctx.fail('schema-invalid-message-on-the-wire', f'{len(bad)} of {n_reports} notifications handed to the transport do not validate: {bad[0]}', case)
        if n_reports == 0:
            ctx.fail('wire-validity-scenario-saw-no-report', str(steps), case)
        ctx.case(case, nontrivial=True)
        ctx.count('wire-validity-reports', n_reports)
    finally:
        sc.SoapClient._send_soap_request = orig  # noqa: SLF001
        if cons is not None:
            cons.stop()
        p.stop()


class _Peer:
    """a subscription object as the manager sees it (duck-typed like FakeSubscriber); `fails_with` = exception factory"""
    is_valid = True

    def __init__(self, name, fails_with=None):
        self.name, self.fails_with = name, fails_with
        self.notify_to_address = f'http://127.0.0.1:1/{name}'
        self.received = []

    def send_notification_report(self, body_node, action):
        if self.fails_with is not None:
            raise self.fails_with()
        self.received.append((action.rsplit('/', 1)[-1], int(body_node.get('MdibVersion', '0'))))

    async def async_send_notification_report(self, body_node, action):
        self.send_notification_report(body_node, action)

    def __repr__(self):
        return f'_Peer({self.name})'


def peer_failures():
    """what a misbehaving / unreachable subscriber makes the real subscription object raise (decided by the real soap
    clients: transport errors are mapped to NotConnected, error status to HTTPReturnCodeError, an answer that is not xml to
    XMLSyntaxError; connect errors come through as they are)"""
    import http.client

    from lxml import etree
    from sdc11073.pysoap.soapclient import HTTPReturnCodeError

    def garbage():
        try:
            etree.fromstring(b'OK')
        except etree.XMLSyntaxError as ex:
            return ex
        return etree.XMLSyntaxError('verif', 1, 1, 1)
    return [('connection-refused', lambda: ConnectionRefusedError('verif: refused')),
            ('not-connected', lambda: http.client.NotConnected()),
            ('time-out', lambda: TimeoutError('verif: timed out')),
            ('http-error-status', lambda: HTTPReturnCodeError(500, 'verif: internal error', None)),
            ('answer-not-xml', garbage)]


def peer_failure_isolation(ctx, sync):
    """One subscriber is unreachable / answers nonsense: that is its problem. The commit must not raise for it, and every
    other subscriber still receives all reports of the commit (each kind, the committed MdibVersion), bad peer first or last."""
    for label, mk_exc in peer_failures():
        for bad_first in (True, False):
            p = lb.Provider(mdib_path=c02.MDIBS[0], start=True, role_providers=False, sync=sync)
            try:
                bad, good = _Peer('bad', mk_exc), _Peer('good')
                peers = [bad, good] if bad_first else [good, bad]
                for mgr in p.device._subscriptions_managers.values():  # noqa: SLF001
                    mgr._get_subscriptions_for_action = lambda action, _p=peers: list(_p)  # noqa: SLF001
                w = tx.World(p, ctx.subrng('peer', label))
                m = p.mdib
                v0 = m.mdib_version
                raised = []

                def commit(kind, handle):
                    try:
                        if kind == 'descriptor':
                            with m.descriptor_transaction() as mgr:
                                w.mutate_descr(mgr.get_descriptor(handle), 5)
                        else:
                            with getattr(m, f'{kind}_state_transaction')() as mgr:
                                w.mutate_state(mgr.get_state(handle), 5)
                    except Exception as ex:  # noqa: BLE001
                        raised.append(f'{kind}: {type(ex).__name__}')
                hm, ha = w.states_of_kind('metric')[0], w.states_of_kind('alert')[0]
                commit('metric', hm)
                commit('alert', ha)
                commit('descriptor', hm)
                import time as _t
                t0 = _t.time()
                want = ['EpisodicMetricReport', 'EpisodicAlertReport', 'DescriptionModificationReport', 'EpisodicMetricReport']
                while len(good.received) < len(want) and _t.time() - t0 < 3:
                    _t.sleep(0.02)
                got = [a for a, _ in good.received]
                case = {'peer_failure': label, 'bad_peer_first': bad_first, 'sync': sync, 'healthy_subscriber_received': good.received}
                if raised:
                    ctx.fail('commit-raised-for-one-bad-subscriber', f'{label}: {raised}', case)
                if m.mdib_version == v0 + 3 and sorted(got) != sorted(want):
                    ctx.fail('healthy-subscriber-missed-report',
                             f'one subscriber fails with {label}; the other one received {got} instead of {want}', case)
                if [v for _, v in good.received] != sorted(v for _, v in good.received):
                    ctx.fail('reports-out-of-version-order', str(good.received), case)
                ctx.case(case, nontrivial=True)
                ctx.count('peer-failure-runs')
                w.close()
            finally:
                p.stop()


def transient_failure_scenario(ctx):
    """A real subscribed consumer; the transport fails exactly once (HTTP 503 for one notification). What the subscriber is
    sent afterwards must not skip that report silently: the versions handed to the transport for one subscription and one
    action are a gap-free run of the committed ones (the library ends a subscription that missed a report)."""
    import sdc11073.pysoap.soapclient as sc
    from sdc11073.pysoap.soapclient import HTTPReturnCodeError
    import re
    for fail_at in (1, 2):
        p = lb.Provider(mdib_path=c02.MDIBS[0], start=True, role_providers=False, sync=True)
        orig_send = sc.SoapClient._send_soap_request  # noqa: SLF001
        log = []          # (version, 'ok' | 'failed') for EpisodicMetricReport notifications

        def spy(self, path, xml, log_msg, _fail_at=fail_at):
            if b'/EpisodicMetricReport' in xml:
                m_ = re.search(rb'MdibVersion="(\d+)"', xml)
                v = int(m_.group(1)) if m_ else -1
                if len([1 for x in log if x[1] == 'ok']) == _fail_at and not any(x[1] == 'failed' for x in log):
                    log.append((v, 'failed'))
                    raise HTTPReturnCodeError(503, 'verif: service unavailable', None)
                log.append((v, 'ok'))
            return orig_send(self, path, xml, log_msg)
        sc.SoapClient._send_soap_request = spy  # noqa: SLF001
        cons = None
        try:
            cons = lb.Consumer(p, init_mdib=False, subscribe_reports=True)
            m = p.mdib
            w = tx.World(p, ctx.subrng('transient', fail_at))
            h = w.states_of_kind('metric')[0]
            committed = []
            for i in range(5):
                try:
                    with m.metric_state_transaction() as mgr:
                        w.mutate_state(mgr.get_state(h), 10 + i)
                    committed.append(m.mdib_version)
                except Exception as ex:  # noqa: BLE001
                    ctx.fail('commit-raised-for-one-bad-subscriber', f'transient HTTP 503 of a subscriber: {type(ex).__name__}', {'transient_failure': fail_at})
            w.close()
            failed = [v for v, r in log if r == 'failed']
            ok = [v for v, r in log if r == 'ok']
            case = {'transient_failure': fail_at, 'committed_versions': committed, 'handed_to_transport': log}
            later = [v for v in ok if failed and v > failed[0]]
            if later:
                ctx.fail('subscriber-missed-report',
                         f'the notification for MdibVersion {failed[0]} failed (HTTP 503) and was never repeated, but the same subscription was '
                         f'sent {later} afterwards: a silent gap', case)
            if not failed:
                ctx.fail('transient-failure-scenario-not-exercised', str(log), case)
            ctx.case(case, nontrivial=True)
            ctx.count('transient-failure-runs')
        finally:
            sc.SoapClient._send_soap_request = orig_send  # noqa: SLF001
            if cons is not None:
                cons.stop()
            p.stop()


def sequence_restart_scenario(ctx):
    """The application starts a new sequence on a running MDIB (new SequenceId, next InstanceId, MdibVersion counted from 0
    again or continued): every report after that carries the CURRENT version group, also when a version number repeats."""
    import re
    import uuid
    for reset_version in (True, False):
        p = lb.Provider(mdib_path=c02.MDIBS[1], start=False, role_providers=False)
        try:
            m = p.mdib
            w = tx.World(p, ctx.subrng('restart', reset_version))
            h = w.states_of_kind('metric')[0]
            problems = []

            def commit_and_check(label):
                p.take_wire()
                with m.metric_state_transaction() as mgr:
                    w.mutate_state(mgr.get_state(h), len(label))
                for msg in p.take_wire():
                    body = msg.raw
                    got = (int(re.search(rb'MdibVersion="(\d+)"', body).group(1)),
                           re.search(rb'SequenceId="([^"]*)"', body).group(1).decode(),
                           int(mi.group(1)) if (mi := re.search(rb'InstanceId="(\d+)"', body)) else None)
                    want = (m.mdib_version, m.sequence_id, m.instance_id)
                    if got != want or (msg.mdib_version, msg.sequence_id, msg.instance_id) != want:
                        problems.append(f'{label}: {msg.short} carries {got}, the mdib is at {want}')
            commit_and_check('first sequence')
            m.sequence_id = uuid.uuid4().urn
            m.instance_id = (m.instance_id or 0) + 1
            if reset_version:
                m.mdib_version = 0
            commit_and_check('after the restart')
            commit_and_check('after the restart, second commit')
            case = {'sequence_restart': True, 'version_reset': reset_version}
            if problems:
                ctx.fail('report-version-group-wrong', '; '.join(problems[:3]), case)
            ctx.case(case, nontrivial=True)
            ctx.count('sequence-restart-runs')
            w.close()
        finally:
            p.stop()


def observer_interference_scenario(ctx):
    """An application observes the provider's `*_by_handle` observables and writes into what it receives (it gets copies, so
    that is its right). The reports of that commit must still carry the committed values: what is on the wire equals what
    is in the tables."""
    from sdc11073 import observableproperties as properties
    for path in c02.MDIBS[:1 if ctx.tier == 'quick' else 2]:
        p = lb.Provider(mdib_path=path, start=False, role_providers=False)
        try:
            m = p.mdib
            w = tx.World(p, ctx.subrng('observer'))
            parser = Parser(m)
            touched = []

            def scribble(d):
                for obj in list((d or {}).values()):
                    touched.append(type(obj).__name__)
                    try:
                        if getattr(obj, 'is_state_container', False) or hasattr(obj, 'StateVersion'):
                            w.mutate_state(obj, 900 + len(touched))
                        else:
                            w.mutate_descr(obj, 900 + len(touched))
                        tx.deep_scribble(obj)
                    except Exception:  # noqa: BLE001
                        pass
            names = ['alert_by_handle', 'component_by_handle', 'context_by_handle', 'metrics_by_handle', 'operation_by_handle',
                     'waveform_by_handle', 'new_descriptors_by_handle', 'updated_descriptors_by_handle', 'deleted_descriptors_by_handle']
            properties.bind(m, **{n: scribble for n in names})
            problems = []
            for kind in ('metric', 'alert', 'component', 'operational', 'rt'):
                hs = w.states_of_kind(kind)
                if not hs:
                    continue
                p.take_wire()
                try:
                    with getattr(m, {'rt': 'rt_sample_state_transaction'}.get(kind, f'{kind}_state_transaction'))() as mgr:
                        w.mutate_state(mgr.get_state(hs[0]), 7)
                except Exception as ex:  # noqa: BLE001
                    problems.append(f'{kind} commit raised {type(ex).__name__}: {str(ex)[:120]} (what an observer wrote into its copy reached the report)')
                for e in p.capture_errors:
                    problems.append(f'{kind}: report could not be serialised: {e[:160]}')
                del p.capture_errors[:]
                for msg in p.take_wire():
                    rep = parser.parse(msg)
                    for part in rep['parts']:
                        for st in part['states']:
                            tab = m.states.descriptor_handle.get_one(st.DescriptorHandle, allow_none=True)
                            if tab is not None and w.show_s(st) != w.show_s(tab):
                                problems.append(f'{msg.short}: state {st.DescriptorHandle} on the wire differs from the committed one')
            p.take_wire()
            with m.context_state_transaction() as mgr:
                w.mutate_state(mgr.mk_context_state('PC.mds0', 'obs_patient', set_associated=True), 5)
            for msg in p.take_wire():
                rep = parser.parse(msg)
                for part in rep['parts']:
                    for st in part['states']:
                        tab = m.context_states.handle.get_one(st.Handle, allow_none=True)
                        if tab is not None and w.show_c(st) != w.show_c(tab):
                            problems.append(f'{msg.short}: context state {st.Handle} on the wire differs from the committed one')
            tx.undo_empty_appends()
            w.close()
            case = {'observer_interference': os.path.basename(path), 'objects_the_observers_wrote_into': len(touched)}
            if problems:
                ctx.fail('reported-state-differs-from-committed', '; '.join(problems[:3]) + ' (an observer of *_by_handle wrote into its copy)', case)
            if not touched:
                ctx.fail('observer-scenario-not-exercised', 'no *_by_handle observable fired', case)
            ctx.case(case, nontrivial=True)
            ctx.count('observer-interference-runs')
        finally:
            p.stop()


def simple_periodic_scenario(ctx):
    """The fixed-interval periodic reports: several commits of every kind inside one period (the application writes into
    the results it observed in between), then one tick of the real `_simple_periodic_reports_send_loop`. Every periodic
    report is labelled with the version of the newest commit it contains and carries each state as it was committed."""
    p = lb.Provider(mdib_path=c02.MDIBS[1], start=False, role_providers=False)
    try:
        m = p.mdib
        w = tx.World(p, ctx.subrng('simpleperiodic'))
        probe = RetainedProbe(w)
        probe.periodic._periodic_reports_interval = 1.0  # noqa: SLF001
        committed = {}          # (handle, StateVersion) -> (MdibVersion of the commit, canonical body)

        def note(kind):
            res = m.transaction
            for st in res.all_states():
                key = (st.Handle if st.is_context_state else st.DescriptorHandle, st.StateVersion)
                committed[key] = (m.mdib_version, lb.canon_value(st))
            tx.deep_scribble(res.all_states()[0])
            tx.undo_empty_appends()
        for rnd in range(3):
            for kind in ('metric', 'alert', 'component', 'operational'):
                hs = w.states_of_kind(kind)
                if hs:
                    with getattr(m, f'{kind}_state_transaction')() as mgr:
                        w.mutate_state(mgr.get_state(hs[rnd % len(hs)]), 20 + rnd)
                    note(kind)
            with m.context_state_transaction() as mgr:
                w.mutate_state(mgr.mk_context_state('PC.mds0', f'sp_patient{rnd}', set_associated=False), 30 + rnd)
            note('context')
        newest = {}
        for entry, _canon in probe.retained:
            for st in entry.states:
                k = 'context' if st.is_context_state else tx.kind_of(st)
                newest[k] = max(newest.get(k, -1), entry.mdib_version)
        p.take_wire()
        run_collector_once(probe.periodic, loop='_simple_periodic_reports_send_loop')
        problems = []
        n_reports = 0
        for msg in p.take_wire():
            if 'Periodic' not in msg.short:
                continue
            n_reports += 1
            root = etree.fromstring(msg.raw)
            rep = root.find('{http://www.w3.org/2003/05/soap-envelope}Body')[0]
            label = int(rep.get('MdibVersion', '-1'))
            kind = {'PeriodicMetricReport': 'metric', 'PeriodicAlertReport': 'alert', 'PeriodicComponentReport': 'component',
                    'PeriodicContextReport': 'context', 'PeriodicOperationalStateReport': 'operational'}.get(msg.short)
            versions = []
            for e in rep.iter():
                if e.get('StateVersion') is not None or e.get('DescriptorHandle') is not None and e.tag.endswith('State'):
                    key = (e.get('Handle') or e.get('DescriptorHandle'), int(e.get('StateVersion', '0')))
                    if key in committed:
                        versions.append(committed[key][0])
                    else:
                        problems.append(f'{msg.short}: state {key} was never committed like that')
            if versions and label < max(versions):
                problems.append(f'{msg.short} is labelled MdibVersion {label} but contains states committed at {sorted(set(versions))}')
            if label > m.mdib_version:
                problems.append(f'{msg.short} is labelled MdibVersion {label}, the mdib is at {m.mdib_version}')
        # a writer commits while the periodic thread is between taking the stored states and sending them (the store lock is
        # free then): what it commits belongs to the next periodic report, it must not be forgotten
        ses = p.device.hosted_services.state_event_service
        hs = w.states_of_kind('metric')
        injected = []
        orig_send = ses.send_periodic_metric_report

        def send_with_writer(*a, **k):
            if not injected:
                with m.metric_state_transaction() as mgr:
                    w.mutate_state(mgr.get_state(hs[0]), 77)
                st = m.transaction.all_states()[0]
                injected.append((st.DescriptorHandle, st.StateVersion))
            return orig_send(*a, **k)
        if hs:
            with m.metric_state_transaction() as mgr:
                w.mutate_state(mgr.get_state(hs[-1]), 76)
            ses.send_periodic_metric_report = send_with_writer
            try:
                run_collector_once(probe.periodic, loop='_simple_periodic_reports_send_loop')
            finally:
                ses.send_periodic_metric_report = orig_send
            run_collector_once(probe.periodic, loop='_simple_periodic_reports_send_loop')
            seen = set()
            for msg in p.take_wire():
                if msg.short == 'PeriodicMetricReport':
                    for e in etree.fromstring(msg.raw).iter():
                        if e.get('DescriptorHandle') is not None and e.get('StateVersion') is not None:
                            seen.add((e.get('DescriptorHandle'), int(e.get('StateVersion'))))
            if not injected:
                ctx.fail('periodic-scenario-not-exercised', 'the periodic metric report of the second period was not sent',
                         {'simple_periodic': True})
            elif injected[0] not in seen:
                ctx.fail('changed-state-not-in-periodic-report',
                         f'metric state {injected[0]} committed while the periodic report of the period before was on its way '
                         f'is in no periodic report of the following period', {'simple_periodic': True, 'writer_during_send': True})
        probe.check(ctx, {'simple_periodic': True})
        case = {'simple_periodic': True, 'periodic_reports': n_reports}
        if problems:
            ctx.fail('periodic-report-label-wrong', '; '.join(problems[:3]), case)
        if n_reports < 4:
            ctx.fail('periodic-scenario-not-exercised', f'{n_reports} periodic reports', case)
        ctx.case(case, nontrivial=True)
        ctx.count('simple-periodic-runs')
        w.close()
    finally:
        p.stop()


def periodic_store_correspondence(ctx):
    """The model `PeriodicStore.run good` against the real `PeriodicReportsHandler` store and the real fixed-interval loop: random
    sequences of commits and collector blocks; commits also fall between the two blocks of one period (after the critical section
    that copies and empties the store, before the send). Compared: what has been sent so far, in order, and what is still stored.
    The oracle is the statement itself: after a final period everything committed has been in exactly one periodic report."""
    p = lb.Provider(mdib_path=c02.MDIBS[1], start=False, role_providers=False)
    try:
        m = p.mdib
        w = tx.World(p, ctx.subrng('pstore'))
        probe = RetainedProbe(w)
        handler = probe.periodic
        handler._periodic_reports_interval = 1.0  # noqa: SLF001
        ses = p.device.hosted_services.state_event_service
        hs = w.states_of_kind('metric')
        rng = ctx.subrng('pstore-seq')
        sent = []
        pending = []       # commits to perform between the two blocks of the running period
        events = []

        def commit():
            with m.metric_state_transaction() as mgr:
                w.mutate_state(mgr.get_state(rng.choice(hs)), rng.randrange(1000))
            events.append(f'p{m.mdib_version}')
        orig_send = ses.send_periodic_metric_report

        def send(periodic_states, *a, **k):
            sent.extend(ps.mdib_version for ps in periodic_states)
            return orig_send(periodic_states, *a, **k)

        class Lock:
            def __init__(self, inner):
                self.inner = inner
                self.n = 0

            def __enter__(self):
                self.inner.acquire()

            def __exit__(self, *a):
                self.inner.release()
                self.n += 1
                if self.n == 1:         # the first critical section of a period is the one of the metric store
                    events.append('c')
                    while pending:
                        pending.pop()
                        commit()
        real_lock = handler._periodic_reports_lock  # noqa: SLF001
        ses.send_periodic_metric_report = send
        lines, reals = [], []
        try:
            for _ in range(ctx.n(20, 200)):
                # drain what an earlier sequence left, start from the empty store
                handler._periodic_reports_lock = real_lock  # noqa: SLF001
                run_collector_once(handler, loop='_simple_periodic_reports_send_loop')
                del sent[:], events[:]
                for _tick in range(rng.choice([1, 2, 3, 5])):
                    for _k in range(rng.choice([0, 0, 1, 2, 4])):
                        commit()
                    pending.extend([1] * rng.choice([0, 0, 1, 3]))
                    lock = Lock(real_lock)
                    handler._periodic_reports_lock = lock  # noqa: SLF001
                    run_collector_once(handler, loop='_simple_periodic_reports_send_loop')
                    events.append('c')
                handler._periodic_reports_lock = real_lock  # noqa: SLF001
                stored = [ps.mdib_version for ps in handler._periodic_metric_reports]  # noqa: SLF001
                lines.append('pstore ' + ','.join(events))
                reals.append(' '.join(map(str, sent)) + '||' + ' '.join(map(str, stored)))
                committed = [int(e[1:]) for e in events if e.startswith('p')]
                case = {'periodic_store': list(events)}
                # statement: one more period and every committed state has been in exactly one periodic report
                run_collector_once(handler, loop='_simple_periodic_reports_send_loop')
                if sorted(sent) != sorted(committed):
                    missing = sorted(set(committed) - set(sent))
                    twice = sorted(v for v in set(sent) if sent.count(v) > 1)
                    ctx.fail('changed-state-not-in-periodic-report' if missing else 'state-twice-in-periodic-reports',
                             f'commits {committed}: never in a periodic report {missing}, in more than one {twice}', case)
                ctx.case(case, nontrivial=len(committed) > 0)
                ctx.count('periodic-store-sequences')
        finally:
            ses.send_periodic_metric_report = orig_send
            handler._periodic_reports_lock = real_lock  # noqa: SLF001
        if ctx.driver_ok and lines:
            for line, real, model in zip(lines, reals, ctx.driver('drv_c04', lines)):
                if real != model:
                    ctx.disagree('periodic store model vs PeriodicReportsHandler: sent | held | stored', {'periodic_store': line}, model, real)
                    break
        w.close()
    finally:
        p.stop()


def filter_forms_scenario(ctx):
    """The wse:Filter of a Subscribe is an xs:list of action URIs: any white space separates them. A real consumer subscribes
    over HTTP with its filter written with newlines / tabs / several blanks; after that every report kind of committed
    transactions has to reach it."""
    import sdc11073.pysoap.soapclient as sc
    from sdc11073.consumer.consumerimpl import SdcConsumer
    forms = [('tab', '\t'), ('newline', '\n'), ('newline-indent', '\n      '), ('crlf', '\r\n')]
    orig_set = SdcConsumer.do_subscribe
    orig_send = sc.SoapClient._send_soap_request  # noqa: SLF001
    for name, sep in forms[:ctx.n(2, 4)]:
        p = lb.Provider(mdib_path=c02.MDIBS[1], start=True, role_providers=False, sync=True)
        sent = []

        def do_subscribe(self, dpws_hosted, filter_type, *a, _sep=sep, **k):
            filter_type.text = _sep + _sep.join(filter_type.text.split()) + _sep
            return orig_set(self, dpws_hosted, filter_type, *a, **k)

        def spy(self, path, xml, log_msg):
            sent.append(xml)
            return orig_send(self, path, xml, log_msg)
        SdcConsumer.do_subscribe = do_subscribe
        sc.SoapClient._send_soap_request = spy  # noqa: SLF001
        cons = None
        try:
            cons = lb.Consumer(p, init_mdib=False, subscribe_reports=True)
            SdcConsumer.do_subscribe = orig_set
            del sent[:]
            m = p.mdib
            w = tx.World(p, ctx.subrng('filterforms', name))
            with m.metric_state_transaction() as mgr:
                w.mutate_state(mgr.get_state(w.states_of_kind('metric')[0]), 3)
            with m.alert_state_transaction() as mgr:
                w.mutate_state(mgr.get_state(w.states_of_kind('alert')[0]), 3)
            with m.context_state_transaction() as mgr:
                mgr.mk_context_state('PC.mds0', 'ff_patient', set_associated=False)
            with m.descriptor_transaction() as mgr:
                w.mutate_descr(mgr.get_descriptor(w.states_of_kind('metric')[1]), 3)
            w.close()
            import time as _t
            _t.sleep(0.3)
            want = ['EpisodicMetricReport', 'EpisodicAlertReport', 'EpisodicContextReport', 'DescriptionModificationReport']
            got = [a for a in want if any(('/' + a).encode() in x for x in sent)]
            case = {'filter_form': name, 'reports_received': got}
            if got != want:
                ctx.fail('subscriber-missed-report',
                         f'subscription with a {name}-separated filter list received {got}, committed transactions produced {want}', case)
            ctx.case(case, nontrivial=True)
            ctx.count('filter-form-runs')
        finally:
            SdcConsumer.do_subscribe = orig_set
            sc.SoapClient._send_soap_request = orig_send  # noqa: SLF001
            if cons is not None:
                cons.stop()
            p.stop()


def prog_to_lean(name, log):
    acts = []
    for ev, arg in log:
        if ev == 'acq':
            acts.append(f'.acq {0 if arg == "tr" else 1}')
        elif ev == 'rel':
            acts.append(f'.rel {0 if arg == "tr" else 1}')
        elif ev == 'setVersion':
            acts.append('.incVer')
        elif ev == 'delivered':
            acts.append('.send')
    return f'def {name} : List Act := [{", ".join(acts)}]\n'


def translate(ctx):
    lb.quiet()
    src = 'import SdcModel.SendOrder\nnamespace Sdc.Generated\nopen Sdc.SendOrder\n'
    src += prog_to_lean('writerSync', trace_writer(sync=True))
    src += prog_to_lean('writerAsync', trace_writer(sync=False))
    src += 'end Sdc.Generated\n'
    core.write_if_changed(core.GENERATED + '/WriterProg.lean', src)
    acts = trace_periodic_collector()
    src2 = ('import SdcModel.LockLts\n/-! generated by harness/props/c04.py: lock / access trace of one iteration of the periodic report collector -/\n'
            'namespace Sdc.Generated\nopen Sdc.LockLts\n'
            f"def prog_periodicCollector : List Act := [{', '.join('.' + a for a in acts)}]\nend Sdc.Generated\n")
    core.write_if_changed(core.GENERATED + '/PeriodicProg.lean', src2)
    progs = trace_periodic_store()
    src3 = ('import SdcModel.PeriodicStore\n/-! generated by harness/props/c04.py: what one period of the real fixed-interval periodic loop does to the '
            'store list of each report kind\n    (one inner list = the operations inside one critical section of the store lock, or one operation outside it) -/\n'
            'namespace Sdc.Generated\nopen Sdc.PeriodicStore\ndef periodicStoreProgs : List (String × List (List Op)) := [\n'
            + ',\n'.join('  ("%s", [%s])' % (k, ', '.join('[' + ', '.join('.' + o for o in b) + ']' for b in bl)) for k, bl in progs.items())
            + ']\nend Sdc.Generated\n')
    core.write_if_changed(core.GENERATED + '/PeriodicStoreProg.lean', src3)
    ctx.notes['periodic_store_progs'] = progs


def concurrent_writers(ctx, sync, n_threads, n_tx):
    """Real threads committing concurrently; the captured reports of each manager must have non-decreasing versions."""
    p = lb.Provider(start=True, role_providers=False, sync=sync)
    try:
        hs = tx.World(p, ctx.subrng('cw')).states_of_kind('metric')[:n_threads]
        errs = []

        def work(h, k):
            try:
                for i in range(n_tx):
                    with p.mdib.metric_state_transaction() as mgr:
                        st = mgr.get_state(h)
                        if st.MetricValue is None:
                            st.mk_metric_value()
                        st.MetricValue.Value = Decimal(k * 1000 + i)
            except Exception as ex:  # noqa: BLE001
                errs.append(repr(ex))
        ths = [threading.Thread(target=work, args=(h, k)) for k, h in enumerate(hs)]
        for t in ths:
            t.start()
        for t in ths:
            t.join(60)
        versions = [m.mdib_version for m in p.wire]
        case = {'concurrent_writers': n_threads, 'transactions_each': n_tx, 'sync': sync, 'versions': versions[:50]}
        if errs:
            ctx.fail('concurrent-writer-exception', errs[0], case)
        if versions != sorted(versions):
            ctx.fail('reports-out-of-version-order', f'delivered versions not sorted: {versions[:40]}', case)
        if len(set(versions)) != len(versions) or len(versions) != n_threads * n_tx:
            ctx.fail('report-count-mismatch', f'{len(versions)} reports, {len(set(versions))} distinct versions for {n_threads * n_tx} commits', case)
        ctx.case(case, nontrivial=True)
        ctx.count('concurrent-writer-runs')
    finally:
        p.stop()


def slow_subscriber_order(ctx, sync):
    """Two sequential commits, the subscriber is slow on the first notification: it must still receive [v1, v2]."""
    p = lb.Provider(start=True, role_providers=False, sync=sync)
    try:
        fake = FakeSubscriber([], slow_first=True)
        install_fake_subscriber(p, fake)
        h = tx.World(p, ctx.subrng('slow')).states_of_kind('metric')[0]

        def commits():
            for i in (1, 2):
                with p.mdib.metric_state_transaction() as mgr:
                    st = mgr.get_state(h)
                    if st.MetricValue is None:
                        st.mk_metric_value()
                    st.MetricValue.Value = Decimal(i)
        t = threading.Thread(target=commits, daemon=True)
        t.start()
        t.join(fake.max_wait + 0.6)
        fake.release.set()
        t.join(15)
        import time as _t
        t0 = _t.time()
        while len(fake.received) < 2 and _t.time() - t0 < 6:
            _t.sleep(0.05)
        case = {'slow_subscriber': True, 'sync': sync, 'received_versions': list(fake.received)}
        if fake.received != sorted(fake.received) or len(fake.received) != 2:
            ctx.fail('reports-out-of-version-order', f'slow subscriber received MdibVersions {fake.received}', case)
        ctx.case(case, nontrivial=True)
        ctx.count('slow-subscriber-runs')
    finally:
        p.stop()


def two_writer_order(ctx, sync, first_kind):
    """Writer A commits (a waveform, metric, alert ... transaction) and its report is still being delivered (slow subscriber)
    when writer B commits: B's report must not overtake A's - whatever kind of transaction A's is."""
    import time as _t
    p = lb.Provider(start=True, role_providers=False, sync=sync)
    try:
        fake = FakeSubscriber([], slow_first=True, max_wait=2.5)
        install_fake_subscriber(p, fake)
        w = tx.World(p, ctx.subrng('two', first_kind))
        ha = w.states_of_kind(first_kind)[0]
        hb = [h for h in w.states_of_kind('metric') if h != ha][0]
        errors = []

        def commit(kind, h, n):
            try:
                with getattr(p.mdib, {'rt': 'rt_sample_state_transaction'}.get(kind, f'{kind}_state_transaction'))() as mgr:
                    w.mutate_state(mgr.get_state(h), n)
            except Exception as ex:  # noqa: BLE001
                errors.append(repr(ex))
        ta = threading.Thread(target=commit, args=(first_kind, ha, 3), daemon=True)
        tb = threading.Thread(target=commit, args=('metric', hb, 4), daemon=True)
        ta.start()
        fake.started.wait(5)
        tb.start()
        _t.sleep(0.4)
        fake.release.set()
        ta.join(10)
        tb.join(10)
        t0 = _t.time()
        while len(fake.received) < 2 and _t.time() - t0 < 5:
            _t.sleep(0.05)
        w.close()
        case = {'two_writers': first_kind, 'sync': sync, 'received_versions': list(fake.received)}
        if errors:
            ctx.fail('commit-raised-for-one-bad-subscriber', str(errors), case)
        if fake.received != sorted(fake.received) or len(fake.received) < 2:
            ctx.fail('reports-out-of-version-order', f'first writer: {first_kind} transaction with a slow delivery, second writer: metric transaction; '
                     f'the subscriber received MdibVersions {fake.received}', case)
        ctx.case(case, nontrivial=True)
        ctx.count('two-writer-runs')
    finally:
        p.stop()


def run(ctx):
    c02.run(ctx, hook_cls=C04Hook, prop='C04', drv='drv_c04')
    for sync in (True, False):
        for kind in ('rt', 'alert') if ctx.tier == 'quick' else ('rt', 'alert', 'metric', 'component', 'operational'):
            two_writer_order(ctx, sync, kind)
    for sync in (True, False):
        concurrent_writers(ctx, sync, ctx.n(4, 8), ctx.n(15, 100))
    if ctx.tier == 'thorough' or ctx.proof_problems:
        for sync in (True, False):
            slow_subscriber_order(ctx, sync)
    periodic_forced(ctx)
    wire_validity_scenario(ctx)
    for sync in (True, False):
        peer_failure_isolation(ctx, sync)
    filter_forms_scenario(ctx)
    transient_failure_scenario(ctx)
    sequence_restart_scenario(ctx)
    observer_interference_scenario(ctx)
    simple_periodic_scenario(ctx)
    periodic_store_correspondence(ctx)


def search(ctx):
    for sync in (False, True):
        slow_subscriber_order(ctx, sync)
    if not ctx.failures:
        c02.search(ctx, hook_cls=C04Hook)


def replay(ctx, obj):
    lb.quiet()
    case = obj['case']
    ctx2 = core.Ctx('C04', 'quick', 0)
    if 'wire_validity' in case:
        wire_validity_scenario(ctx2)
    elif 'peer_failure' in case:
        peer_failure_isolation(ctx2, case['sync'])
    elif 'simple_periodic' in case:
        simple_periodic_scenario(ctx2)
    elif 'observer_interference' in case:
        observer_interference_scenario(ctx2)
    elif 'two_writers' in case:
        two_writer_order(ctx2, case['sync'], case['two_writers'])
    elif 'sequence_restart' in case:
        sequence_restart_scenario(ctx2)
    elif 'transient_failure' in case:
        transient_failure_scenario(ctx2)
    elif 'filter_form' in case:
        ctx2.tier = 'thorough'
        filter_forms_scenario(ctx2)
    elif 'periodic_forced' in case:
        periodic_forced(ctx2)
    elif 'slow_subscriber' in case:
        slow_subscriber_order(ctx2, case['sync'])
    elif 'concurrent_writers' in case:
        concurrent_writers(ctx2, case['sync'], case['concurrent_writers'], case['transactions_each'])
    else:
        c02.run_history(ctx2, case.get('mdib', c02.MDIBS[0]), ctx2.subrng('replay'), 0, [C04Hook(ctx2)], scripts=case['history'])
    for f in ctx2.failures:
        print('  ', f['signature'], ':', f['detail'])
    return any(f['signature'] == obj['signature'] for f in ctx2.failures)
