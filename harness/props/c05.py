"""C05 — BICEPS / WS-* data types round-trip losslessly through XML.

Tie
  translator   dumps the declarative descriptor table of every container / data-type class (`_props`, each
               descriptor's class, XML name, converter, value class, optional / default / implied) by runtime
               introspection -> lean/SdcModel/Generated/Schema.lean; the class-level round-trip theorem needs the
               decidable predicate `schemaOK` of that table (`decide +kernel`).
  correspondence  a type-directed generator driven by the same table builds random instances of every class; the XML
               written by `as_etree_node` / `mk_node` (canonicalised, prefixes resolved) is compared with the model's
               `writeCls`, the value read by `from_node` with the model's `readCls`. Scalar converters are abstract in
               the model (round-trip is a hypothesis, proved in C18); the driver gets the observed converter pairs.
  oracle       directly on the implementation: from_node(as_etree_node(v)) == v (in memory and after re-parsing the
               serialised text), writing the read value again gives the same XML, absent optional parts give the declared
               implied / default value; XSD validation of the generated documents is reported as supporting evidence.
"""
from __future__ import annotations

import copy
import decimal
import enum
import inspect
import json
import os
import random
import time
import uuid

from lxml import etree

import core
import sharing as sh
from sdc11073.mdib import containerbase
from sdc11073.namespaces import QN_TYPE, default_ns_helper
from sdc11073.xml_types import dataconverters as dc
from sdc11073.xml_types import isoduration
from sdc11073.xml_types import xml_structure as xs

READY = True
MANIFEST = dict(
    technique='Lean 4 theorems over a model of the declarative XML binding (one write/read pair per descriptor kind, abstract scalar codec, classes = member lists of a generated table): per-kind read-after-write, frame lemmas, class-level round trip by induction over the member list and the nesting depth for every table whose classes satisfy a decidable side condition (kernel-evaluated for the generated table); type-directed differential testing of as_etree_node / from_node against the compiled model',
    text='Theorems (Properties/C05.lean): read_write_kind (all 8 descriptor kinds incl. nested instances, xsi:type substitution, lists, raw content), write_frame / read_local (members with distinct XML names do not interfere), roundtrip (for every class with okCls and every well-typed instance of any nesting depth: writeCls succeeds and readCls gives the instance back), rewrite_same (writing the read value gives the same XML), roundtrip_with_xsi_type, absent_defaults / empty_element_defaults (an absent attribute / child reads as None, [] or the declared default), generated_classes_ok (kernel evaluation: all 245 classes of the generated table satisfy okCls except msg_types.Mds/Vmd/Channel), public_read_present / public_read_absent (a present - also falsy - value is what the attribute read returns, an absent one reads as the implied value), generated_schema_matches_xsd (kernel evaluation: the class table agrees with the bundled XSD - member order = XSD sequence order, declared value class = XSD element type, lists vs maxOccurs, attribute names, implied values = XSD defaults - for all 204 classes that stand for an XSD type, with the explicitly listed deviations). The table (Generated/Schema.lean: 245 classes, ~1290 members, xsi:type registries) is regenerated from the running code; on every run the real as_etree_node / mk_node output (names interned, prefixes resolved) is compared with the model writeCls and from_node with readCls for generated instances of every class (presence patterns, list lengths, enum members, xsi:type substitutions, XML-legal strings), plus reads with absent defaulted members and malformed lexical forms; the read correspondence also compares the value as read through the public attributes. The bundled XSD is an independent reference: Generated/XsdTable.lean is produced by a plain walk over xsd/*.xsd. Oracle clauses beyond the round trip: public reads (stored value when present, implied when absent; falsy values generated), foreign-writer documents (prefixes declared locally / renamed / default name space) read to the same value, documents for values of the schema value space (required attributes and minOccurs taken from the XSD) are structurally schema valid, elements whose XSD type is more derived than the declared value class are read without loss. Decimals are generated incl. tiny / exponent-form / 18-digit values and go through the real converters inside the containers.',
    note='partial: (1) XSD validity is not modelled in Lean: structural validity (element / attribute order and presence) of documents rooted in a global element is an oracle clause and the class table is compared with the XSD in the kernel; simple-type facets (patterns, ranges) are supporting evidence only; KNOWN FINDINGS xsd-invalid:unexpected-element:ContainmentTree / ErrorInfo (list members the XSD allows once), accepted deviation: SequenceId / OperatingMode / Relation.Entries are required in the XSD and optional in the class; (2) scalar converters are abstract: their round trip is a hypothesis (Codec.RT inside WT), proved for the real converters in C18; the join/split of list lexical forms is a hypothesis too; (3) C05_full is not claimed: classes outside okCls (msg_types.Mds, Vmd, Channel: ContainerProperty(None) writes into the node itself) and values outside WT (None in a mandatory member, unresolvable xsi:type, empty items in text lists) are excluded; ExtensionLocalValue / any-content is opaque; mex Metadata.from_node (dialect dispatch, takes the soap body) and the body-less Unsubscribe messages are outside the model. Trusted: Lean kernel, translator + harness (interning of names, QName resolution), lxml.',
    ref='5 C05')
DRIVERS = ['drv_c05']
RULE = ('one case = one generated instance of one class (presence pattern, list lengths, enum members, xsi:type '
        'substitutions, strings); distinct by the canonical value; non-trivial = at least 2 members present and at least '
        'one optional member absent')
TRUSTED = ['lxml / libxml2 (serialisation, parsing, C14N, XSD validation)',
           'scalar converters are abstract in the model: their round trip is a hypothesis of the theorems (C18 proves it '
           'for timestamp / decimal / integer / boolean / duration on their documented domains)']
ASSUMPTIONS = ['XML Schema validity is differential evidence only (libxml2 validator on every generated document)',
               'ExtensionLocalValue / raw etree children are opaque values compared by canonical XML',
               'values are compared through sharing.canonical (CodedValue.__eq__ raises by design)']

XSI_TYPE = str(QN_TYPE)


# ------------------------------------------------------------------------------------------------ schema table
def conv_id(c):
    """stable identifier of a converter object / class"""
    if isinstance(c, dc.ListConverter):
        return conv_id(c._element_converter)
    if isinstance(c, dc.EnumConverter):
        return 'Enum:' + c._klass.__name__
    if isinstance(c, dc.ClassCheckConverter):
        names = [k.__name__ for k in c._klass]
        if names == ['str']:
            return 'Str'
        if names == ['QName']:
            return 'QName'
        return 'Class:' + ','.join(names)
    name = c.__name__ if isinstance(c, type) else type(c).__name__
    return name.replace('Converter', '')


def qn(x):
    if x is None:
        return None
    return str(x) if not isinstance(x, etree.QName) else x.text


class Table:
    """the descriptor table of all classes (the *generated schema*)"""

    def __init__(self):
        self.classes = {}
        self.broken = {}
        for key, cls in sh.all_classes().items():
            try:
                sh.new_instance(cls)
            except Exception as ex:  # noqa: BLE001
                self.broken[key] = f'{type(ex).__name__}: {ex}'[:160]
                continue
            self.classes[key] = cls
        self.keys = list(self.classes)
        self.clist = list(self.classes.values())
        self.index = {cls: i for i, cls in enumerate(self.clist)}
        self.props = [sh.class_props(cls) for cls in self.clist]
        # xsi:type registries: 1 = pm_types (value_class_from_node), 2.. = cls_getter functions of container properties
        self.getters = {}
        self.entries = [self._class_entry(i) for i in range(len(self.clist))]
        self.types = self._type_registry()

    def node_type(self, cls):
        nt = getattr(cls, 'NODETYPE', None)
        return nt.text if isinstance(nt, etree.QName) else None

    def _dispatch(self, p):
        """0 = the declared class is always used; n > 0 = xsi:type is looked up in registry n"""
        if isinstance(p, (xs.ContainerProperty, xs.ContainerListProperty)):
            g = p._cls_getter
            return self.getters.setdefault(g, 2 + len(self.getters))
        vc = getattr(p, 'value_class', None)
        if vc is not None and 'value_class_from_node' in {n for k in vc.__mro__ for n in k.__dict__} \
                and vc.value_class_from_node.__func__ is not sh.basetypes.XMLTypeBase.value_class_from_node.__func__:
            return 1
        return 0

    def _prop_entry(self, name, p):
        e = {'name': name, 'optional': bool(p.is_optional)}
        conv = getattr(p, '_converter', None)
        if isinstance(p, xs._AttributeBase):
            e['xml'] = qn(p._attribute_name)
            if isinstance(p, xs._AttributeListBase):
                e.update(kind='attrList', conv=conv_id(conv))
            elif isinstance(p, xs.QNameAttributeProperty):
                e.update(kind='attr', conv='QName', volatile=False)
            else:
                e.update(kind='attr', conv=conv_id(conv), volatile=isinstance(p, xs.CurrentTimestampAttributeProperty))
            return e
        e['xml'] = qn(p._sub_element_name)
        if isinstance(p, xs.NodeEnumQNameProperty):
            e.update(kind='text', conv='EnumQName:' + p.enum_cls.__name__, minlen=bool(p._min_length), style='enumqname')
        elif isinstance(p, xs.NodeTextQNameProperty):
            e.update(kind='text', conv='QName', minlen=True, style='qname')
        elif isinstance(p, xs.DateOfBirthProperty):
            e.update(kind='text', conv='DateOfBirth', minlen=False, style='date')
        elif isinstance(p, xs.NodeTextProperty):
            e.update(kind='text', conv=conv_id(conv), minlen=bool(p._min_length), style='plain')
        elif isinstance(p, xs.ExtensionNodeProperty):
            e.update(kind='raw', style='ext')
        elif isinstance(p, xs.AnyEtreeNodeProperty):
            e.update(kind='raw', style='any')
        elif isinstance(p, xs.AnyEtreeNodeListProperty):
            e.update(kind='raw', style='anylist')
        elif isinstance(p, (xs.SubElementProperty, xs.ContainerProperty)):
            e.update(kind='sub', cls=self.index.get(p.value_class, -1), container=isinstance(p, xs.ContainerProperty),
                     skip_empty=isinstance(p, xs.SubElementWithSubElementListProperty), dispatch=self._dispatch(p))
        elif isinstance(p, (xs.SubElementListProperty, xs.ContainerListProperty)):
            e.update(kind='subList', cls=self.index.get(p.value_class, -1), container=isinstance(p, xs.ContainerListProperty),
                     dispatch=self._dispatch(p))
        elif isinstance(p, xs.SubElementTextListProperty):
            e.update(kind='subTextList', conv=conv_id(conv))
        elif isinstance(p, xs.NodeTextQNameListProperty):
            e.update(kind='textList', conv='QName')
        elif isinstance(p, xs.NodeTextListProperty):
            e.update(kind='textList', conv=conv_id(conv))
        else:
            e.update(kind='unknown:' + type(p).__name__)
        e['has_default'] = p._default_py_value is not None
        return e

    def _class_entry(self, i):
        cls = self.clist[i]
        return {'key': self.keys[i], 'nodetype': self.node_type(cls), 'container': issubclass(cls, containerbase.ContainerBase),
                'props': [self._prop_entry(n, p) for n, p in self.props[i]]}

    def _type_registry(self):
        """(registry, qname, class index) for every class an xsi:type can resolve to"""
        res = []
        from sdc11073.xml_types import pm_types
        for q, cls in pm_types._name_class_lookup.items():
            if cls in self.index:
                res.append((1, q.text, self.index[cls]))
        for g, reg in self.getters.items():
            for i, cls in enumerate(self.clist):
                nt = getattr(cls, 'NODETYPE', None)
                if not isinstance(nt, etree.QName):
                    continue
                try:
                    got = g(nt)
                except Exception:  # noqa: BLE001
                    continue
                if got in self.index:
                    res.append((reg, nt.text, self.index[got]))
        return sorted(set(res))


_TABLE = None


class _FrozenTime:
    @staticmethod
    def time():
        return NOW


NOW = 1700000000.125


def table() -> Table:
    global _TABLE
    uuid.uuid4 = lambda: uuid.UUID(int=0x1234567890abcdef1234567890abcdef)
    xs.time = _FrozenTime      # CurrentTimestampAttributeProperty writes time.time() into the instance
    if _TABLE is None:
        _TABLE = Table()
    return _TABLE


# ------------------------------------------------------------------------------------------------ value generator
_STRINGS = ['a', 'Ab c', ' lead', 'trail ', 'x\ty', 'tab\tand  spaces', 'ä€', '\U0001F600 smile', '日本語', '<&>"\'', 'a:b', 'line\nbreak',
            'urn:oid:1.2.3', 'http://example.com/a?b=c&d=e', '0', 'true', '   ', 'é́']
_TOKENS = ['h1', 'handle_2', 'x.y-z', 'ä', 'T0']


_XSD_REQ = None


_XSD_IMPLIED = None


def xsd_implied(tab: Table):
    """class index -> {attribute name: implied / default lexical value documented by the bundled schemas}"""
    global _XSD_IMPLIED
    if _XSD_IMPLIED is None:
        import xsdtable
        X = xsdtable.XsdTable()
        bind, _ = xsd_bind(tab, X)
        _XSD_IMPLIED = {ci: {a[0]: a[3] for a in X.flatten(t)[1] if a[3] is not None} for ci, t in bind.items()}
    return _XSD_IMPLIED


def xsd_implied_problems(tab: Table, obj, path=''):
    """an attribute that is absent in the XML must read (through the public attribute) as the implied value the XSD
    documents for it; recursively. Returns [(path, class key, member, public value, XSD implied lexical)]."""
    res = []
    ci = tab.index.get(type(obj))
    if ci is None:
        return res
    imp = xsd_implied(tab).get(ci, {})
    for (name, p), e in zip(tab.props[ci], tab.entries[ci]['props']):
        stored = sh.actual(obj, p)
        here = f'{path}.{name}' if path else name
        if e['kind'] == 'attr' and stored is None and e['xml'] in imp:
            try:
                pub = getattr(obj, name)
                lex = None if pub is None else (clark(pub) if e['conv'] == 'QName' else p._converter.to_xml(pub))
            except Exception as ex:  # noqa: BLE001
                lex = f'<{type(ex).__name__}>'
            if lex != imp[e['xml']]:
                res.append((here, tab.keys[ci], name, lex, imp[e['xml']]))
        elif sh.is_value_object(stored):
            res += xsd_implied_problems(tab, stored, here)
        elif isinstance(stored, list):
            for i, item in enumerate(stored):
                if sh.is_value_object(item):
                    res += xsd_implied_problems(tab, item, f'{here}[{i}]')
    return res


def xsd_requirements(tab: Table):
    """class index -> {xml name: minOccurs (elements) / 1 (required attributes)} from the bundled schemas"""
    global _XSD_REQ
    if _XSD_REQ is None:
        import xsdtable
        X = xsdtable.XsdTable()
        bind, _ = xsd_bind(tab, X)
        _XSD_REQ = {}
        for ci, tname in bind.items():
            elems, attrs, _, _ = X.flatten(tname)
            req = {e[0]: e[2] for e in elems if e[2] >= 1}
            req.update({a[0]: 1 for a in attrs if a[2]})
            _XSD_REQ[ci] = req
    return _XSD_REQ


class Gen:
    def __init__(self, tab: Table, rng, max_depth=3, full=False, prefer=()):
        self.prefer = tuple(prefer)   # classes to choose whenever a member can hold them (directed search)
        self.t = tab
        self.rng = rng
        self.max_depth = max_depth
        self.extra_raw = False    # raw elements outside `_props` were generated (custom writer: outside the model)
        self.full = full          # every optional member present, every list non-empty (documents that exercise the order)
        self.req = xsd_requirements(tab)
        self.stats = {'present': 0, 'absent_optional': 0, 'xsi': 0, 'lists': 0}

    def string(self):
        r = self.rng
        if r.random() < 0.5:
            return r.choice(_STRINGS)
        return ''.join(r.choice('abcXYZ019 _-./äß€') for _ in range(r.randint(1, 8)))

    def token(self):
        r = self.rng
        return r.choice(_TOKENS) if r.random() < 0.5 else ''.join(r.choice('abcdefXYZ0123456789_.-') for _ in range(r.randint(1, 6)))

    def qname(self):
        r = self.rng
        return etree.QName(r.choice(['urn:verif:a', 'http://example.com/ns', default_ns_helper.PM.namespace]),
                           r.choice(['Foo', 'bar1', 'X_y']))

    def falsy(self, p):
        """a falsy value of the member's type when the member has a truthy implied value (0, False, 0.0, ''), else None"""
        imp = p._implied_py_value
        if imp is None or not imp or isinstance(imp, enum.Enum):
            return None
        for cand in (False if isinstance(imp, bool) else None, 0 if isinstance(imp, int) and not isinstance(imp, bool) else None,
                     decimal.Decimal(0) if isinstance(imp, decimal.Decimal) else None, 0.0 if isinstance(imp, float) else None,
                     '' if isinstance(imp, str) else None):
            if cand is None:
                continue
            try:
                p._converter.check_valid(cand)
                return cand
            except Exception:  # noqa: BLE001
                continue
        return None

    def scalar(self, conv, for_list=False):
        r = self.rng
        if isinstance(conv, dc.ListConverter):
            conv = conv._element_converter
        if isinstance(conv, dc.EnumConverter):
            return r.choice(list(conv._klass))
        if isinstance(conv, dc.ClassCheckConverter):
            k = conv._klass[0]
            if k is str:
                return self.token() if for_list else self.string()
            if k is etree.QName:
                return self.qname()
            if k is int:
                return r.randint(0, 50)
            if isinstance(k, type) and issubclass(k, enum.Enum):
                return r.choice(list(k))
            return None
        c = conv if isinstance(conv, type) else type(conv)
        if issubclass(c, dc.StringConverter):
            return self.string()
        if issubclass(c, dc.BooleanConverter):
            return bool(r.getrandbits(1))
        if issubclass(c, dc.UnsignedIntConverter):
            return r.choice([0, 1, 7, 2 ** 31, 2 ** 32 - 1])
        if issubclass(c, dc.IntegerConverter):
            return r.choice([0, 1, 42, 10 ** 12, r.randint(0, 10 ** 6)])
        if issubclass(c, dc.DecimalConverter):
            # everyday values, and values whose str() is in exponent form: tiny magnitudes (< 1e-6), positive exponents,
            # trailing-zero exponents, up to 18 significant digits (the documented limit of the converter)
            pool = ['0', '1', '-1.5', '0.001', '123456.789', '100', '-0.25', '3.14159', '1000000',
                    '0.0000001', '1E-7', '2.5E-9', '-0.000000000123', '1.23E-1', '0E-15', '1E+3', '-4.2E+5', '12E+15',
                    '123456789012345678', '0.000000123456789', '99999999.99999999', '-1E-12',
                    # integer part ending in 0 with explicit fraction zeros / trailing zeros on both sides of the point
                    '120.0', '10.0', '1000.000', '-50.00', '100.10', '0.0', '20', '-700', '10.010', '3000.0500']
            if r.random() < 0.25:
                digits = ''.join(r.choice('0123456789') for _ in range(r.randint(1, 12))).lstrip('0') or '7'
                return decimal.Decimal(f'{r.choice(["", "-"])}{digits}E{r.randint(-17, 6 if len(digits) < 10 else 0)}')
            if r.random() < 0.2:
                whole = str(r.randint(1, 999)) + '0' * r.randint(1, 4)
                frac = r.choice(['0', '00', '000', '50', '0500', '10'])
                return decimal.Decimal(f'{r.choice(["", "-"])}{whole}.{frac}')
            return decimal.Decimal(r.choice(pool))
        if issubclass(c, dc.TimestampConverter):
            return r.choice([0, 1, 1700000000123, r.randint(0, 2 ** 40)]) / 1000
        if issubclass(c, dc.DurationConverter):
            if r.random() < 0.3:     # 1..6 fraction digits: the writer's resolution is 1 us (more digits only on the read path)
                return float(f'{r.choice([0, 1, 59, 3600])}.{"".join(r.choice("0123456789") for _ in range(r.randint(1, 6)))}')
            return r.choice([0, 1, 5, 60, 3600, 86400, 0.5, 0.25, 1.5, 90, 0.125, 12345, 0.123456, 1.000001, 0.000001])
        return None

    def element(self):
        r = self.rng
        e = etree.Element(etree.QName('urn:verif:ext', r.choice(['A', 'B'])))
        if r.random() < 0.5:
            e.set('k', self.token())
        if r.random() < 0.5:
            e.text = self.token()
        elif r.random() < 0.3:
            etree.SubElement(e, etree.QName('urn:verif:ext', 'C')).text = self.token()
        return e

    def substitutes(self, vc, p):
        """classes that may stand for value class vc in this property (xsi:type substitution)"""
        e_dispatch = self.t._dispatch(p)
        res = [vc] if vc in self.t.index else []
        if self.prefer and any(issubclass(c, vc) for c in self.prefer):
            pref = [c for c in self.prefer if issubclass(c, vc) and c in self.t.index]
            if pref:
                return pref
        if e_dispatch:
            base_nt = getattr(vc, 'NODETYPE', None)
            for reg, q, ci in self.t.types:
                cls = self.t.clist[ci]
                if reg == e_dispatch and issubclass(cls, vc) and cls is not vc and getattr(cls, 'NODETYPE', None) != base_nt:
                    res.append(cls)
        return res

    def instance(self, cls, depth=0):
        """a random instance of cls; returns None when the class cannot be filled (abstract value classes ...)"""
        ci = self.t.index[cls]
        obj = sh.new_instance(cls)
        r = self.rng
        for (name, p), e in zip(self.t.props[ci], self.t.entries[ci]['props']):
            kind = e['kind']
            optional = e['optional']
            if isinstance(p, xs.CurrentTimestampAttributeProperty):
                continue
            if name == 'Dialect' and cls.__name__.endswith('MetadataSection'):
                continue    # the dialect identifies the section class (Metadata.from_node dispatches on it)
            want = True
            need = self.req.get(ci, {}).get(e.get('xml'), 0)     # required by the XSD (schema value space)
            if optional:
                want = need > 0 or r.random() < (0.6 if depth < self.max_depth else 0.25)
            if self.full and depth < self.max_depth and kind != 'raw':
                want = True
                need = max(need, 1)
            v = None
            fz = self.falsy(p) if kind in ('attr', 'text') else None
            if fz is not None and r.random() < 0.5:
                want = True
                self.stats['falsy'] = self.stats.get('falsy', 0) + 1
            else:
                fz = None
            if kind == 'attr':
                v = (self.qname() if e['conv'] == 'QName' else self.scalar(p._converter)) if want else None
                v = fz if fz is not None else v
            elif kind == 'attrList':
                v = [self.scalar(p._converter, True) for _ in range(max(need, r.randint(0, 3)))] if want else []
            elif kind == 'text':
                if e['style'] == 'qname':
                    v = self.qname() if want else None
                elif e['style'] == 'date':
                    v = isoduration.parse_date_time(r.choice(['2001-02-03', '1999', '2010-11', '2001-02-03T04:05:06', '2001-02-03T04:05:06Z',
                                                              '2001-02-03T04:05:06.5+02:00'])) if want else None
                else:
                    v = self.scalar(p._converter) if want else None
                    v = fz if fz is not None else v
            elif kind == 'raw':
                if e['style'] == 'ext':
                    v = xs.ExtensionLocalValue([self.element() for _ in range(r.randint(1, 2))]) if (want and r.random() < 0.3) else None
                elif e['style'] == 'any':
                    v = [self.element() for _ in range(r.randint(1, 2))] if want else None
                else:
                    v = [self.element() for _ in range(r.randint(0, 2))] if want else []
            elif kind == 'sub':
                if want or not optional:
                    cands = self.substitutes(p.value_class, p)
                    if cands and (depth < self.max_depth or not optional or need > 0):
                        sub = r.choice(cands) if r.random() < 0.35 else cands[0]
                        if sub is not cands[0]:
                            self.stats['xsi'] += 1
                        v = self.instance(sub, depth + 1)
            elif kind == 'subList':
                v = []
                if (want and depth < self.max_depth) or need > 0:
                    cands = self.substitutes(p.value_class, p)
                    if self.t.keys[ci] == 'mex_types.Metadata':
                        from sdc11073.xml_types import mex_types
                        cands = [mex_types.ThisModelMetadataSection, mex_types.ThisDeviceMetadataSection,
                                 mex_types.RelationshipMetadataSection, mex_types.LocationMetadataSection]
                        cands = [r.choice(cands)]
                    if cands:
                        for _ in range(max(need, r.choice([0, 1, 1, 2, 3]) if depth < self.max_depth else need)):
                            sub = r.choice(cands) if r.random() < 0.35 else cands[0]
                            if sub is not cands[0]:
                                self.stats['xsi'] += 1
                            v.append(self.instance(sub, depth + 1))
                        self.stats['lists'] += 1
            elif kind == 'subTextList':
                v = [self.scalar(p._converter, True) for _ in range(max(need, r.randint(0, 3)))] if want else []
            elif kind == 'textList':
                v = ([self.qname() for _ in range(r.randint(0, 3))] if e['conv'] == 'QName'
                     else [self.token() for _ in range(r.randint(0, 3))]) if (want or not optional) else []
            if v is None:
                if optional:
                    self.stats['absent_optional'] += 1
                # an optional member with a default may also be absent; where reading an absent element yields the default
                # again (sub elements, enum-qname text) `None` is not a value of its own and is not generated
                if sh.actual(obj, p) is not None and optional and kind in ('attr', 'text') and e.get('style') != 'enumqname' \
                        and r.random() < 0.5:
                    try:
                        setattr(obj, name, None)     # an optional member with a default may also be absent
                    except Exception:  # noqa: BLE001
                        pass
                continue
            self.stats['present'] += 1
            try:
                setattr(obj, name, v)
            except Exception as ex:  # noqa: BLE001
                raise GenError(f'{self.t.keys[ci]}.{name} rejects generated value {v!r}: {ex}') from ex
        # raw lxml elements a class keeps outside `_props` (constructor parameter annotated with LxmlElement, stored as a list)
        try:
            params = inspect.signature(cls.__init__).parameters
        except (TypeError, ValueError):
            params = {}
        for attr, val in list(vars(obj).items()):
            if not attr.startswith('_') and isinstance(val, list) and not val and attr in params \
                    and 'LxmlElement' in str(params[attr].annotation) and r.random() < 0.6:
                val.extend(self.element() for _ in range(r.randint(1, 2)))
                self.extra_raw = True
        return obj


class GenError(Exception):
    pass


# ------------------------------------------------------------------------------------------------ model side encodings
def H(s) -> str:
    return 'h' + s.encode('utf-8', 'surrogatepass').hex()


def tok(v) -> str:
    """python scalar -> opaque token of the model"""
    return json.dumps(sh.canonical(v), sort_keys=True, ensure_ascii=False, default=str)


def clark(q) -> str:
    return q.text if isinstance(q, etree.QName) else str(q)


def opt_h(x):
    return '-' if x is None else H(x)


def b(x):
    return '1' if x else '0'


class Enc:
    """python values / lxml nodes -> token strings of the driver protocol; collects the converter pairs it meets"""

    def __init__(self, tab: Table):
        self.t = tab
        self.cx = {}      # (conv, py token) -> lexical
        self.cp = {}      # (conv, lexical) -> py token | None (raises)
        self.qattrs = {XSI_TYPE}
        self.qtags = set()
        # duration-valued members (xs:duration): attribute names / element tags
        self.dur_attrs = {e['xml'] for ce in tab.entries for e in ce['props'] if e['kind'] == 'attr' and e['conv'] == 'Duration'}
        self.dur_tags = {e['xml'] for ce in tab.entries for e in ce['props'] if e['kind'] == 'text' and e['conv'] == 'Duration' and e['xml']}
        # list-valued lexical forms (xs:list): element tags whose text is a list, attribute names whose value is a list
        self.list_attrs = {e['xml'] for ce in tab.entries for e in ce['props'] if e['kind'] == 'attrList'}
        self.list_tags = {e['xml'] for ce in tab.entries for e in ce['props'] if e['kind'] == 'textList' and e['xml']}
        self_list = {ci for ci, ce in enumerate(tab.entries) if any(e['kind'] == 'textList' and not e['xml'] for e in ce['props'])}
        for ce in tab.entries:
            for e in ce['props']:
                if e['kind'] in ('sub', 'subList') and e.get('xml') and e['cls'] >= 0 and \
                        any(issubclass(tab.clist[k], tab.clist[e['cls']]) or issubclass(tab.clist[e['cls']], tab.clist[k]) for k in self_list):
                    self.list_tags.add(e['xml'])
        for k in self_list:
            self.list_tags.add(clark(qname_for(tab.clist[k])))
        # element tags / attribute names are numbers in the model (0 = xsi:type); schema names first, in sorted order
        self.names = {XSI_TYPE: 0}
        for nm in sorted({e['xml'] for ce in tab.entries for e in ce['props'] if e.get('xml')}
                         | {clark(qname_for(c)) for c in tab.clist}):
            self.names.setdefault(nm, len(self.names))
        for ce in tab.entries:
            for e in ce['props']:
                if e['kind'] == 'attr' and e['conv'] == 'QName':
                    self.qattrs.add(e['xml'])
                if e['kind'] in ('text', 'textList') and (e['conv'] == 'QName' or e.get('style') == 'enumqname') and e['xml']:
                    self.qtags.add(e['xml'])

    def nid(self, name) -> str:
        return str(self.names.setdefault(name, len(self.names)))

    def onid(self, name) -> str:
        return '-' if name is None else self.nid(name)

    # ---- converters (the real ones)
    def lex_of(self, p, e, item):
        kind = e['kind']
        if e.get('conv') == 'QName':
            return clark(item)
        if kind == 'attr':
            return p._converter.to_xml(item)
        if kind == 'attrList':
            return p._converter.elem_to_xml(item)
        if kind == 'text':
            if e['style'] == 'enumqname':
                return clark(item.value)
            if e['style'] == 'date':
                return item if isinstance(item, str) else xs.DateOfBirthProperty._mk_datestring(item)
            return p._converter.to_xml(item)
        if kind == 'textList':
            return item
        if kind == 'subTextList':
            return item if isinstance(item, str) else str(item)
        raise ValueError(kind)

    def py_of(self, p, e, lex):
        """what the descriptor makes of a lexical form (None = empty element); raises like the code"""
        kind = e['kind']
        if e.get('conv') == 'QName':
            if lex is None:
                raise ValueError('empty qname')
            return etree.QName(lex)
        if kind == 'attr':
            return p._converter.to_py(lex)
        if kind == 'attrList':
            return p._converter.elem_to_py(lex)
        if kind == 'text':
            if e['style'] == 'enumqname':
                return p._converter.to_py(etree.QName(lex))
            if e['style'] == 'date':
                return isoduration.parse_date_time(lex)
            return p._converter.to_py(lex)
        if kind == 'textList':
            return lex
        if kind == 'subTextList':
            return lex if p.value_class is str else p.value_class(lex)
        raise ValueError(kind)

    def scalar(self, p, e, item) -> str:
        conv = e['conv']
        t = tok(item)
        try:
            lex = self.lex_of(p, e, item)
        except Exception:  # noqa: BLE001
            return t        # no entry: the model's converter "raises" as well
        if not isinstance(lex, str):
            return t
        self.cx[(conv, t)] = str(lex)
        try:
            back = self.py_of(p, e, str(lex))
            self.cp[(conv, str(lex))] = tok(back)
        except Exception:  # noqa: BLE001
            self.cp[(conv, str(lex))] = None
        return t

    def empty_text(self, p, e):
        conv = e['conv']
        if (conv, '') in self.cp:
            return
        try:
            back = self.py_of(p, e, None)
            self.cp[(conv, '')] = None if back is None and e.get('style') == 'date' else tok(back)
        except Exception:  # noqa: BLE001
            self.cp[(conv, '')] = None

    def codec_lines(self):
        lines = [f'cx {H(c)} {H(t)} {H(lx)}' for (c, t), lx in self.cx.items()]
        lines += [f'cp {H(c)} {H(lx)} ' + ('!' if t is None else H(t)) for (c, lx), t in self.cp.items()]
        return lines

    # ---- values
    def val(self, v) -> list:
        """tokens of an instance"""
        ci = self.t.index[type(v)]
        out = ['o', str(ci), str(len(self.t.props[ci]))]
        for (name, p), e in zip(self.t.props[ci], self.t.entries[ci]['props']):
            out += self.field(p, e, sh.actual(v, p), v)
        return out

    def pub(self, v) -> list:
        """tokens of an instance as read through the public attributes (scalar members via getattr)"""
        ci = self.t.index[type(v)]
        out = ['o', str(ci), str(len(self.t.props[ci]))]
        for (name, p), e in zip(self.t.props[ci], self.t.entries[ci]['props']):
            x = sh.actual(v, p)
            if e['kind'] in ('attr', 'text'):
                x = getattr(v, name)
                out += ['n'] if x is None else ['a', H(tok(x))]
            elif e['kind'] == 'sub' and x is not None:
                out += self.pub(x)
            elif e['kind'] == 'subList' and x is not None:
                out += ['l', str(len(x))]
                for item in x:
                    out += self.pub(item)
            else:
                out += self.field(p, e, x, v)
        return out

    def field(self, p, e, x, owner) -> list:
        kind = e['kind']
        if kind in ('attr', 'text'):
            if kind == 'text':
                self.empty_text(p, e)
            return ['n'] if x is None else ['a', H(self.scalar(p, e, x))]
        if kind in ('attrList', 'textList', 'subTextList'):
            if kind == 'textList':
                self.empty_text(p, e)
            if x is None:
                return ['n'] if hasattr(owner, p._local_var_name) else ['l', '0']
            out = ['l', str(len(x))]
            for item in x:
                out += ['a', H(self.scalar(p, e, item))]
            return out
        if kind == 'sub':
            return ['n'] if x is None else self.val(x)
        if kind == 'subList':
            if x is None:
                return ['n']
            out = ['l', str(len(x))]
            for item in x:
                out += self.val(item)
            return out
        if kind == 'raw':
            if x is None:
                return ['r', '0'] if e['style'] == 'ext' else ['n']
            items = [x] if isinstance(x, etree._Element) else list(x)  # noqa: SLF001
            out = ['r', str(len(items))]
            for el in items:
                out += self.xml(el, raw=True)
            return out
        raise ValueError(kind)

    # ---- xml
    def _resolve(self, text, nsmap):
        if ':' not in text:
            ns = nsmap.get(None)
            return '{%s}%s' % (ns, text) if ns else text
        pre, local = text.split(':', 1)
        return '{%s}%s' % (nsmap[pre], local) if pre in nsmap else text

    def xml(self, node, raw=False) -> list:
        attrs = []
        for k, v in node.attrib.items():
            if not raw and k in self.qattrs or k == XSI_TYPE:
                v = self._resolve(v, node.nsmap)
            attrs.append((k, v))
        attrs.sort()
        kids = [c for c in node if isinstance(c.tag, str)]
        text = node.text or ''      # documents are never pretty-printed here: white space is content
        if not raw and node.tag in self.qtags and text:
            text = ' '.join(self._resolve(t, node.nsmap) for t in text.split())
        attrs = sorted((int(self.nid(k)), v) for k, v in attrs)
        out = ['x', self.nid(node.tag), str(len(attrs))]
        for k, v in attrs:
            out += [str(k), H(v)]
        out += [H(text), str(len(kids))]
        for c in kids:
            out += self.xml(c, raw)
        return out


def foreign_rewrite(enc: Enc, node, variant: str):
    """the same infoset as `node`, written the way another XML stack might: 'local' = every element declares the prefixes
    it uses on itself (the same prefix names re-bound from element to element), 'renamed' = other prefix names on the root,
    'default' = the element's own name space is the default name space. QName-valued attributes / text are re-prefixed."""
    root_map = {}

    def ns_of(name):
        return etree.QName(name).namespace

    def build(el, parent, depth):
        needed = []
        def need(ns):
            if ns and ns not in needed:
                needed.append(ns)
        need(ns_of(el.tag))
        qvals = {}
        for k, v in el.attrib.items():
            need(ns_of(k))
            if k in enc.qattrs:
                c = enc._resolve(v, el.nsmap)
                qvals[k] = c
                need(ns_of(c))
        qtext = None
        if el.tag in enc.qtags and el.text:
            qtext = [enc._resolve(t, el.nsmap) for t in el.text.split()]
            for c in qtext:
                need(ns_of(c))
        if variant == 'local':
            nsmap = {f'p{(i + depth) % 3}{i}': ns for i, ns in enumerate(needed)}
        elif variant == 'default':
            own = ns_of(el.tag)
            nsmap = {None: own} if own else {}
            nsmap.update({f'd{i}': ns for i, ns in enumerate(needed) if ns != own or any(ns_of(k) == own for k in el.attrib)})
        else:
            for ns in needed:
                root_map.setdefault(ns, f'q{len(root_map)}')
            nsmap = dict((v, k) for k, v in root_map.items()) if parent is None else None
        new = etree.Element(el.tag, nsmap=nsmap) if parent is None else etree.SubElement(parent, el.tag, nsmap=nsmap)
        eff = new.nsmap

        def prefixed(c):
            q = etree.QName(c)
            if q.namespace is None:
                return q.localname
            if variant == 'default' and eff.get(None) == q.namespace:
                return q.localname
            pre = next((p for p, ns in eff.items() if ns == q.namespace and p is not None), None)
            if pre is None:
                raise KeyError(q.namespace)
            return f'{pre}:{q.localname}'
        for k, v in el.attrib.items():
            new.set(k, prefixed(qvals[k]) if k in qvals else v)
        new.text = ' '.join(prefixed(c) for c in qtext) if qtext is not None else el.text
        for ch in el:
            if isinstance(ch.tag, str):
                build(ch, new, depth + 1)
        return new

    if variant == 'renamed':
        # two passes: collect all name spaces first so that the root can declare them
        def collect(el):
            for ns in [ns_of(el.tag)] + [ns_of(k) for k in el.attrib]:
                if ns:
                    root_map.setdefault(ns, f'q{len(root_map)}')
            for k, v in el.attrib.items():
                if k in enc.qattrs:
                    ns = ns_of(enc._resolve(v, el.nsmap))
                    if ns:
                        root_map.setdefault(ns, f'q{len(root_map)}')
            if el.tag in enc.qtags and el.text:
                for t in el.text.split():
                    ns = ns_of(enc._resolve(t, el.nsmap))
                    if ns:
                        root_map.setdefault(ns, f'q{len(root_map)}')
            for ch in el:
                if isinstance(ch.tag, str):
                    collect(ch)
        collect(node)
    return etree.fromstring(etree.tostring(build(node, None, 0)))


_LIST_SEPARATORS = [' ', '\n', '\t', '\r\n', '  ', ' \n   ', '\t\t', '\n\n']


def list_whitespace_variant(enc: Enc, node, rng):
    """the same document with hand-formatted xs:list values: items of list-valued element text separated by tabs / line
    feeds / CR LF / runs and wrapped in white space; list-valued attributes with runs of spaces and leading / trailing
    spaces (literal tabs and line feeds in attribute values are normalised to spaces by every XML parser).
    Returns (document, number of lists changed)."""
    doc = etree.fromstring(etree.tostring(node))
    n = 0
    for el in doc.iter():
        if not isinstance(el.tag, str):
            continue
        if el.tag in enc.list_tags and el.text and el.text.split() and not len(el):
            items = el.text.split()
            lead, trail = rng.choice(['', '\n  ', ' ', '\t']), rng.choice(['', '\n', '  ', '\r\n'])
            el.text = lead + ''.join(it + (rng.choice(_LIST_SEPARATORS) if k < len(items) - 1 else '') for k, it in enumerate(items)) + trail
            n += 1
        for k, v in list(el.attrib.items()):
            if k in enc.list_attrs and v.split():
                items = v.split(' ')
                el.set(k, rng.choice(['', ' ', '  ']) + rng.choice(['  ', '   ', ' ']).join(i for i in items if i) + rng.choice(['', ' ']))
                n += 1
    return etree.fromstring(etree.tostring(doc)), n


def _pad_duration(lex: str, rng) -> str:
    """an xs:duration lexical form of the same value with 7..12 fraction digits in the seconds field"""
    import re
    m = re.fullmatch(r'(-?P(?:\d+Y)?(?:\d+M)?(?:\d+D)?T(?:\d+H)?(?:\d+M)?)(\d+)(?:\.(\d+))?S', lex)
    if m is None:
        if re.fullmatch(r'-?P(?:\d+Y)?(?:\d+M)?(?:\d+D)?(?:T(?:\d+H)?(?:\d+M)?)?', lex) and lex not in ('P', '-P'):
            return lex + ('' if 'T' in lex else 'T') + '0.' + '0' * rng.randint(7, 12) + 'S'
        return lex
    frac = (m.group(3) or '')
    return f'{m.group(1)}{m.group(2)}.{frac.ljust(rng.randint(max(7, len(frac) + 1), max(12, len(frac) + 1)), "0")}S'


def duration_variant(enc: Enc, node, rng):
    """the same document with the seconds of every xs:duration written with more fraction digits (trailing zeros)"""
    doc = etree.fromstring(etree.tostring(node))
    n = 0
    for el in doc.iter():
        if not isinstance(el.tag, str):
            continue
        if el.tag in enc.dur_tags and el.text and not len(el):
            new = _pad_duration(el.text.strip(), rng)
            n += new != el.text
            el.text = new
        for k, v in list(el.attrib.items()):
            if k in enc.dur_attrs:
                new = _pad_duration(v.strip(), rng)
                n += new != v
                el.set(k, new)
    return doc, n


def _alt_lexical(conv: str, lex: str, rng, in_attr: bool) -> str:
    """another legal spelling of the same value of an XSD simple type (xs:boolean 1 / 0, leading zeros, +, `5.` / `.5` /
    trailing fraction zeros, surrounding white space where the type collapses white space)"""
    out = lex
    if conv == 'Boolean':
        out = {'true': '1', 'false': '0', '1': 'true', '0': 'false'}.get(lex, lex)
        return out      # (white space around booleans: see open points in the report)
    if conv in ('Integer', 'UnsignedInt', 'Timestamp') and lex.lstrip('-').isdigit():
        sign, digits = ('-', lex[1:]) if lex.startswith('-') else ('', lex)
        out = sign + '0' * rng.randint(1, 3) + digits
        if conv == 'Integer' and not sign and rng.random() < 0.4:
            out = '+' + digits
    elif conv == 'Decimal' and lex.replace('-', '', 1).replace('.', '', 1).isdigit():
        sign, body = ('-', lex[1:]) if lex.startswith('-') else ('', lex)
        choice = rng.randrange(4)
        if '.' not in body:
            body = [body + '.', body + '.0', '0' + body, body + '.000'][choice]
        elif body.startswith('0.') and choice == 0:
            body = body[1:]
        else:
            body = [body + '0', '00' + body, body + '000', body][choice]
        out = sign + body
    else:
        return lex
    if rng.random() < 0.5:
        ws = [' ', '  '] if in_attr else [' ', '\n', '\t', ' \n ']
        out = rng.choice(ws) + out + rng.choice(ws)
    return out


def lexical_variant(tab: Table, obj, node, rng) -> int:
    """rewrite (in place) the scalar attributes / element texts of `node` - the document written for `obj` - to other legal
    spellings of the same values; type-directed (object and document are walked together). Returns the number of changes."""
    ci = tab.index.get(type(obj))
    if ci is None or node is None:
        return 0
    n = 0
    for (name, p), e in zip(tab.props[ci], tab.entries[ci]['props']):
        kind, xml = e['kind'], e.get('xml')
        v = sh.actual(obj, p)
        if kind == 'attr' and xml in node.attrib and not e['volatile']:
            new = _alt_lexical(e['conv'], node.get(xml), rng, True)
            n += new != node.get(xml)
            node.set(xml, new)
        elif kind == 'attrList' and xml in node.attrib and e['conv'] in ('Decimal', 'Integer'):
            new = ' '.join(_alt_lexical(e['conv'], t, rng, True).strip() for t in node.get(xml).split(' ') if t)
            n += new != node.get(xml)
            node.set(xml, new)
        elif kind == 'text' and e['style'] == 'plain':
            el = node if xml is None else node.find(xml)
            if el is not None and el.text and not len(el):
                new = _alt_lexical(e['conv'], el.text, rng, False)
                n += new != el.text
                el.text = new
        elif kind == 'sub' and xml and sh.is_value_object(v):
            n += lexical_variant(tab, v, node.find(xml), rng)
        elif kind == 'subList' and xml and isinstance(v, list):
            subs = node.findall(xml)
            if len(subs) == len(v):
                for item, sub in zip(v, subs):
                    if sh.is_value_object(item):
                        n += lexical_variant(tab, item, sub, rng)
    return n


def foreign_oracle(ctx, tab: Table, enc: Enc, obj, node, case, variant):
    """a document with the same content written by a foreign stack must be read to the same value"""
    key = sh.class_key(type(obj))
    try:
        doc = foreign_rewrite(enc, node, variant)
    except Exception:  # noqa: BLE001
        ctx.count('foreign:rewrite-failed')
        return
    if enc.xml(doc) != enc.xml(node):
        ctx.count('foreign:rewrite-not-equivalent')     # harness problem, never blame the implementation for it
        return
    ctx.count('foreign:' + variant)
    doc, nlists = list_whitespace_variant(enc, doc, random.Random(len(etree.tostring(doc))))
    if nlists:
        ctx.count('foreign:list-whitespace')
        variant += '+list-whitespace'
    doc, ndur = duration_variant(enc, doc, random.Random(len(etree.tostring(doc)) + 1))
    if ndur:
        ctx.count('foreign:duration-fraction-digits')
        variant += '+duration-digits'
    nlex = lexical_variant(tab, obj, doc, random.Random(len(etree.tostring(doc)) + 2))
    if nlex:
        doc = etree.fromstring(etree.tostring(doc))
        ctx.count('foreign:alternative-lexical-forms')
        variant += '+alt-lexical'
    try:
        back = parse_node(type(obj), doc)
    except Exception as ex:  # noqa: BLE001
        tb = ex.__traceback__
        while tb.tb_next is not None:
            tb = tb.tb_next
        site = tb.tb_frame.f_code.co_qualname if hasattr(tb.tb_frame.f_code, 'co_qualname') else tb.tb_frame.f_code.co_name
        ctx.fail(f'foreign-read-raises:{variant}:{site}', f'{key}: a document with locally declared / renamed / default name space prefixes '
                 f'(same infoset as the library output) cannot be read: {type(ex).__name__}: {str(ex)[:200]}',
                 {**case, 'variant': variant, 'xml': etree.tostring(doc).decode()})
        return
    if canon(back) != canon(obj):
        where, u, w = member_of_diff(obj, back)
        ctx.fail(f'foreign-read-differs:{variant}:{where}', f'{key}: the {variant} variant of its own XML is read to a different value at {where}',
                 {**case, 'variant': variant, 'xml': etree.tostring(doc).decode()})


def kind_tokens(enc: Enc, tab: Table, p, e) -> list:
    k = e['kind']
    if k == 'attr':
        return ['attr', enc.nid(e['xml']), H(e['conv']), b(e['optional']), b(e['volatile'])]
    if k == 'attrList':
        return ['attrList', enc.nid(e['xml']), H(e['conv']), b(e['optional'])]
    if k == 'text':
        style = {'plain': 'plain', 'enumqname': 'enumQName', 'qname': 'qname', 'date': 'date'}[e['style']]
        d = p._default_py_value
        return ['text', enc.onid(e['xml']), H(e['conv']), b(e['optional']), b(e['minlen']), style,
                '-' if (d is None or style != 'enumQName') else H(enc.scalar(p, e, d))]
    if k == 'textList':
        return ['textList', enc.onid(e['xml']), H(e['conv']), b(e['optional'])]
    if k == 'subTextList':
        return ['subTextList', enc.nid(e['xml']), H(e['conv'])]
    if k == 'sub':
        d = p._default_py_value
        return ['sub', enc.onid(e['xml']), str(max(e['cls'], 0)), b(e['optional']), b(e['container']), b(e['skip_empty']), str(e['dispatch']),
                *(['-'] if d is None or type(d) not in tab.index else enc.val(d))]
    if k == 'subList':
        return ['subList', enc.nid(e['xml']), str(max(e['cls'], 0)), b(e['container']), str(e['dispatch'])]
    if k == 'raw':
        return ['raw', enc.onid(e['xml']), {'ext': 'ext', 'any': 'any', 'anylist': 'anyList'}[e['style']], b(e['optional'])]
    raise ValueError(k)


def schema_lines(enc: Enc, tab: Table) -> list:
    lines = []
    for ci, ce in enumerate(tab.entries):
        cls = tab.clist[ci]
        toks = ['S', H(ce['key']), b(hasattr(cls, 'NODETYPE')), opt_h(ce['nodetype']), str(len(ce['props']))]
        for (name, p), e in zip(tab.props[ci], ce['props']):
            toks += [H(name), *kind_tokens(enc, tab, p, e)]
        lines.append(' '.join(toks))
    for reg, q, c in tab.types:
        lines.append(f'T {reg} {H(q)} {c}')
    lines.append(f'now {H(tok(NOW))}')
    for ci in range(len(tab.entries)):
        for k, ((name, p), e) in enumerate(zip(tab.props[ci], tab.entries[ci]['props'])):
            if e['kind'] in ('attr', 'text') and p._implied_py_value is not None:
                lines.append(f'I {ci} {k} {H(tok(p._implied_py_value))}')
    return lines


# ------------------------------------------------------------------------------------------------ the bundled XSD as reference
_XSD_BIND = {}


def xsd_bind(tab: Table, X):
    """class index -> XSD type name: by NODETYPE (type name or global element), else propagated from the members that use
    the class (anonymous inline types, classes without NODETYPE)"""
    bind = {}
    for ci, ce in enumerate(tab.entries):
        nt = ce['nodetype']
        if nt is None:
            continue
        if nt in X.types:
            bind[ci] = nt
        elif nt in X.global_elems:
            bind[ci] = X.global_elems[nt]
    direct = set(bind)
    changed = True
    while changed:
        changed = False
        for ci in list(bind):
            elems = {e[0]: X.resolve(e[1]) for e in X.flatten(bind[ci])[0]}
            for e in tab.entries[ci]['props']:
                if e['kind'] in ('sub', 'subList') and e['cls'] >= 0 and e['cls'] not in bind and e.get('xml') in elems \
                        and elems[e['xml']] in X.types and not X.types[elems[e['xml']]].simple:
                    bind[e['cls']] = elems[e['xml']]
                    changed = True
    _XSD_BIND.clear()
    _XSD_BIND.update({tab.keys[ci]: bind.get(ci) for ci in range(len(tab.keys))})
    return bind, direct


def lexical_of_default(p, e):
    """lexical form of the member's implied value"""
    v = p._implied_py_value      # what an absent attribute reads as (a default_py_value only initialises new instances)
    if v is None:
        return None
    try:
        if e['kind'] == 'attr':
            return clark(v) if e['conv'] == 'QName' else p._converter.to_xml(v)
        if e['kind'] == 'text' and e['style'] == 'plain':
            return p._converter.to_xml(v)
    except Exception:  # noqa: BLE001
        return None
    return None


def xsd_compare(tab: Table, X):
    """deviations of the Python declarations from the bundled schemas: [(class key, member xml name, code, detail)]"""
    bind, direct = xsd_bind(tab, X)
    dev = []
    for ci, ce in enumerate(tab.entries):
        if ci not in bind:
            continue
        key = ce['key']
        elems, attrs, any_elem, any_attr = X.flatten(bind[ci])
        epos = {}
        for i, e in enumerate(elems):
            epos.setdefault(e[0], i)
        amap = {a[0]: a for a in attrs}
        last = -1
        seen_e, seen_a = set(), set()
        for (name, p), e in zip(tab.props[ci], ce['props']):
            kind, xml = e['kind'], e.get('xml')
            if kind in ('attr', 'attrList'):
                seen_a.add(xml)
                a = amap.get(xml)
                if a is None:
                    if not any_attr:
                        dev.append((key, xml, 'unknown-attr', f'{name}: the XSD type has no attribute {xml}'))
                    continue
                if a[2] and e['optional']:
                    dev.append((key, xml, 'required-attr-optional', f'{name}: use="required" in the XSD, is_optional=True in the class'))
                if not a[2] and not e['optional']:
                    dev.append((key, xml, 'optional-attr-mandatory', f'{name}: optional in the XSD, is_optional=False in the class'))
                if a[3] is not None and kind == 'attr':
                    lx = lexical_of_default(p, e)
                    if lx != a[3]:
                        dev.append((key, xml, 'default', f'{name}: XSD default {a[3]!r}, implied / default value of the class {lx!r}'))
                continue
            if xml is None:
                continue
            seen_e.add(xml)
            if xml not in epos:
                if not any_elem:
                    dev.append((key, xml, 'unknown-element', f'{name}: the XSD type {bind[ci]} has no child element {xml}'))
                continue
            i = epos[xml]
            if i < last:
                dev.append((key, xml, 'order', f'{name}: written after a member that follows it in the XSD sequence'))
            last = max(last, i)
            xe = elems[i]
            is_list = kind in ('subList', 'subTextList') or (kind == 'raw' and e['style'] == 'anylist' and False)
            if kind in ('sub', 'subList', 'subTextList', 'text', 'textList'):
                if is_list and xe[3] == 1:
                    dev.append((key, xml, 'listness', f'{name}: a list in the class, maxOccurs=1 in the XSD'))
                if not is_list and kind in ('sub', 'text') and xe[3] != 1:
                    dev.append((key, xml, 'listness', f'{name}: a single value in the class, maxOccurs={xe[3]} in the XSD'))
            if kind in ('sub', 'subList') and e['cls'] >= 0:
                want = X.resolve(xe[1])
                have = bind.get(e['cls'])
                if want in X.types and not X.types[want].simple and have != want:
                    dev.append((key, xml, 'value-type', f'{name}: declared value class {tab.keys[e["cls"]]} stands for {have}, the XSD element '
                                f'has type {want}'))
            if kind in ('sub', 'text') and xe[2] >= 1 and e['optional']:
                dev.append((key, xml, 'required-element-optional', f'{name}: minOccurs={xe[2]} in the XSD, is_optional=True in the class'))
        for en in epos:
            if en not in seen_e:
                dev.append((key, en, 'missing-element', 'child element of the XSD type without member in the class'))
        for an in amap:
            if an not in seen_a:
                dev.append((key, an, 'missing-attr', 'attribute of the XSD type without member in the class'))
    return dev


# ------------------------------------------------------------------------------------------------ translator
def lstr(x) -> str:
    """Lean string literal"""
    out = []
    for ch in x:
        o = ord(ch)
        if ch == '"':
            out.append('\\"')
        elif ch == '\\':
            out.append('\\\\')
        elif ch == '\n':
            out.append('\\n')
        elif ch == '\t':
            out.append('\\t')
        elif o < 32 or o == 127:
            out.append('\\x%02x' % o)
        else:
            out.append(ch)
    return '"' + ''.join(out) + '"'


def lopt(x) -> str:
    return 'none' if x is None else f'(some {lstr(x)})'


def lbool(x) -> str:
    return 'true' if x else 'false'


def lnopt(enc, name) -> str:
    return 'none' if name is None else f'(some {enc.nid(name)})'


def lean_val(toks, i=0):
    """driver value tokens -> Lean term of type Val (only none / atom / list / obj occur in defaults)"""
    t = toks[i]
    if t == 'n':
        return '.none', i + 1
    if t == 'a':
        return f'(.atom {lstr(_unh(toks[i + 1]))})', i + 2
    if t in ('l', 'o'):
        off = 2 if t == 'l' else 3
        n = int(toks[i + off - 1])
        items, j = [], i + off
        for _ in range(n):
            term, j = lean_val(toks, j)
            items.append(term)
        body = '[' + ', '.join(items) + ']'
        return (f'(.list {body})' if t == 'l' else f'(.obj {toks[i + 1]} {body})'), j
    if t == 'r':
        if toks[i + 1] != '0':
            raise ValueError('raw xml inside a default')
        return '(.raw [])', i + 2
    raise ValueError(t)


def lean_kind(enc: Enc, tab: Table, p, e) -> str:
    k = e['kind']
    if k == 'attr':
        return f'.attr {enc.nid(e["xml"])} {lstr(e["conv"])} {lbool(e["optional"])} {lbool(e["volatile"])}'
    if k == 'attrList':
        return f'.attrList {enc.nid(e["xml"])} {lstr(e["conv"])} {lbool(e["optional"])}'
    if k == 'text':
        style = {'plain': '.plain', 'enumqname': '.enumQName', 'qname': '.qname', 'date': '.date'}[e['style']]
        d = p._default_py_value
        dd = None if (d is None or e['style'] != 'enumqname') else enc.scalar(p, e, d)
        return f'.text {lnopt(enc, e["xml"])} {lstr(e["conv"])} {lbool(e["optional"])} {lbool(e["minlen"])} {style} {lopt(dd)}'
    if k == 'textList':
        return f'.textList {lnopt(enc, e["xml"])} {lstr(e["conv"])} {lbool(e["optional"])}'
    if k == 'subTextList':
        return f'.subTextList {enc.nid(e["xml"])} {lstr(e["conv"])}'
    if k == 'sub':
        d = p._default_py_value
        dv = 'none' if (d is None or type(d) not in tab.index) else f'(some {lean_val(enc.val(d))[0]})'
        return (f'.sub {lnopt(enc, e["xml"])} {max(e["cls"], 0)} {lbool(e["optional"])} {lbool(e["container"])} {lbool(e["skip_empty"])} '
                f'{e["dispatch"]} {dv}')
    if k == 'subList':
        return f'.subList {enc.nid(e["xml"])} {max(e["cls"], 0)} {lbool(e["container"])} {e["dispatch"]}'
    if k == 'raw':
        return f'.raw {lnopt(enc, e["xml"])} {dict(ext=".ext", any=".any", anylist=".anyList")[e["style"]]} {lbool(e["optional"])}'
    raise ValueError(k)


def translate(ctx):
    tab = table()
    enc = Enc(tab)
    out = ['import SdcModel.XmlBinding',
           '/-! GENERATED by harness/props/c05.py from the running code (runtime introspection of `_props` and every descriptor); '
           'do not edit. -/',
           'namespace Sdc.Generated.Schema', 'open Sdc.XmlBinding', '']
    names = []
    for ci, ce in enumerate(tab.entries):
        cls = tab.clist[ci]
        props = ',\n    '.join(f'⟨{lstr(name)}, {lean_kind(enc, tab, p, e)}⟩' for (name, p), e in zip(tab.props[ci], ce['props']))
        out.append(f'def c{ci} : ClsE := ⟨{lstr(ce["key"])}, {lbool(hasattr(cls, "NODETYPE"))}, {lopt(ce["nodetype"])}, [\n    {props}]⟩')
        names.append(f'c{ci}')
    out.append('')
    out.append('def classes : List ClsE := [' + ', '.join(names) + ']')
    out.append('def types : List (Nat × String × Nat) := [\n  ' + ',\n  '.join(f'({r}, {lstr(q)}, {c})' for r, q, c in tab.types) + ']')
    out.append('def schema : Schema := ⟨classes, types⟩')
    out.append('/-- element tags / attribute names behind the numbers used above (index = number) -/')
    table_names = sorted(enc.names, key=enc.names.get)
    out.append('def nameTable : List String := [\n  ' + ',\n  '.join(lstr(n) for n in table_names) + ']')
    out.append('end Sdc.Generated.Schema\n')
    core.write_if_changed(core.GENERATED + '/Schema.lean', '\n'.join(out))
    translate_xsd(ctx, tab, enc)
    ctx.notes['schema'] = {'classes': len(tab.entries), 'members': sum(len(c['props']) for c in tab.entries), 'xsi_type_entries': len(tab.types),
                           'classes_that_cannot_be_constructed': tab.broken,
                           'kinds': {k: sum(1 for c in tab.entries for e in c['props'] if e['kind'] == k)
                                     for k in ('attr', 'attrList', 'text', 'textList', 'subTextList', 'sub', 'subList', 'raw')}}


def translate_xsd(ctx, tab: Table, enc: Enc):
    """Generated/XsdTable.lean: per class of the Python table the XSD type it stands for (flattened elements / attributes)"""
    import xsdtable
    X = xsdtable.XsdTable()
    bind, direct = xsd_bind(tab, X)
    type_ids, lex_ids = {}, {}

    def tid(name):
        name = X.resolve(name)
        if name is None or name not in X.types or X.types[name].simple:
            return 0
        return type_ids.setdefault(name, len(type_ids) + 1)

    def lid(lex):
        return lex_ids.setdefault(lex, len(lex_ids))
    out = ['import SdcModel.XmlBinding',
           '/-! GENERATED by harness/props/c05.py from /repo/src/sdc11073/xsd/*.xsd (harness/xsdtable.py) and the class table; do not edit. -/',
           'namespace Sdc.Generated.XsdTable', 'open Sdc.XmlBinding', '']
    names = []
    for ci, ce in enumerate(tab.entries):
        if ci not in bind:
            out.append(f'def l{ci} : XsdLink := ⟨0, [], [], false, false, []⟩  -- {ce["key"]}: no XSD type')
            names.append(f'l{ci}')
            continue
        elems, attrs, any_e, any_a = X.flatten(bind[ci])
        es = ', '.join(f'⟨{enc.nid(e[0])}, {tid(e[1])}, {e[2]}, {lbool(e[3] != 1)}⟩' for e in elems)
        as_ = ', '.join(f'⟨{enc.nid(a[0])}, {lbool(a[2])}, {"none" if a[3] is None else f"(some {lid(a[3])})"}⟩' for a in attrs)
        imp = []
        for (name, p), e in zip(tab.props[ci], ce['props']):
            if e['kind'] == 'attr':
                lx = lexical_of_default(p, e)
                if lx is not None:
                    imp.append(f'({enc.nid(e["xml"])}, {lid(lx)})')
        out.append(f'def l{ci} : XsdLink := ⟨{tid(bind[ci])}, [{es}], [{as_}], {lbool(any_e)}, {lbool(any_a)}, [{", ".join(imp)}]⟩'
                   f'  -- {ce["key"]} = {bind[ci].split("}")[-1]}')
        names.append(f'l{ci}')
    out.append('')
    out.append('def links : List XsdLink := [' + ', '.join(names) + ']')
    table_names = sorted(enc.names, key=enc.names.get)
    out.append('/-- local part of the element / attribute names (index = number) -/')
    out.append('def localNames : List String := [' + ', '.join(lstr(n.split('}')[-1]) for n in table_names) + ']')
    out.append('/-- XSD complex types behind the type numbers (index + 1 = number) -/')
    out.append('def typeNames : List String := [\n  ' + ',\n  '.join(lstr(t) for t in sorted(type_ids, key=type_ids.get)) + ']')
    out.append('end Sdc.Generated.XsdTable\n')
    core.write_if_changed(core.GENERATED + '/XsdTable.lean', '\n'.join(out))
    dev = xsd_compare(tab, X)
    ctx.notes['xsd'] = {'classes_bound_to_an_xsd_type': len(bind), 'by_NODETYPE': len(direct),
                        'deviations': {c: sum(1 for d in dev if d[2] == c) for c in sorted({d[2] for d in dev})}}


# ------------------------------------------------------------------------------------------------ implementation side
def qname_for(cls):
    nt = getattr(cls, 'NODETYPE', None)
    return nt if isinstance(nt, etree.QName) else etree.QName('urn:verif', cls.__name__)


def serialize(obj):
    q = qname_for(type(obj))
    if isinstance(obj, containerbase.ContainerBase):
        return obj.mk_node(q, default_ns_helper)
    return obj.as_etree_node(q, default_ns_helper.ns_map)


def parse_node(cls, node):
    """cls.from_node(node); mex Metadata.from_node takes the *parent* (the soap body) of its own element"""
    if cls.__name__ == 'Metadata' and cls.__module__.endswith('mex_types'):
        wrapper = etree.Element('body')
        wrapper.append(copy.deepcopy(node))
        return cls.from_node(wrapper)
    return cls.from_node(node)


NO_MODEL = {'mex_types.Metadata'}    # custom from_node (dialect dispatch), not a descriptor-driven class


def canon(v):
    return json.dumps(sh.canonical(v), sort_keys=True, default=str, ensure_ascii=False)


def c14n(node):
    return etree.tostring(node, method='c14n2').decode()


def xml_canon(node):
    """prefix independent structural canonical form: [tag, sorted attrs, text, children]; xsi:type values resolved"""
    attrs = []
    for k, v in node.attrib.items():
        if k == XSI_TYPE and ':' in v:
            pre, local = v.split(':', 1)
            v = '{%s}%s' % (node.nsmap.get(pre), local)
        attrs.append([k, v])
    kids = [xml_canon(c) for c in node if isinstance(c.tag, str)]
    return [node.tag, sorted(attrs), node.text or '', kids]


def first_diff(a, b):
    """path of the first difference of two canonical values"""
    if type(a) is not type(b):
        return '', a, b
    if isinstance(a, list):
        if len(a) != len(b):
            return f'(len {len(a)}!={len(b)})', a, b
        for i, (x, y) in enumerate(zip(a, b)):
            if x != y:
                label = x[0] if (isinstance(x, list) and len(x) == 2 and isinstance(x[0], str)) else str(i)
                p, u, w = first_diff(x, y)
                return f'{label}/{p}', u, w
    return '', a, b


def member_of_diff(a, b):
    """class.member path of the innermost differing member (for a stable signature)"""
    path, u, w = first_diff(sh.canonical(a), sh.canonical(b))
    names = [s for s in path.split('/') if s and not s.isdigit() and len(s) > 1 and not s.startswith('(')]   # type tags are 1 letter
    return '.'.join(names[-2:]) if names else path, u, w


def innermost_class(obj, path_names):
    return type(obj).__name__


def public_problems(obj, path=''):
    """what an API user reads: `getattr(obj, name)` must be the stored value when one is present (also a falsy one) and the
    declared implied value when the member is absent; recursively. Returns [(path, stored, public, expected)]."""
    res = []
    for name, p in sh.class_props(type(obj)):
        stored = sh.actual(obj, p)
        here = f'{path}.{name}' if path else name
        if isinstance(p, (xs.ExtensionNodeProperty, xs._AttributeListBase, xs._ElementListProperty)):
            pub = stored          # __get__ of these kinds creates and stores a list on first read: read directly
        else:
            try:
                pub = getattr(obj, name)
            except Exception as ex:  # noqa: BLE001
                res.append((here, stored, f'<{type(ex).__name__}>', stored))
                continue
        expected = stored if stored is not None else p._implied_py_value
        if sh.is_value_object(stored):
            if pub is not stored:
                res.append((here, type(stored).__name__, type(pub).__name__, 'the stored object'))
            res += public_problems(stored, here)
        elif isinstance(stored, list):
            for i, item in enumerate(stored):
                if sh.is_value_object(item):
                    res += public_problems(item, f'{here}[{i}]')
        elif canon(pub) != canon(expected) or type(pub) is not type(expected) and not isinstance(pub, type(expected)):
            res.append((here, stored, pub, expected))
    return res


def oracle(ctx, tab: Table, obj, case):
    """the property statement on one instance; True when everything holds"""
    key = sh.class_key(type(obj))
    try:
        node = serialize(obj)      # may write to obj (Handle of multi states, ClockState.DateAndTime): compare afterwards
        want = canon(obj)
    except Exception as ex:  # noqa: BLE001
        ctx.count('oracle:write-raises')
        ctx.fail(f'write-raises:{key}:{_exc_sig(ex)}', f'{key}: as_etree_node / mk_node raises {type(ex).__name__}: {str(ex)[-300:]}', case)
        return False
    if node is None:
        ctx.count('oracle:class-without-xml-body')     # eventing Unsubscribe: the body is empty by design
        return True
    validate_oracle(ctx, obj, node, case)
    ok = True
    # writing is an observation: a second write of the same object gives the same document, leaves the document written
    # before as it is (lxml moves an element that already has a parent) and does not change the value
    x_first = xml_canon(node)
    try:
        node_b = serialize(obj)
        if xml_canon(node_b) != x_first:
            ctx.fail(f'write-twice-differs:{key}', f'{key}: writing the same object twice gives two different documents '
                     f'({first_diff(x_first, xml_canon(node_b))[0]})', case)
            ok = False
        if xml_canon(node) != x_first:
            ctx.fail(f'write-changes-earlier-document:{key}', f'{key}: writing the object again changed the document that was written before '
                     f'({first_diff(x_first, xml_canon(node))[0]})', case)
            return False
        if canon(obj) != want:
            ctx.fail(f'write-changes-value:{key}', f'{key}: a second write changed the value of the object', case)
            ok = False
    except Exception as ex:  # noqa: BLE001
        ctx.fail(f'write-twice-raises:{key}:{_exc_sig(ex)}', f'{key}: the second write of the same object raises {type(ex).__name__}', case)
        return False
    text = etree.tostring(node)
    for how, n in (('memory', node), ('reparsed', etree.fromstring(text))):
        try:
            back = parse_node(type(obj), n)
        except Exception as ex:  # noqa: BLE001
            ctx.fail(f'read-raises:{key}:{_exc_sig(ex)}', f'{key}: from_node of its own XML ({how}) raises {type(ex).__name__}: {str(ex)[-300:]}',
                     {**case, 'xml': text.decode()})
            return False
        ctx.count('oracle:public-read-checked')
        for where, stored, pub, expected in public_problems(back)[:3]:
            member = '.'.join(where.replace('[', '.').split('.')[-1:])
            owner = type(back).__name__ if '.' not in where else where.rsplit('.', 1)[0].split('.')[-1].split('[')[0]
            ctx.fail(f'public-read:{owner}.{member}', f'{key}: reading {where} through the attribute gives {pub!r}; the XML / the stored value says '
                     f'{stored!r} (expected {expected!r}: the stored value when present, the implied value when absent)',
                     {**case, 'xml': text.decode()})
            ok = False
        for where, ckey, member, lex, expected in xsd_implied_problems(tab, back)[:3]:
            ctx.fail(f'xsd-implied:{ckey}.{member}', f'{key}: {where} is absent in the XML and reads as {lex!r}; the bundled XSD documents the '
                     f'implied value {expected!r}', {**case, 'xml': text.decode()})
            ok = False
        got = canon(back)
        if got != want:
            where, u, w = member_of_diff(obj, back)
            ctx.fail(f'roundtrip:{where}', f'{key}: from_node(as_etree_node(v)) != v ({how}) at {where}: wrote {json.dumps(u, default=str)[:120]} '
                     f'read {json.dumps(w, default=str)[:120]}', {**case, 'xml': text.decode()})
            ok = False
            break
        x_source = xml_canon(n)
        try:
            again = serialize(back)
        except Exception as ex:  # noqa: BLE001
            ctx.fail(f'rewrite-raises:{key}:{_exc_sig(ex)}', f'{key}: writing the value that was read raises {type(ex).__name__}', case)
            return False
        if xml_canon(n) != x_source:
            ctx.fail(f'write-changes-source-document:{key}', f'{key}: writing the value that was read from a document changed that document '
                     f'({how}; {first_diff(x_source, xml_canon(n))[0]})', {**case, 'xml': text.decode()})
            return False
        if xml_canon(again) != x_first:
            ctx.fail(f'rewrite-differs:{key}', f'{key}: as_etree_node(from_node(x)) differs from x ({how})', {**case, 'xml': text.decode()})
            ok = False
            break
    return ok


_VALIDATOR = None


def validator():
    global _VALIDATOR
    if _VALIDATOR is None:
        from sdc11073.schema_resolver import mk_schema_validator
        specs = [e.value for e in default_ns_helper.prefix_enum]
        _VALIDATOR = mk_schema_validator(specs, default_ns_helper)
    return _VALIDATOR


_STRUCTURAL = (('This element is not expected', 'unexpected-element'), ('is not allowed', 'attribute-not-allowed'),
               ('is required but missing', 'required-attribute-missing'), ('Missing child element', 'missing-child'))


def validate_oracle(ctx, obj, node, case):
    """documents whose root is a global element of the bundled schemas are validated. Structural errors (an element /
    attribute the XSD does not expect at this place, a missing required attribute / child) are oracle failures: the
    generator takes required attributes and minOccurs from the XSD, so the value lies in the schema value space.
    Datatype / facet errors stay supporting evidence (the generator does not know the simple type facets)."""
    nt = getattr(type(obj), 'NODETYPE', None)
    if not isinstance(nt, etree.QName) or node.tag != nt.text or not type(obj).__module__.endswith(('msg_types', 'eventing_types', 'wsd_types')):
        return
    try:
        ok = validator().validate(etree.fromstring(etree.tostring(node)))
    except Exception:  # noqa: BLE001
        ctx.count('xsd:validator-error')
        return
    if ok:
        ctx.count('xsd:valid')
        return
    import re
    for err in validator().error_log:
        msg = err.message
        if 'No matching global declaration' in msg:
            ctx.count('xsd:no-global-element')
            return
        kind = next((k for pat, k in _STRUCTURAL if pat in msg), None)
        m = re.search(r"Element '\{[^}]*\}(\w+)'(?:, attribute '(?:\{[^}]*\})?(\w+)')?", msg)
        el, at = (m.group(1), m.group(2)) if m else ('?', None)
        m2 = re.search(r"The attribute '(?:\{[^}]*\})?(\w+)' is required", msg)
        if kind == 'required-attribute-missing' and m2:
            at = m2.group(1)
        if kind is None:
            ctx.count('xsd:invalid-datatype (evidence only)')
            d = ctx.notes.setdefault('xsd_datatype_errors', {})
            reason = re.sub(r"'[^']*'", "'…'", msg)[:100]
            d[reason] = d.get(reason, 0) + 1
            continue
        if 'urn:verif' in msg:
            continue       # generated any-content / extension content, not described by the schemas
        ctx.count('xsd:invalid-structure')
        ctx.fail(f'xsd-invalid:{kind}:{el}' + (f'.{at}' if at else ''),
                 f'{sh.class_key(type(obj))}: the document written for a value of the schema value space is not schema valid: {msg[:300]}',
                 {**case, 'xml': etree.tostring(node).decode()[:3000]})
        return


def _exc_sig(ex):
    s = str(ex)
    for marker in ('mandatory value', 'could not update'):
        if marker in s:
            import re
            m = re.search(r'In (\w+)\.(\w+)', s)
            return f'{type(ex).__name__}:{m.group(1)}.{m.group(2)}' if m else type(ex).__name__
    return type(ex).__name__


def gen_cases(ctx, tab: Table):
    per_class = ctx.n(6, 60)
    for ci, cls in enumerate(tab.clist):
        for k in range(per_class):
            g = Gen(tab, ctx.subrng('gen', ci, k), max_depth=ctx.subrng('d', ci, k).choice([1, 2, 3]))
            try:
                obj = g.instance(cls)
            except GenError as ex:
                ctx.count('gen:rejected')
                ctx.notes.setdefault('gen_rejected', []).append(str(ex)[:200])
                continue
            ctx.count('gen:ok')
            yield ci, k, obj, g
        if tab.keys[ci].startswith('msg_types.') and getattr(cls, 'NODETYPE', None) is not None:
            for k in range(1000, 1000 + ctx.n(3, 12)):
                g = Gen(tab, ctx.subrng('gen', ci, k), max_depth=3, full=True)
                try:
                    obj = g.instance(cls)
                except GenError:
                    continue
                ctx.count('gen:full-presence')
                yield ci, k, obj, g


def helper_clause(ctx, tab: Table):
    """the helper methods of the containers that edit `Extension` are part of what is round-tripped: for every class with
    get_retrievability / set_retrievability: a descriptor read from XML whose extension holds 0..3 msg:Retrievability
    elements (adjacent, or interleaved with other extension elements); get = what was written; after set_retrievability(new)
    get = new, the other extension elements are still there in their order; the same after write + read."""
    from sdc11073.xml_types import msg_qnames as msgq
    from sdc11073.xml_types import pm_types
    methods = list(pm_types.RetrievabilityMethod)
    for ci, cls in enumerate(tab.clist):
        if not (hasattr(cls, 'set_retrievability') and hasattr(cls, 'get_retrievability')):
            continue
        for k in range(ctx.n(4, 12)):
            rng = ctx.subrng('helper', ci, k)

            def retr():
                return pm_types.Retrievability([pm_types.RetrievabilityInfo(rng.choice(methods), rng.choice([None, 1.0, 2.5]))
                                                for _ in range(rng.randint(1, 2))])
            olds = [retr() for _ in range(k % 4)]
            items = [('r', r) for r in olds] + [('x', n) for n in range(rng.randint(0, 2))]
            if rng.random() < 0.5:
                rng.shuffle(items)          # else: the Retrievability elements are adjacent
            case = {'class': tab.keys[ci], 'helper': 'retrievability', 'sub': [ci, k], 'seed': ctx.seed,
                    'layout': ''.join(t for t, _ in items)}
            try:
                d = Gen(tab, rng, max_depth=1).instance(cls)
                ext = []
                for t, v in items:
                    if t == 'r':
                        ext.append(v.as_etree_node(msgq.Retrievability, {}))
                    else:
                        el = etree.Element(etree.QName('urn:verif:ext', f'Other{v}'))
                        el.text = str(v)
                        ext.append(el)
                d.Extension = xs.ExtensionLocalValue(ext)
                doc = etree.fromstring(etree.tostring(serialize(d)))
                d = parse_node(cls, doc)
            except Exception:  # noqa: BLE001
                ctx.count('helper:setup-failed')
                continue
            ctx.count('helper:retrievability-case')
            ctx.case({'helper': tab.keys[ci], 'layout': case['layout'], 'k': k}, nontrivial=len(olds) >= 1)
            others = [sh.canonical_xml(e) for e in d.Extension if e.tag != msgq.Retrievability]

            def state(dd):
                return [canon(r) for r in dd.get_retrievability()], [sh.canonical_xml(e) for e in dd.Extension if e.tag != msgq.Retrievability]
            if state(d) != ([canon(v) for t, v in items if t == 'r'], others):
                ctx.fail(f'helper:get_retrievability:{tab.keys[ci]}', f'{tab.keys[ci]}: get_retrievability after reading differs from what was '
                         f'written (layout {case["layout"]})', case)
                continue
            new = retr()
            try:
                d.set_retrievability([new])
                after = state(d)
                back = parse_node(cls, etree.fromstring(etree.tostring(serialize(d))))
                after_rt = state(back)
            except Exception as ex:  # noqa: BLE001
                ctx.fail(f'helper:set_retrievability-raises:{tab.keys[ci]}', f'{type(ex).__name__}: {ex}'[:200], case)
                continue
            want = ([canon(new)], others)
            if after != want or after_rt != want:
                ctx.fail(f'helper:set_retrievability:{tab.keys[ci]}', f'{tab.keys[ci]}: extension layout {case["layout"]} (r = Retrievability, x = other '
                         f'element): after set_retrievability([new]) get_retrievability returns {len(after[0])} entries '
                         f'({len(after_rt[0])} after write + read), other extension elements kept: {after[1] == others}', case)


def typed_element_oracle(ctx, tab: Table, deviations=None):
    """where the XSD declares an element with complex type T, a document whose element carries content of T *without*
    xsi:type is schema valid and must be read completely: write an instance of the class that stands for T below the
    member, drop the xsi:type the library adds when its declared value class differs, read, compare.
    Runs for the members whose declared value class is not the class of T (`value-type` deviations)."""
    import xsdtable
    X = xsdtable.XsdTable()
    bind, direct = xsd_bind(tab, X)
    by_type = {}
    for ci in direct:
        by_type.setdefault(bind[ci], ci)
    for key, xml, code, detail in (deviations if deviations is not None else xsd_compare(tab, X)):
        if code != 'value-type':
            continue
        ci = tab.keys.index(key)
        k, (name, p), e = next((k, np, e) for k, (np, e) in enumerate(zip(tab.props[ci], tab.entries[ci]['props'])) if e.get('xml') == xml)
        elems = {el[0]: X.resolve(el[1]) for el in X.flatten(bind[ci])[0]}
        wi = by_type.get(elems.get(xml))
        if wi is None:
            continue
        for n in range(6):
            rng = ctx.subrng('typed', key, xml, n)
            try:
                w = Gen(tab, rng, max_depth=2, full=True).instance(tab.clist[wi])
                c = Gen(tab, rng, max_depth=1).instance(tab.clist[ci])
                setattr(c, name, [w] if e['kind'] == 'subList' else w)
                node = etree.fromstring(etree.tostring(serialize(c)))
            except Exception:  # noqa: BLE001
                ctx.count('typed-element:skipped')
                continue
            for ch in node.findall(xml):
                if XSI_TYPE in ch.attrib:
                    del ch.attrib[XSI_TYPE]       # the element's declared XSD type is already the type of the content
            case = {'class': key, 'member': name, 'typed_element': tab.keys[wi], 'n': n, 'seed': ctx.seed, 'xml': etree.tostring(node).decode()[:3000]}
            ctx.count('typed-element:checked')
            try:
                back = parse_node(tab.clist[ci], node)
                again = serialize(back)
            except Exception as ex:  # noqa: BLE001
                ctx.fail(f'xsd-typed-element:{key}.{name}', f'{key}: a schema-valid {xml.split("}")[-1]} element (content of its declared XSD type '
                         f'{elems[xml].split("}")[-1]}, no xsi:type) cannot be read / re-written: {type(ex).__name__}', case)
                break
            a, bb = xml_canon(node), xml_canon(again)
            for t in (a, bb):
                _strip_xsi(t)
            if a != bb:
                ctx.fail(f'xsd-typed-element:{key}.{name}', f'{key}.{name} is declared with value class {tab.keys[e["cls"]]}, the XSD element has type '
                         f'{elems[xml].split("}")[-1]}: a schema-valid element without xsi:type loses content when it is read and written '
                         f'again ({first_diff(a, bb)[0]})', case)
                break


def _strip_xsi(t):
    t[1] = [a for a in t[1] if a[0] != XSI_TYPE]
    for k in t[3]:
        _strip_xsi(k)


def run(ctx):
    tab = table()
    enc = Enc(tab)
    ctx.notes['classes'] = len(tab.classes)
    ctx.notes['classes_that_cannot_be_constructed'] = tab.broken
    lines = schema_lines(enc, tab)
    n_schema = len(lines)
    ops = []      # (line, expected answer, case)
    for ci, k, obj, g in gen_cases(ctx, tab):
        case = {'class': tab.keys[ci], 'sub': [ci, k], 'seed': ctx.seed}
        ok = oracle(ctx, tab, obj, case)
        ctx.case({'class': tab.keys[ci], 'value': canon(obj)}, nontrivial=g.stats['present'] >= 2 and g.stats['absent_optional'] >= 1,
                 sample={'class': tab.keys[ci], 'xml': etree.tostring(serialize(obj)).decode()[:400]} if (ok and ci % 60 == 0 and k == 0) else None)
        if tab.keys[ci] in NO_MODEL or g.extra_raw:
            continue
        # ---- correspondence: model writeCls / readCls against as_etree_node / from_node
        tag = clark(qname_for(type(obj)))
        try:
            node = serialize(obj)
        except Exception:  # noqa: BLE001
            node = None
        if node is None and getattr(type(obj), 'as_etree_node', None) is not sh.basetypes.XMLTypeBase.as_etree_node \
                and not isinstance(obj, containerbase.ContainerBase):
            ctx.count('corr:class-without-xml-body')      # Unsubscribe / UnsubscribeResponse: empty body by design
            continue
        try:
            vt = enc.val(obj)
        except KeyError:
            ctx.count('corr:value-with-class-outside-table')
            continue
        if node is None:
            ops.append((f'w {ci} {enc.nid(tag)} ' + ' '.join(vt), 'err', case))
            continue
        ops.append((f'w {ci} {enc.nid(tag)} ' + ' '.join(vt), 'ok ' + ' '.join(enc.xml(node)), case))
        ops.append((f't {ci} ' + ' '.join(vt), None, {**case, 'oracle_ok': ok}))
        if ok:
            foreign_oracle(ctx, tab, enc, obj, node, case, ('local', 'renamed', 'default')[k % 3])      # is the value in the theorems' domain (WT)?
        re_node = etree.fromstring(etree.tostring(node))
        try:
            back = parse_node(type(obj), re_node)
            expect = 'ok ' + ' '.join(enc.val(back)) + ' | ' + ' '.join(enc.pub(back))
        except Exception:  # noqa: BLE001
            expect = 'err'
        ops.append((f'r {ci} ' + ' '.join(enc.xml(re_node)), expect, case))
    # ---- absent members that have a class-level default, and malformed lexical forms (read side)
    extra_cases(ctx, tab, enc, ops)
    # ---- elements whose XSD type is more derived than the declared value class (no such member on a matching table)
    import xsdtable
    dev = xsd_compare(tab, xsdtable.XsdTable())
    typed_element_oracle(ctx, tab, dev)
    directed_documents(ctx, tab, dev)      # nothing to do while the table matches the XSD
    helper_clause(ctx, tab)
    lines += enc.codec_lines()
    n_pre = len(lines)
    lines += [o[0] for o in ops]
    ctx.notes['codec_pairs'] = len(enc.cx)
    ctx.notes['explanation'] = ('corr:t:wt / corr:t:nwt = generated values inside / outside the domain WT of the round-trip theorem '
                                '(outside: classes msg_types.Mds/Vmd/Channel and values containing them, empty tokens ...)')
    if ctx.driver_ok:
        out = ctx.driver('drv_c05', lines)
        bad = [i for i, ln in enumerate(out[:n_pre]) if ln != 'ok']
        if bad:
            ctx.disagree('driver rejected a schema / codec line', {'line': lines[bad[0]][:300], 'answer': out[bad[0]]})
        for (line, expect, case), got in zip(ops, out[n_pre:]):
            ctx.count('corr:' + line[0] + ':' + got.split(' ')[0])
            if line[0] == 't':
                if got == 'wt' and not case['oracle_ok']:
                    ctx.disagree('a value inside WT does not round-trip on the implementation', case, 'wt', 'oracle failed')
                elif got not in ('wt', 'nwt'):
                    ctx.disagree('driver rejected a WT query', case, got, None)
                continue
            if got != expect:
                what = 'writeCls(v) == as_etree_node(v)' if line[0] == 'w' else 'readCls(x) == from_node(x)'
                ctx.disagree(what, case, _diff_tokens(got, expect), _diff_tokens(expect, got))


_BAD_LEXICALS = [' 5 ', 'abc', '', '+1', '1.0', 'TRUE', 'true', '-3', '٣', 'P1D', '1e3', 'On', ' ']


def extra_cases(ctx, tab: Table, enc: Enc, ops):
    rng = ctx.subrng('extra')
    for ci, cls in enumerate(tab.clist):
        if tab.keys[ci] in NO_MODEL:
            continue
        pl, el = tab.props[ci], tab.entries[ci]['props']
        # (1) optional members with a class-level default, absent in the XML: the read value is a copy of the default
        dflt = [(k, n, p, e) for k, ((n, p), e) in enumerate(zip(pl, el)) if e.get('has_default') and e['optional']
                and (e['kind'] == 'sub' or e.get('style') == 'enumqname')]
        for k, name, p, e in dflt:
            g = Gen(tab, ctx.subrng('absent', ci, k), max_depth=1)
            try:
                obj = g.instance(cls)
                setattr(obj, name, None)
                node = serialize(obj)
            except Exception:  # noqa: BLE001
                ctx.count('absent-default:skipped')
                continue
            case = {'class': tab.keys[ci], 'absent_member': name, 'sub': [ci, k]}
            re_node = etree.fromstring(etree.tostring(node))
            try:
                back = parse_node(cls, re_node)
            except Exception as ex:  # noqa: BLE001
                ctx.fail(f'read-raises:{tab.keys[ci]}:{_exc_sig(ex)}', f'{tab.keys[ci]} without optional {name} cannot be read: {ex}', case)
                continue
            got = sh.actual(back, p)
            ctx.count('absent-default:checked')
            ctx.case({'absent-default': tab.keys[ci], 'member': name}, nontrivial=True)
            if got is p._default_py_value:
                ctx.fail(f'absent-default-shared:{tab.keys[ci]}.{name}', f'reading {tab.keys[ci]} without {name} hands out the class-level default '
                         f'object itself', case)
            elif canon(got) != canon(p._default_py_value):
                ctx.fail(f'absent-default:{tab.keys[ci]}.{name}', f'reading {tab.keys[ci]} without optional {name} gives {canon(got)[:100]} instead of the '
                         f'declared default {canon(p._default_py_value)[:100]}', case)
            try:
                ops.append((f'w {ci} {enc.nid(clark(qname_for(cls)))} ' + ' '.join(enc.val(obj)), 'ok ' + ' '.join(enc.xml(node)), case))
                ops.append((f'r {ci} ' + ' '.join(enc.xml(re_node)), 'ok ' + ' '.join(enc.val(back)) + ' | ' + ' '.join(enc.pub(back)), case))
            except KeyError:
                pass
        # (2) a lexical form the member's converter may reject: model and implementation must agree on accept / reject
        attrs = [(n, p, e) for (n, p), e in zip(pl, el) if e['kind'] == 'attr' and not e['volatile'] and e['conv'] != 'QName']
        if not attrs:
            continue
        for k in range(2):
            r2 = ctx.subrng('bad', ci, k)
            g = Gen(tab, r2, max_depth=1)
            try:
                obj = g.instance(cls)
                node = serialize(obj)
            except Exception:  # noqa: BLE001
                continue
            if node is None:
                continue
            name, p, e = r2.choice(attrs)
            lex = r2.choice(_BAD_LEXICALS)
            re_node = etree.fromstring(etree.tostring(node))
            re_node.set(p._attribute_name, lex)
            try:
                enc.cp[(e['conv'], lex)] = tok(enc.py_of(p, e, lex))
            except Exception:  # noqa: BLE001
                enc.cp[(e['conv'], lex)] = None
            case = {'class': tab.keys[ci], 'malformed': [name, lex]}
            try:
                back = parse_node(cls, re_node)
                expect = 'ok ' + ' '.join(enc.val(back)) + ' | ' + ' '.join(enc.pub(back))
                ctx.count('malformed:accepted')
            except Exception:  # noqa: BLE001
                expect = 'err'
                ctx.count('malformed:rejected')
            try:
                ops.append((f'r {ci} ' + ' '.join(enc.xml(re_node)), expect, case))
            except KeyError:
                pass


def _unh(t):
    if t.startswith('h'):
        try:
            return bytes.fromhex(t[1:]).decode('utf-8', 'replace')
        except ValueError:
            return t
    return t


def _diff_tokens(a, b):
    ta, tb = a.split(' '), b.split(' ')
    k = next((i for i, (x, y) in enumerate(zip(ta, tb)) if x != y), min(len(ta), len(tb)))
    return ' '.join(_unh(t) for t in ta[max(0, k - 6):k + 8])


def directed_documents(ctx, tab: Table, dev):
    """for every order / unknown-member deviation from the XSD: full-presence documents of every message that can carry a
    concrete class inheriting the deviating declaration; the validity and round-trip clauses of the oracle decide"""
    targets = [tab.clist[tab.keys.index(d[0])] for d in dev if d[2] in ('order', 'unknown-element', 'unknown-attr')]
    if not targets:
        return
    concrete = [c for c in tab.clist if any(issubclass(c, t) for t in targets) and getattr(c, 'NODETYPE', None) is not None]
    for ci, cls in enumerate(tab.clist):
        if not (tab.keys[ci].startswith('msg_types.') and isinstance(getattr(cls, 'NODETYPE', None), etree.QName)):
            continue
        for k, pref in enumerate(concrete[:12]):
            g = Gen(tab, ctx.subrng('directed', ci, k), max_depth=3, full=True, prefer=(pref,))
            try:
                obj = g.instance(cls)
            except GenError:
                continue
            ctx.count('directed-document')
            oracle(ctx, tab, obj, {'class': tab.keys[ci], 'directed': sh.class_key(pref), 'sub': [ci, k], 'seed': ctx.seed})


def search(ctx):
    """failing-input search: deviation-directed documents first (order / value-type deviations from the XSD), then the
    round-trip oracle over many more generated instances of every class"""
    tab = table()
    import xsdtable
    dev = xsd_compare(tab, xsdtable.XsdTable())
    typed_element_oracle(ctx, tab, dev)
    directed_documents(ctx, tab, dev)
    known = {k['signature'] for k in core.load_known() if k.get('property') == 'C05' and k.get('kind') == 'known'}
    if any(f['signature'] not in known for f in ctx.failures):
        return
    for ci, cls in enumerate(tab.clist):
        for k in range(200, 320):
            g = Gen(tab, ctx.subrng('gen', ci, k), max_depth=ctx.subrng('d', ci, k).choice([1, 2, 3]))
            try:
                obj = g.instance(cls)
            except GenError:
                continue
            oracle(ctx, tab, obj, {'class': tab.keys[ci], 'sub': [ci, k], 'seed': ctx.seed})
        if len(ctx.failures) > 20:
            return


def replay(ctx, obj):
    tab = table()
    case = obj['case']
    ctx.seed = case.get('seed', ctx.seed)
    if 'absent_member' in case or 'malformed' in case:
        ops = []
        extra_cases(ctx, tab, Enc(tab), ops)
    elif 'helper' in case:
        helper_clause(ctx, tab)
        ctx.failures = [f for f in ctx.failures if f['signature'] == obj.get('signature')]
    elif 'typed_element' in case:
        typed_element_oracle(ctx, tab)
    elif 'directed' in case:
        ci, k = case['sub']
        pref = sh.all_classes()[case['directed']]
        g = Gen(tab, ctx.subrng('directed', ci, k), max_depth=3, full=True, prefer=(pref,))
        oracle(ctx, tab, g.instance(tab.clist[ci]), case)
    else:
        ci, k = case['sub']
        ci = tab.keys.index(case['class']) if case.get('class') in tab.keys else ci
        g = Gen(tab, ctx.subrng('gen', ci, k), max_depth=ctx.subrng('d', ci, k).choice([1, 2, 3]))
        inst = g.instance(tab.clist[ci])
        oracle(ctx, tab, inst, case)
    for f in ctx.failures:
        print(f['signature'], '-', f['detail'][:300])
    return any(f['signature'] == obj.get('signature') for f in ctx.failures) or bool(ctx.failures and 'sub' in case and 'absent_member' not in case)
