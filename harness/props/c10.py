"""C10 — context association invariants hold after any sequence of set_location / SetContextState.

Model: lean/SdcModel/ContextAssoc.lean (transcription of SdcProvider.set_location, ProviderMdibMethods.set_location /
disassociate_all, ContextStateTransaction.disassociate_all / mk_context_state / write_entity / commit and of
GenericContextProvider._set_context_state).  Theorems: lean/SdcModel/Properties/C10.lean.

Tie: correspondence through a real provider (tests.mockstuff.SomeDevice + the example role providers, harness/loopback.py):
every history = generated start table + a list of operations; `set_location` is called on the provider,
SetContextState is sent by the real consumer's context service client over HTTP (executed by the SCO worker thread)
or handed to the same operation object in-process; `time.time` and `uuid.uuid4` of the modules involved are replaced
by a virtual clock / a counter.  After every operation the canonical dump of `mdib.context_states` is compared with the
dump of the Lean model driver, and the oracle (the property statement) is evaluated on the real table and on the
EpisodicContextReport bodies captured from the subscription managers.
"""
from __future__ import annotations

import json
import os
import time as real_time
import types
from unittest import mock

import core

READY = True
MANIFEST = dict(
    technique='Lean 4 theorems by induction over the operation list of a transcribed model of set_location and the '
              'SetContextState handler; correspondence of the model with a running provider (real consumer, virtual clock/uuid)',
    text='Theorems (Properties/C10.lean) show for every sequence of set_location / SetContextState operations from any '
         'well-formed table: at most one associated state per context descriptor, a state that stops being associated is Dis '
         'with UnbindingMdibVersion = the MdibVersion of that commit and BindingEndTime set, a state that becomes associated '
         'has BindingMdibVersion = that version and BindingStartTime set, state handles stay unique and distinct from '
         'descriptor handles, states are never removed, a rejected SetContextState changes nothing. The model is compared '
         'after every operation with the context_states table of a real provider driven through set_location and the '
         'SetContextState operation (loop-back consumer or in-process), and the property is evaluated directly on the '
         'table and on the EpisodicContextReports. Atomicity of version read + commit (the model step) is tied by a generated '
         'lock trace (Generated/ContextLocks.lean: every mdib_version read of the operation thread holds the transaction lock) '
         'and by a forced schedule (open metric transaction while the operation starts).',
    note='Trusted: uuid4 freshness (counter), time as an opaque clock, descriptors static during a history, '
         'ContextStateTransaction as exercised through these two entry points only.',
    ref='5 C10')
DRIVERS = ['drv_c10']
RULE = ('one case = start table + operation list (set_location / SetContextState with 0-4 proposals, some started while another '
        'transaction is open); distinct by the canonical '
        'case; non-trivial = at least one committed association change and at least one rejected operation or multi-proposal call')
TRUSTED = ['uuid4 freshness: modelled as a counter above all handles of the MDIB',
           'time.time modelled as a clock that the harness advances once per operation',
           'report capture of harness/loopback.py (sent_to_subscribers of the subscription managers)']
ASSUMPTIONS = ['time/uuid of contextprovider, providermdibxtra, transactions patched in-process',
               'descriptors do not change during a history; start tables are inserted directly into mdib.context_states']

BASE = 1_700_000_000
CORPUS = os.path.join(core.VERIF, 'corpus', 'C10')

# ---- interning of handles: model ids <-> real handle strings
DESCR = {'PC.mds0': 1, 'LC.mds0': 2, 'EC.mds0': 3, 'LC2.mds0': 4}
OTHER = {'CL.mds0': 10, 'SC.mds0': 11}
UNKNOWN = [20, 21, 22]            # neither descriptor nor state
ASSOC = {'No': 'no', 'Pre': 'pre', 'Assoc': 'assoc', 'Dis': 'dis'}
ASSOC_R = {v: k for k, v in ASSOC.items()}
FRESH0 = 1000


class _FakeTime:
    def __init__(self):
        self.tick = 0

    def time(self):
        return float(BASE + self.tick)

    def __getattr__(self, name):
        return getattr(real_time, name)


class _FakeUuid:
    def __init__(self):
        self.n = 0

    def uuid4(self):
        self.n += 1
        return types.SimpleNamespace(hex=f'vh{self.n:07d}')


class Session:
    """one provider/consumer pair, reused for many histories"""

    def __init__(self):
        import loopback as lb
        lb.quiet()
        from sdc11073.mdib import providermdibxtra, transactions
        from sdc11073.xml_types import pm_qnames as pm
        from tutorial.productandroles import contextprovider
        self.lb = lb
        self.pm = pm
        self.clock = _FakeTime()
        self.uuid = _FakeUuid()
        self._patches = [mock.patch.object(m, 'time', self.clock) for m in (contextprovider, providermdibxtra, transactions)]
        self._patches += [mock.patch.object(m, 'uuid', self.uuid) for m in (contextprovider, providermdibxtra, transactions)]
        for p in self._patches:
            p.start()
        self.provider = lb.Provider()
        self.consumer = lb.Consumer(self.provider, init_mdib=False)
        self.mdib = self.provider.mdib
        self.dm = self.mdib.data_model
        self.pmt = self.dm.pm_types
        self.msg_types = self.dm.msg_types
        self.ctx_client = self.consumer.sdc.client('Context')
        ops = self.mdib.descriptions.NODETYPE.get(pm.SetContextStateOperationDescriptor)
        self.op_handle = ops[0].Handle
        self.metric_handle = self.mdib.descriptions.NODETYPE.get(pm.NumericMetricDescriptor)[0].Handle
        self.operation = self.provider.device.get_operation_by_handle(self.op_handle)
        # an ensemble context descriptor (no role provider needed: the handler does not look at the operation target)
        sc = self.mdib.descriptions.handle.get_one('SC.mds0')
        cls = self.dm.get_descriptor_container_class(pm.EnsembleContextDescriptor)
        d = cls(handle='EC.mds0', parent_handle='SC.mds0')
        d.SafetyClassification = self.pmt.SafetyClassification.INF
        d.set_source_mds(sc.source_mds)
        self.mdib.descriptions.add_object(d)
        cls = self.dm.get_descriptor_container_class(pm.LocationContextDescriptor)
        self.lc2 = cls(handle='LC2.mds0', parent_handle='SC.mds0')
        self.lc2.SafetyClassification = self.pmt.SafetyClassification.INF
        self.lc2.set_source_mds(sc.source_mds)
        # the AlertSystemStateMaintainer thread commits alert transactions every few seconds: stop it, so that every
        # MdibVersion step seen here belongs to the operation under test
        for product in self.provider.device.product_lookup.values():
            for rp in getattr(product, '_ordered_role_providers', []):
                ev = getattr(rp, '_stop_worker', None)
                if ev is not None:
                    ev.set()
        self.hist_no = 0
        self.clock_n = 1000    # model clock; start tables and proposals use ticks below 1000
        self.provider.take_wire()

    def close(self):
        try:
            self.consumer.stop()
            self.provider.stop()
        finally:
            for p in self._patches:
                p.stop()

    # ---- descriptors
    def descr_dv(self, name):
        return self.mdib.descriptions.handle.get_one(name).DescriptorVersion

    def set_lc2(self, present):
        has = self.mdib.descriptions.handle.get_one('LC2.mds0', allow_none=True) is not None
        if present and not has:
            self.mdib.descriptions.add_object(self.lc2)
        elif not present and has:
            self.mdib.descriptions.remove_object(self.lc2)

    def state_cls(self, dname):
        d = self.mdib.descriptions.handle.get_one(dname, allow_none=True)
        if d is None or not d.is_context_descriptor:
            d = self.mdib.descriptions.handle.get_one('PC.mds0')
        return self.dm.get_state_container_class(d.STATE_QNAME), d


# ----------------------------------------------------------------------------------------------------------------
# translator: where does the thread of a context operation read mdib.mdib_version?  (-> Generated/ContextLocks.lean)

class _OwnedLock:
    """stand-in for ProviderMdib._tr_lock that knows its owner"""

    def __init__(self, inner):
        self.inner, self.owner = inner, None

    def acquire(self, *a, **k):
        import threading
        ok = self.inner.acquire(*a, **k)
        if ok:
            self.owner = threading.get_ident()
        return ok

    def release(self):
        self.owner = None
        self.inner.release()

    def locked(self):
        return self.inner.locked()

    def __enter__(self):
        self.acquire()
        return self

    def __exit__(self, *exc):
        self.release()


def trace_version_reads(sess, scenarios):
    """Run each scenario (name, start table, op) with `mdib.mdib_version` replaced by a logging property and `_tr_lock` by
    an owner-aware lock; returns [(name, reads holding the transaction lock, reads not holding it)] for the calling thread."""
    import threading
    mdib = sess.mdib
    cls = type(mdib)
    log = []
    active = threading.local()

    elog = []

    def hook():
        if getattr(active, 'on', False):
            log.append(mdib._tr_lock.owner == threading.get_ident())  # noqa: SLF001

    by_handle = mdib.entities.by_handle

    def traced_by_handle(*a, **k):       # the handler's read of the context states (its working copies)
        if getattr(active, 'on', False):
            elog.append(mdib._tr_lock.owner == threading.get_ident())  # noqa: SLF001
        return by_handle(*a, **k)

    class TracedMdib(cls):
        @property
        def mdib_version(self):
            hook()
            return self.__dict__['_verif_mdib_version']

        @mdib_version.setter
        def mdib_version(self, value):
            self.__dict__['_verif_mdib_version'] = value

    with mdib.mdib_lock:
        inner = mdib._tr_lock  # noqa: SLF001
        mdib._tr_lock = _OwnedLock(inner)  # noqa: SLF001
        mdib.__dict__['_verif_mdib_version'] = mdib.__dict__.pop('mdib_version')
        mdib.__class__ = TracedMdib
        mdib.entities.by_handle = traced_by_handle
    res = []
    try:
        for name, start, op in scenarios:
            hist = History(sess, {'wf': True, 'lc2': False, 'loc0': None, 'start': start, 'ops': []})
            hist.run()
            del log[:]
            del elog[:]
            sess.clock.tick = sess.clock_n
            sess.clock_n += 1
            active.on = True
            try:
                r = hist.do_set_location(op[1], op[2]) if op[0] == 'loc' else hist.do_scs('direct', op[2])
            finally:
                active.on = False
            res.append((name + ('' if r == 'ok' else '-rejected'), sum(1 for x in log if x), sum(1 for x in log if not x),
                        sum(1 for x in elog if x), sum(1 for x in elog if not x)))
    finally:
        with mdib.mdib_lock:
            mdib.__class__ = cls
            del mdib.entities.by_handle
            mdib.__dict__['mdib_version'] = mdib.__dict__.pop('_verif_mdib_version')
            mdib._tr_lock = inner  # noqa: SLF001
        sess.provider.take_wire()
    return res


def translate(ctx):
    global _SESSION
    _SESSION = Session()
    s100 = [100, 1, 2, 0, 5, 'assoc', 1, None, 10, None]
    s101 = [101, 1, 2, 0, 5, 'pre', None, None, None, None]
    s102 = [102, 2, 2, 0, 5, 'assoc', 1, None, 10, None]
    prop = lambda h, dh, a: [h, dh, 2, 0, 9, a, None, None, None, None]  # noqa: E731
    scen = [('scs-new-associated', [s100, s101], ['scs', 'direct', [prop(1, 1, 'assoc')]]),
            ('scs-update-disassociate', [s100, s101], ['scs', 'direct', [prop(100, 1, 'dis')]]),
            ('scs-update-associate', [s100, s101], ['scs', 'direct', [prop(101, 1, 'assoc')]]),
            ('scs-two-descriptors', [s100, s102], ['scs', 'direct', [prop(1, 1, 'assoc'), prop(2, 2, 'assoc')]]),
            ('scs-illegal', [s100], ['scs', 'direct', [prop(100, 1, 'no')]]),
            ('set-location', [s102], ['loc', 3, None])]
    rows = trace_version_reads(_SESSION, scen)
    body = ',\n   '.join(f'("{n}", {a}, {b})' for n, a, b, _, _ in rows)
    ebody = ',\n   '.join(f'("{n}", {c}, {d})' for n, _, _, c, d in rows)
    src = ('/-! generated by harness/props/c10.py (translate): reads of `mdib.mdib_version` by the thread that executes a context\n'
           'operation, between the call of the operation and its return: (scenario, reads while the thread holds\n'
           '`ProviderMdib._tr_lock`, reads while it does not) -/\n'
           'namespace Sdc.Generated.ContextLocks\n'
           f'def versionReads : List (String × Nat × Nat) :=\n  [{body}]\n'
           '/-- calls of `mdib.entities.by_handle` (the working copies of the context states) by that thread, same format -/\n'
           f'def entityReads : List (String × Nat × Nat) :=\n  [{ebody}]\n'
           'end Sdc.Generated.ContextLocks\n')
    core.write_if_changed(core.GENERATED + '/ContextLocks.lean', src)
    ctx.notes['version_reads'] = rows


_SESSION = None


class History:
    """runs one case on the implementation; collects driver lines + the expected answers + oracle failures"""

    def __init__(self, sess: Session, case: dict):
        self.s = sess
        self.case = case
        self.lines = []
        self.expected = []     # expected driver answer per line (None = do not compare)
        self.failures = []     # (signature, detail, op index)
        self.capture_errors = 0
        self.race_stats = []
        self.line_op = []      # op index of every driver line after the set-up lines
        self.stats = []
        self.to_real = {}      # model id -> real handle
        self.to_model = {}
        self.fresh = FRESH0
        sess.hist_no += 1
        self.tag = f's{sess.hist_no}_'
        for name, i in {**DESCR, **OTHER}.items():
            self.to_real[i] = name
            self.to_model[name] = i
        for i in UNKNOWN:
            self.to_real[i] = f'nope{i}'
            self.to_model[f'nope{i}'] = i

    # ---- mapping
    def real(self, i):
        if i not in self.to_real:
            self.to_real[i] = f'{self.tag}h{i}'
            self.to_model[self.to_real[i]] = i
        return self.to_real[i]

    def t_real(self, t):
        return None if t is None else float(BASE + t)

    @staticmethod
    def t_model(t):
        return None if t is None else int(round(t - BASE))

    def mk_state(self, f, proposal):
        """f = [h, dh, dv, sv, body, assoc, bv, uv, bt, ut] in model space -> container"""
        h, dh, dv, sv, body, assoc, bv, uv, bt, ut = f
        dname = self.real(dh)
        cls, d = self.s.state_cls(dname)
        st = cls(d)
        st.DescriptorHandle = dname
        st.Handle = self.real(h)
        st.DescriptorVersion = dv
        st.StateVersion = sv
        st.ContextAssociation = self.s.pmt.ContextAssociation(ASSOC_R[assoc])
        st.BindingMdibVersion, st.UnbindingMdibVersion = bv, uv
        st.BindingStartTime, st.BindingEndTime = self.t_real(bt), self.t_real(ut)
        set_body(st, body)
        return st

    def table(self):
        """frozen content of the real table: handle -> list of records (copies: the oracle compares the table before and
        after an operation, live container objects could be changed in place by the code under test)"""
        res = {}
        with self.s.mdib.mdib_lock:
            for st in list(self.s.mdib.context_states.objects):
                rec = types.SimpleNamespace(
                    Handle=st.Handle, DescriptorHandle=st.DescriptorHandle, DescriptorVersion=st.DescriptorVersion,
                    StateVersion=st.StateVersion, ContextAssociation=st.ContextAssociation,
                    BindingMdibVersion=st.BindingMdibVersion, UnbindingMdibVersion=st.UnbindingMdibVersion,
                    BindingStartTime=st.BindingStartTime, BindingEndTime=st.BindingEndTime, body=get_body(st))
                res.setdefault(st.Handle, []).append(rec)
        return res

    def intern_new(self, tab):
        new = sorted(h for h in tab if h not in self.to_model)
        for h in new:     # 'vh0000123' sort = creation order
            self.to_model[h] = self.fresh
            self.to_real[self.fresh] = h
            self.fresh += 1

    def fields(self, st):
        return [self.to_model[st.Handle], self.to_model.get(st.DescriptorHandle, -1), st.DescriptorVersion, st.StateVersion,
                st.body, ASSOC[st.ContextAssociation.value], st.BindingMdibVersion, st.UnbindingMdibVersion,
                self.t_model(st.BindingStartTime), self.t_model(st.BindingEndTime)]

    def dump(self, tab):
        rows = sorted(self.fields(sts[0]) for sts in tab.values())
        return ' '.join(fmt_state(r) for r in rows)

    # ---- the run
    def run(self, next_op=None, n_ops=0):
        """next_op: generator callback (ops are generated against the evolving table and appended to the case)"""
        s, case = self.s, self.case
        mdib = s.mdib
        for st in list(mdib.context_states.objects):
            mdib.context_states.remove_object(st)
        s.set_lc2(bool(case.get('lc2')))
        loc0 = case.get('loc0')
        s.provider.device._location = None if loc0 is None else mk_location(loc0)  # noqa: SLF001
        ctx = [f'{DESCR[n]}:{s.descr_dv(n)}' for n in DESCR if n != 'LC2.mds0' or case.get('lc2')]
        locs = ['2'] + (['4'] if case.get('lc2') else [])
        self.lines.append('env ' + ','.join(ctx) + ' ' + ','.join(str(v) for v in OTHER.values()) + ' ' + ','.join(locs))
        self.expected.append('ok')
        self.lines.append(f'reset {mdib.mdib_version} {s.clock_n} {FRESH0} {"-" if loc0 is None else loc0}')
        self.expected.append('ok')
        for f in case['start']:
            mdib.context_states.add_object(self.mk_state(f, False))
            self.lines.append('st ' + fmt_state(f))
            self.expected.append('ok')
        s.provider.take_wire()
        self.wf = bool(case.get('wf', True))
        for idx in range(n_ops if next_op else len(case['ops'])):
            if next_op:
                case['ops'].append(next_op())
            op = case['ops'][idx]
            if len(op) > 3 and op[3] == 'race':
                self.run_race(idx, op, op[4] if len(op) > 4 else None)
            else:
                self.run_plain(idx, op)
        return self

    # ---- one operation
    def _tick(self):
        s = self.s
        s.clock.tick = s.clock_n
        s.clock_n += 1

    def _prep(self, op, direct=False):
        if op[0] == 'loc':
            loc, dh = op[1], op[2]
            return f'loc {loc} {"-" if dh is None else dh}', (lambda: self.do_set_location(loc, dh))
        mode, props = op[1], op[2]
        return ('scs ' + ' '.join(fmt_state(p) for p in props)), (lambda: self.do_scs('direct' if direct else mode, props))

    def _finish(self, idx, op, line, res, before, v0):
        """bookkeeping after an operation completed: answer line for the model, oracle on the step before -> now"""
        s, mdib = self.s, self.s.mdib
        after = self.table()
        self.intern_new(after)
        v1 = mdib.mdib_version
        wire = s.provider.take_wire()
        self.lines.append(line)
        self.line_op.append(idx)
        self.expected.append(f'{res} ver={v1} fresh={self.fresh} | {self.dump(after)}')
        if s.provider.capture_errors:     # schema validity of reports is C04's business: counted, not judged here
            self.capture_errors += len(s.provider.capture_errors)
            del s.provider.capture_errors[:]
        self.stats.append((op[0], res, v1 - v0))
        if self.wf:
            self.oracle(idx, op, res, before, after, v0, v1, wire, float(BASE + s.clock.tick))
        elif res != 'ok':
            self.noop_clause(idx, 'set_location' if op[0] == 'loc' else 'SetContextState', res, before, after, v0, v1)
        elif op[0] == 'loc' and res == 'ok' and v1 != v0:
            # even from a corrupt table set_location leaves exactly one associated state
            d = self.real(2 if op[2] is None else op[2])
            n = sum(1 for sts in after.values() for st in sts if st.DescriptorHandle == d and is_assoc(st))
            if n != 1:
                self.failures.append(('set_location:associated-count', f'{n} associated states of {d} after set_location', idx))

    def run_plain(self, idx, op):
        before, v0 = self.table(), self.s.mdib.mdib_version
        self._tick()
        line, call = self._prep(op)
        self._finish(idx, op, line, call(), before, v0)

    def run_other(self, idx, other):
        """the second writer of a schedule scenario: a metric transaction (None) or a complete context operation"""
        if other is None:
            with self.s.mdib.metric_state_transaction() as mgr:
                mgr.get_state(self.s.metric_handle)
            self.lines.append('bump')
            self.line_op.append(idx)
            self.expected.append('ok')
            self.s.provider.take_wire()
        else:
            self.run_plain(idx, other)

    def run_race(self, idx, op, other):
        """Forced two-writer schedule: the operation `op` runs in its own thread and is stopped at the moment it asks the
        MDIB for its context state transaction (hook on `mdib.context_state_transaction`, i.e. after everything the operation
        reads before it owns the transaction lock).  While it is parked, the other writer (`other`: None = a metric
        transaction, else a set_location / SetContextState) runs to completion and commits; then the operation continues.
        The observable behaviour has to be that of `other` followed by `op` (the model gets the two lines in that order); an
        operation that returns without asking for a transaction (pre-check rejection, unchanged location) simply ran first."""
        import threading
        s, mdib = self.s, self.s.mdib
        at_lock, go, progress = threading.Event(), threading.Event(), threading.Event()
        result = {}
        before, v0 = self.table(), mdib.mdib_version
        s.clock.tick = s.clock_n          # the tick the operation sees if it completes before the other writer
        line, call = self._prep(op, direct=True)

        def operation():
            try:
                result['res'] = call()
            finally:
                progress.set()
        tb = threading.Thread(target=operation, name='verif-operation')
        orig = mdib.context_state_transaction

        def hooked(*a, **k):
            if threading.current_thread() is tb and not at_lock.is_set():
                at_lock.set()
                progress.set()
                go.wait(60)
            return orig(*a, **k)
        mdib.context_state_transaction = hooked
        try:
            tb.start()
            progress.wait(60)
            if at_lock.is_set():
                self.race_stats.append('other-writer-first:' + ('metric' if other is None else other[0]))
                self.run_other(idx, other)
                before, v0 = self.table(), mdib.mdib_version
                self._tick()
                go.set()
                tb.join(60)
            else:
                self.race_stats.append('operation-did-not-open-a-transaction')
                s.clock_n += 1
                tb.join(60)
        finally:
            go.set()
            del mdib.context_state_transaction
        if 'res' not in result:
            raise RuntimeError('schedule scenario did not complete')
        self._finish(idx, op, line, result['res'], before, v0)
        if not at_lock.is_set():
            self.run_other(idx, other)

    def do_set_location(self, loc, dh):
        try:
            validators = None if loc % 2 else [self.s.pmt.InstanceIdentifier('verif', extension_string='c10')]
            self.s.provider.device.set_location(mk_location(loc), validators, publish_now=False,
                                                location_context_descriptor_handle=None if dh is None else self.real(dh))
        except Exception as ex:  # noqa: BLE001
            return 'err ' + type(ex).__name__
        return 'ok'

    def do_scs(self, mode, props):
        s = self.s
        proposals = [self.mk_state(p, True) for p in props]
        if mode == 'wire':
            fut = s.ctx_client.set_context_state(s.op_handle, proposals)
            result = fut.result(timeout=20)
            state = result.InvocationInfo.InvocationState
            if state == s.msg_types.InvocationState.FINISHED:
                return 'ok'
            txt = ' '.join(m.text or '' for m in result.InvocationInfo.InvocationErrorMessage)
            return 'err ' + (txt.split('(')[0] if '(' in txt else 'Unknown')
        req = s.msg_types.SetContextState()
        req.OperationHandleRef = s.op_handle
        req.ProposedContextState = proposals
        try:
            s.operation.execute_operation(None, req)
        except Exception as ex:  # noqa: BLE001
            return 'err ' + type(ex).__name__
        return 'ok'

    def noop_clause(self, idx, kind, res, before, after, v0, v1):
        """a rejected SetContextState / failed set_location: table (all fields) and MdibVersion as before the operation"""
        rb = {r[0]: r for r in (self.fields(sts[0]) for sts in before.values())}
        ra = {r[0]: r for r in (self.fields(sts[0]) for sts in after.values())}
        if v1 != v0 or rb != ra:
            diff = [f'{self.to_real[h]}: {fmt_state(rb[h]) if h in rb else "absent"} -> {fmt_state(ra[h]) if h in ra else "absent"}'
                    for h in sorted(set(rb) | set(ra)) if rb.get(h) != ra.get(h)]
            self.failures.append((f'{kind}:rejected-not-noop',
                                  f'{res}, no commit, but MdibVersion {v0} -> {v1} and the table changed: ' + '; '.join(diff[:4]), idx))

    # ---- the property, evaluated on the implementation
    def oracle(self, idx, op, res, before, after, v0, v1, wire, now):
        kind = 'set_location' if op[0] == 'loc' else 'SetContextState'
        fail = lambda sig, detail: self.failures.append((f'{kind}:{sig}', detail, idx))  # noqa: E731
        descr_handles = {d.Handle for d in self.s.mdib.descriptions.objects}
        # handles unique in the whole MDIB
        for h, sts in after.items():
            if len(sts) > 1:
                fail('duplicate-state-handle', f'{len(sts)} context states with handle {h}')
            if h in descr_handles:
                fail('state-handle-is-descriptor-handle', f'context state handle {h} is also a descriptor handle')
        flat = {h: sts[0] for h, sts in after.items()}
        old = {h: sts[0] for h, sts in before.items()}
        # at most one associated state per descriptor
        per = {}
        for st in flat.values():
            if is_assoc(st):
                per.setdefault(st.DescriptorHandle, []).append(st.Handle)
        for d, hs in per.items():
            if len(hs) > 1:
                fail('two-associated', f'{len(hs)} associated states for descriptor {d}: {sorted(hs)}')
        if v1 not in (v0, v0 + 1):
            fail('version-step', f'MdibVersion {v0} -> {v1}')
        # rejected operation: nothing changed
        if res != 'ok':
            self.noop_clause(idx, kind, res, before, after, v0, v1)
        # a state that stopped being associated
        for h, o in old.items():
            if not is_assoc(o):
                continue
            n = flat.get(h)
            if n is None:
                fail('associated-state-removed', f'state {h} was associated and is gone')
            elif not is_assoc(n):
                if n.ContextAssociation.value != 'Dis' or n.UnbindingMdibVersion != v1 or n.BindingEndTime is None or v1 != v0 + 1:
                    fail('unbind-not-marked',
                         f'state {h} stopped being associated at MdibVersion {v1} (was {v0}): ContextAssociation='
                         f'{n.ContextAssociation.value} UnbindingMdibVersion={n.UnbindingMdibVersion} BindingEndTime={n.BindingEndTime}')
                elif n.BindingEndTime != now:
                    fail('unbind-stale-end-time',
                         f'state {h} stopped being associated in the commit of MdibVersion {v1} at (virtual) time {now}, '
                         f'but BindingEndTime={n.BindingEndTime} is not the time of that commit')
        # a state that became associated
        for h, n in flat.items():
            if is_assoc(n) and (h not in old or not is_assoc(old[h])):
                if n.BindingMdibVersion != v1 or n.BindingStartTime is None or v1 != v0 + 1:
                    fail('bind-not-marked',
                         f'state {h} became associated at MdibVersion {v1} (was {v0}): BindingMdibVersion={n.BindingMdibVersion} '
                         f'BindingStartTime={n.BindingStartTime}')
                elif n.BindingStartTime != now:
                    fail('bind-stale-start-time',
                         f'state {h} became associated in the commit of MdibVersion {v1} at (virtual) time {now}, '
                         f'but BindingStartTime={n.BindingStartTime} is not the time of that commit')
        # the reports: every association change is published in an EpisodicContextReport of exactly that version
        changed = {h for h, n in flat.items() if (h not in old) or old[h].ContextAssociation != n.ContextAssociation}
        reported = {}
        for w in wire:
            if not w.action.endswith('EpisodicContextReport'):
                continue
            for st in parse_context_report(self.s, w):
                reported[st.Handle] = (w.mdib_version, st)
        for h in changed:
            if h not in reported:
                fail('change-not-reported', f'association change of state {h} is in no EpisodicContextReport')
                continue
            ver, st = reported[h]
            n = flat[h]
            if ver != v1:
                fail('report-version', f'report with MdibVersion {ver} for the change committed as {v1}')
            if (st.ContextAssociation, st.BindingMdibVersion, st.UnbindingMdibVersion) != \
                    (n.ContextAssociation, n.BindingMdibVersion, n.UnbindingMdibVersion) \
                    or (st.BindingStartTime is None) != (n.BindingStartTime is None) \
                    or (st.BindingEndTime is None) != (n.BindingEndTime is None):
                fail('report-content', f'reported state {h} differs from the table in association/binding fields')
        if res != 'ok' and any(w.action.endswith('EpisodicContextReport') for w in wire):
            fail('rejected-but-reported', 'a rejected operation produced an EpisodicContextReport')


def parse_context_report(sess, w):
    md = sess.consumer.parse(w)
    rep = sess.msg_types.EpisodicContextReport.from_node(md.p_msg.msg_node)
    return [st for part in rep.ReportPart for st in part.ContextState]


def is_assoc(st):
    return st.ContextAssociation.value == 'Assoc'


def mk_location(loc):
    from sdc11073.location import SdcLocation
    return SdcLocation(fac='fac', poc=f'b{loc}', bed='bed')


def set_body(st, body):
    from sdc11073.xml_types import pm_types
    name = st.NODETYPE.localname
    if name == 'LocationContextState':
        st.LocationDetail.PoC = f'b{body}'
    elif name == 'PatientContextState':
        st.CoreData.Givenname = f'b{body}'
    else:
        st.Category = pm_types.CodedValue(f'b{body}')


def get_body(st):
    name = st.NODETYPE.localname
    try:
        if name == 'LocationContextState':
            v = st.LocationDetail.PoC
        elif name == 'PatientContextState':
            v = st.CoreData.Givenname
        else:
            v = st.Category.Code
        return int(v[1:])
    except Exception:  # noqa: BLE001
        return -1


def fmt_state(f):
    return ','.join('-' if x is None else str(x) for x in f)


# ----------------------------------------------------------------------------------------------------------------
# generators

def gen_start(rng, wf, lc2):
    """start table in model space"""
    states = []
    hid = 100
    dlist = [1, 2, 3] + ([4] if lc2 else [])
    for d in dlist:
        n = rng.choice([0, 0, 1, 1, 2, 3])
        has_assoc = False
        for _ in range(n):
            a = rng.choice(['no', 'pre', 'assoc', 'dis', 'dis'])
            if a == 'assoc' and has_assoc and wf:
                a = 'dis'
            has_assoc |= a == 'assoc'
            bv = rng.choice([None, rng.randint(0, 9)])
            bt = rng.choice([None, rng.randint(1, 50)])
            if a == 'assoc':
                bv, bt = rng.choice([None] + [rng.randint(0, 9)] * 3), rng.choice([None] + [rng.randint(1, 50)] * 3)
                uv = None
                ut = rng.choice([None, None, rng.randint(51, 99)])      # an end time without unbinding version is well-formed
                if not wf and rng.random() < 0.3:
                    uv = rng.randint(0, 9)
                    ut = rng.choice([None, 60])
            elif a == 'dis':
                uv = rng.choice([rng.randint(0, 9)] * 4 + [None])
                ut = rng.choice([None, rng.randint(51, 99)]) if uv is None else rng.choice([None] + [rng.randint(51, 99)] * 4)
            else:
                uv = rng.choice([None] * 4 + [rng.randint(0, 9)])
                ut = rng.choice([None, None, rng.randint(51, 99)]) if uv is None else rng.choice([None, rng.randint(51, 99)])
            states.append([hid, d, rng.choice([0, 2, 2, 5]), rng.randint(0, 4), rng.randint(1, 9), a, bv, uv, bt, ut])
            hid += 1
    return states


class Gen:
    """generates the operations of one history against the evolving real table"""

    def __init__(self, rng, hist: History, lc2, wire_ratio):
        self.rng, self.h, self.lc2, self.wire_ratio = rng, hist, lc2, wire_ratio

    def table_rows(self):
        tab = self.h.table()
        self.h.intern_new(tab)
        return [self.h.fields(sts[0]) for sts in tab.values()]

    def junk(self):
        r = self.rng
        if r.random() < 0.6:
            return [None, None, None, None]
        return [r.choice([None, r.randint(0, 99)]), r.choice([None, r.randint(0, 99)]),
                r.choice([None, r.randint(100, 199)]), r.choice([None, r.randint(200, 299)])]

    def proposal(self, kind, rows, d=None):
        r = self.rng
        ctx = [1, 2, 3] + ([4] if self.lc2 else [])
        d = d or r.choice(ctx)
        mine = [x for x in rows if x[1] == d]
        dv = r.choice([2, 2, 2, 0, 7])
        sv = r.choice([0, 0, 0, 3, 9])
        body = r.randint(10, 99)
        if kind == 'new':
            return [d, d, dv, sv, body, r.choice(['assoc', 'assoc', 'no', 'pre', 'dis']), *self.junk()]
        if kind == 'new-assoc':
            return [d, d, dv, sv, body, 'assoc', *self.junk()]
        if kind in ('update', 'associate', 'disassociate', 'illegal') and not mine:
            mine = rows
            if not mine:
                return [d, d, dv, sv, body, 'assoc', *self.junk()]
        if kind == 'update':
            x = r.choice(mine)
            if x[5] == 'assoc':
                new = r.choice(['assoc', 'assoc', 'dis'])
            elif x[7] is not None:       # binding has ended
                new = r.choice([x[5], 'dis', 'no'])
            else:
                new = r.choice([x[5], x[5], 'assoc', 'dis', 'no', 'pre'])
            return [x[0], x[1], dv, sv, body, new, *self.junk()]
        if kind == 'associate':
            cand = [x for x in mine if x[5] != 'assoc' and x[7] is None] or [x for x in mine if x[5] != 'assoc'] or mine
            x = r.choice(cand)
            return [x[0], x[1], dv, sv, body, 'assoc', *self.junk()]
        if kind == 'disassociate':
            cand = [x for x in mine if x[5] == 'assoc'] or mine
            x = r.choice(cand)
            return [x[0], x[1], dv, sv, body, 'dis', *self.junk()]
        if kind == 'illegal':     # associated -> No/Pre, re-association of an ended binding
            cand = [x for x in mine if x[5] == 'assoc']
            if cand and r.random() < 0.6:
                x = r.choice(cand)
                return [x[0], x[1], dv, sv, body, r.choice(['no', 'pre']), *self.junk()]
            cand = [x for x in mine if x[5] != 'assoc' and x[7] is not None] or mine
            x = r.choice(cand)
            return [x[0], x[1], dv, sv, body, 'assoc', *self.junk()]
        if kind == 'bad-handle':
            return [r.choice(UNKNOWN), d, dv, sv, body, r.choice(['assoc', 'dis']), *self.junk()]
        if kind == 'foreign-handle':   # handle exists under a different descriptor
            cand = [x for x in rows if x[1] != d]
            if not cand:
                return [r.choice(UNKNOWN), d, dv, sv, body, 'assoc', *self.junk()]
            x = r.choice(cand)
            return [x[0], d, dv, sv, body, r.choice(['assoc', 'dis', x[5]]), *self.junk()]
        if kind == 'bad-descriptor':
            bad = r.choice(UNKNOWN + list(OTHER.values()))
            h = bad if r.random() < 0.5 else (r.choice(rows)[0] if rows else bad)
            return [h, bad, dv, sv, body, r.choice(['assoc', 'no']), *self.junk()]
        raise ValueError(kind)

    def scs(self):
        r = self.rng
        rows = self.table_rows()
        mode = 'wire' if r.random() < self.wire_ratio else 'direct'
        shape = r.choices(['single', 'multi-descr', 'same-descr', 'two-assoc', 'dup-handle', 'invalid', 'empty', 'change+invalid'],
                          [36, 20, 18, 4, 4, 7, 1 if mode == 'direct' else 0, 9])[0]
        valid_kinds = ['new', 'new-assoc', 'update', 'associate', 'disassociate']
        ctx = [1, 2, 3] + ([4] if self.lc2 else [])
        if shape == 'single':
            props = [self.proposal(r.choice(valid_kinds + ['illegal']), rows)]
        elif shape == 'multi-descr':
            ds = r.sample(ctx, r.randint(2, len(ctx)))
            props = [self.proposal(r.choice(valid_kinds), rows, d) for d in ds]
        elif shape == 'same-descr':
            d = r.choice(ctx)
            props = [self.proposal(r.choice(valid_kinds), rows, d) for _ in range(r.randint(2, 4))]
            if r.random() < 0.7:     # keep it acceptable: at most one associated proposal, no handle twice
                seen, first = set(), True
                for p in props:
                    if p[5] == 'assoc':
                        if not first:
                            p[5] = r.choice(['dis', 'no'])
                        first = False
                props = [p for p in props if p[0] == p[1] or not (p[0] in seen or seen.add(p[0]))]
        elif shape == 'two-assoc':
            d = r.choice(ctx)
            props = [self.proposal(r.choice(['new-assoc', 'associate']), rows, d) for _ in range(2)]
            if r.random() < 0.5:
                props.insert(r.randint(0, 2), self.proposal('new', rows))
        elif shape == 'dup-handle':
            p = self.proposal(r.choice(['update', 'disassociate', 'associate']), rows)
            q = list(p)
            q[5] = r.choice(['dis', 'no', 'pre', p[5]])
            props = [p, q]
        elif shape == 'invalid':
            props = [self.proposal(r.choice(valid_kinds), rows) for _ in range(r.randint(0, 2))]
            props.insert(r.randint(0, len(props)),
                         self.proposal(r.choice(['bad-handle', 'foreign-handle', 'bad-descriptor', 'illegal']), rows))
        elif shape == 'change+invalid':
            # an association-changing proposal that would be accepted alone + one that is rejected, both orders:
            # the whole call has to be rejected without a trace of the first
            d = r.choice(ctx)
            mine = [x for x in rows if x[1] == d]
            opts = ['new-assoc']
            if any(x[5] == 'assoc' for x in mine):
                opts += ['new-assoc', 'disassociate']
            if any(x[5] != 'assoc' and x[7] is None for x in mine):
                opts.append('associate')
            good = self.proposal(r.choice(opts), rows, d)
            d2 = d if r.random() < 0.6 else r.choice(ctx)
            bad = self.proposal(r.choice(['bad-handle', 'foreign-handle', 'bad-descriptor', 'illegal', 'bad-handle']), rows, d2)
            if bad[5] == 'assoc' and good[5] == 'assoc' and bad[1] == good[1]:
                bad[5] = 'dis'     # not the pre-check (nothing has been processed then), a rejection inside the transaction
            props = [good, bad] if r.random() < 0.7 else [bad, good]
            if r.random() < 0.3:
                props.insert(r.randint(0, 2), self.proposal('new', rows))
        else:
            props = []
        return ['scs', mode, props], shape

    def two_writers(self):
        """an operation and a second writer, mostly on the same descriptor and both association-changing"""
        r = self.rng
        rows = self.table_rows()
        ctx = [1, 2, 3] + ([4] if self.lc2 else [])
        if r.random() < 0.25:      # anything with anything
            first = self.loc() if r.random() < 0.3 else self.scs()[0]
            second = self.loc() if r.random() < 0.3 else self.scs()[0]
            if first[0] == 'scs':
                first[1] = 'direct'
            if first[0] == 'loc' and second[0] == 'loc':
                # two concurrent SdcProvider.set_location calls: `_location` is compared and stored before the transaction,
                # outside any lock, so the stored location may end up as the one of the writer that committed first.  The
                # table is still that of the two commits in order (checked in corpus 13 with a final metric writer), but the
                # sequential model of `_location` is not exact for this pair: not generated.
                second = self.scs()[0]
            return first, second
        d = r.choice(ctx + [2])
        kinds = ['new-assoc', 'new-assoc', 'associate', 'disassociate', 'update']

        def writer(allow_loc):
            if allow_loc and d in (2, 4) and r.random() < 0.6:      # (never two set_location calls, see above)
                return ['loc', r.randint(1, 6), d if (d == 4 or self.lc2 or r.random() < 0.3) else None]
            props = [self.proposal(r.choice(kinds), rows, d)]
            if r.random() < 0.3:
                props.append(self.proposal(r.choice(kinds), rows, r.choice([x for x in ctx if x != d])))
            return ['scs', 'direct', props]
        first = writer(r.random() < 0.3)
        return first, writer(first[0] != 'loc')

    def loc(self):
        r = self.rng
        dh = None
        x = r.random()
        if x < (0.5 if self.lc2 else 0.12):
            dh = 2
        elif x < 0.8 and self.lc2:
            dh = 4
        elif x < 0.87 and (self.lc2 or x < 0.19):
            dh = r.choice([1, 3, 10, 20])
        return ['loc', r.randint(1, 4), dh]


def gen_and_run(sess, rng, wire_ratio, n_ops):
    lc2 = rng.random() < 0.2
    wf = rng.random() < 0.85
    case = {'wf': wf, 'lc2': lc2, 'loc0': rng.choice([None, None, 1, 2]), 'start': gen_start(rng, wf, lc2), 'ops': []}
    hist = History(sess, case)
    gen = Gen(rng, hist, lc2, wire_ratio)
    shapes = []

    def next_op():
        if rng.random() < 0.3:
            op, shape = gen.loc(), 'loc'
        else:
            op, shape = gen.scs()
        x = rng.random()
        if x < 0.02:        # schedule scenario: a metric transaction commits while the operation waits for its transaction
            op += ['race', None]
        elif x < 0.07:      # two writers: a set_location / SetContextState commits while the operation waits
            op, other = gen.two_writers()
            shape = 'two-writers'
            op += ['race', other]
        shapes.append(shape)
        return op
    hist.run(next_op, n_ops)
    return hist, shapes


# ----------------------------------------------------------------------------------------------------------------

def _compare(ctx, hists):
    """one driver invocation for all histories"""
    if not ctx.driver_ok:
        return
    lines = [ln for h in hists for ln in h.lines]
    out = ctx.driver('drv_c10', lines)
    i = 0
    for h in hists:
        got_all = out[i:i + len(h.lines)]
        i += len(h.lines)
        for k, (ln, exp, got) in enumerate(zip(h.lines, h.expected, got_all)):
            if exp is not None and got != exp:
                nstart = 2 + len(h.case['start'])
                nops = h.line_op[k - nstart] + 1 if k >= nstart else 1
                case = dict(h.case, ops=h.case['ops'][:nops])
                ctx.disagree('context_states table after ' + ln.split(' ')[0], {'case': case, 'line': ln}, got, exp)
                break


def _report(ctx, hist, shapes=None):
    for sig, detail, idx in hist.failures:
        case = dict(hist.case, ops=hist.case['ops'][:idx + 1])
        ctx.fail(sig, detail, case)
    for kind, res, dv in hist.stats:
        ctx.count(f'op:{kind}:{res}')
        ctx.count(f'version-step:{dv}')
    for sh, (_, res, _) in zip(shapes or [], hist.stats):
        ctx.count(f'shape:{sh}:' + res.split(' ')[0])
    for op in hist.case['ops']:
        if op[0] == 'scs':
            ctx.count('scs-mode:' + op[1])
            ctx.count(f'scs-proposals:{min(len(op[2]), 4)}')
    ctx.traces += 1
    for r in hist.race_stats:
        ctx.count('schedule:' + r)
    if hist.capture_errors:
        ctx.count('report-not-serialisable', hist.capture_errors)
    changes = sum(1 for _, res, dv in hist.stats if res == 'ok' and dv == 1)
    rejected = sum(1 for _, res, _ in hist.stats if res != 'ok')
    multi = sum(1 for op in hist.case['ops'] if op[0] == 'scs' and len(op[2]) > 1)
    sample = None
    if len(ctx.samples) < ctx.max_samples and (ctx.evaluations % 7 == 0):
        n0 = 2 + len(hist.case['start'])
        sample = {'driver_lines': hist.lines[1:n0 + 4], 'implementation_answers': hist.expected[n0:n0 + 4]}
    ctx.case(hist.case, nontrivial=changes > 0 and (rejected > 0 or multi > 0), sample=sample)
    if sample is None and ctx.samples and ctx.samples[-1] is hist.case:
        ctx.samples.pop()      # keep the evidence readable: only the compact samples above


def corpus_cases():
    res = []
    if os.path.isdir(CORPUS):
        for f in sorted(os.listdir(CORPUS)):
            if f.endswith('.json'):
                obj = json.load(open(os.path.join(CORPUS, f)))
                res.append((f, obj.get('case', obj)))
    return res


ANCHORS = [('tutorial/productandroles/contextprovider.py', ['_set_context_state']),
           ('src/sdc11073/mdib/providermdibxtra.py', ['set_location', 'disassociate_all']),
           ('src/sdc11073/mdib/transactions.py', ['get_context_state', 'mk_context_state', 'disassociate_all', 'write_entity',
                                                   'process_transaction', '_handle_state_updates']),
           ('src/sdc11073/provider/providerimpl.py', ['set_location'])]


def _anchor_coverage(cov):
    """executed / executable lines and branch arcs of the anchored functions (ContextStateTransaction's in transactions.py)"""
    import ast
    repo = os.environ.get('VERIF_REPO', '/repo')
    res = {}
    for rel, names in ANCHORS:
        path = os.path.join(repo, rel)
        try:
            tree = ast.parse(open(path).read())
            _, stmts, _, missing, _ = cov.analysis2(path)
        except Exception as ex:  # noqa: BLE001
            res[rel] = f'not measured: {ex!r}'
            continue
        for node in ast.walk(tree):
            if isinstance(node, ast.ClassDef) and rel.endswith('transactions.py') and node.name not in ('ContextStateTransaction', '_TransactionBase'):
                for sub in ast.walk(node):
                    if isinstance(sub, ast.FunctionDef):
                        sub.name = '_other_' + sub.name
        for node in ast.walk(tree):
            if isinstance(node, ast.FunctionDef) and node.name in names:
                lines = [ln for ln in stmts if node.lineno <= ln <= node.end_lineno]
                miss = [ln for ln in missing if node.lineno <= ln <= node.end_lineno]
                res[f'{rel}:{node.name}'] = {'statements': len(lines), 'executed': len(lines) - len(miss), 'missing_lines': miss}
    return res


def run(ctx):
    cov = None
    try:
        import coverage
        repo = os.environ.get('VERIF_REPO', '/repo')
        cov = coverage.Coverage(data_file=None, include=[os.path.join(repo, rel) for rel, _ in ANCHORS])
        cov.start()
    except Exception:  # noqa: BLE001
        cov = None
    try:
        _run(ctx)
    finally:
        if cov is not None:
            cov.stop()
            try:
                ctx.notes['anchor_coverage'] = _anchor_coverage(cov)
            except Exception as ex:  # noqa: BLE001
                ctx.notes['anchor_coverage'] = f'not measured: {ex!r}'


def _run(ctx):
    global _SESSION
    sess, _SESSION = (_SESSION or Session()), None     # the translator's provider/consumer pair is reused
    try:
        hists = []
        for name, case in corpus_cases():
            hist = History(sess, json.loads(json.dumps(case))).run()
            hists.append(hist)
            _report(ctx, hist)
            ctx.count('corpus')
        n_hist = ctx.n(60, 2000)
        wire_ratio = 0.12
        budget = ctx.n(45, 780)      # seconds from here; the machine is shared, stop generating rather than overrun the tier budget
        t_run0 = real_time.time()
        for i in range(n_hist):
            if real_time.time() - t_run0 > budget:
                ctx.notes['stopped_early'] = f'wall budget reached after {i} of {n_hist} generated histories'
                break
            rng = ctx.subrng('hist', i)
            try:
                hist, shapes = gen_and_run(sess, rng, wire_ratio, rng.randint(4, 14))
            except Exception:
                import traceback
                os.makedirs(os.path.join(core.OUT, 'c10'), exist_ok=True)
                with open(os.path.join(core.OUT, 'c10', 'harness_exc.log'), 'a') as f:
                    f.write(f'seed={ctx.seed} tier={ctx.tier} history={i}\n{traceback.format_exc()}\n')
                raise
            hists.append(hist)
            _report(ctx, hist, shapes)
        _compare(ctx, hists)
        ctx.notes['explanation'] = (f'{len(hists)} histories on one provider/consumer pair; SetContextState: {int(wire_ratio * 100)}% through '
                                    'the consumer over HTTP + SCO thread, the rest handed to the same operation object in-process')
    finally:
        sess.close()


def search(ctx):
    """deeper failing-input search: only the oracle, more and longer histories, all SetContextState in-process"""
    sess = Session()
    try:
        for i in range(ctx.n(300, 3000)):
            rng = ctx.subrng('search', i)
            hist, _ = gen_and_run(sess, rng, 0.0, rng.randint(6, 20))
            for sig, detail, idx in hist.failures:
                ctx.fail(sig, detail, dict(hist.case, ops=hist.case['ops'][:idx + 1]))
            if ctx.failures:
                return
    finally:
        sess.close()


def replay(ctx, obj):
    case = obj['case']
    sess = Session()
    try:
        hist = History(sess, json.loads(json.dumps(case))).run()
        for sig, detail, idx in hist.failures:
            print(f'op {idx}: {sig}: {detail}')
        print('answers of the implementation:')
        for ln, exp in zip(hist.lines, hist.expected):
            print('  ', ln, '->', exp)
        return bool(hist.failures)
    finally:
        sess.close()
