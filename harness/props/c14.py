"""C14 — WS-Discovery answers and records exactly what its matching rules prescribe.

Tie: translator (MatchBy URIs, size of the known-id window -> Generated/DiscoveryConsts.lean) + correspondence: the Lean
model (lean/SdcModel/Discovery.lean on top of Basic/Url.lean and UdpRepeat.lean) is executed side by side with the real
`match_scope` / `matches_filter` and with a real `WSDiscovery` object that receives real SOAP datagrams through
`NetworkingThread._run_q_read` -> `handle_received_message` (sockets patched out, outbound messages captured).
Oracle: the sentences of the property evaluated on the implementation with answers known by construction (URIs are built
from components, announcements are book-kept independently).
"""
from __future__ import annotations

import glob
import json
import logging
import os
import queue
import threading
from unittest import mock
from urllib.parse import urlsplit

from lxml import etree

import sdc11073.definitions_sdc  # noqa: F401
from sdc11073.namespaces import default_ns_helper as nsh
from sdc11073.wsdiscovery import networkingthread as nt
from sdc11073.wsdiscovery import wsdimpl
from sdc11073.wsdiscovery.common import message_reader
from sdc11073.wsdiscovery.service import Service
from sdc11073.xml_types import wsd_types
from sdc11073.xml_types.addressing_types import HeaderInformationBlock

import core

READY = True
MANIFEST = dict(
    technique='Lean 4 theorems over a transcribed model of match_scope / matches_filter / the message handlers (characterisation of RFC 3986 matching at byte level, induction over message lists for the remote table, the C15 id-window for duplicates); translator for the MatchBy constants; differential correspondence incl. real SOAP datagrams through _run_q_read',
    text='Theorems (Properties/C14.lean): match_rfc3986_iff (for URIs urlsplit accepts: match <=> scheme and authority equal ignoring ASCII case and the percent-decoded segments of the probe scope are a segment-wise prefix of those of the service scope; query/fragment ignored), match_rfc3986_defined, match_strcmp_iff, match_unknown_rule, generated_rule_kinds / generated_rules_standard (the MatchBy constants of the running code are the WS-Discovery 1.1 URIs), match_refl, match_trans, encoded_slash_is_not_a_separator; probe_answer_exact / probe_answer_mem / probe_answer_defined (answered services = published services offering all types and matching all scopes, in publication order), resolve_only_published with published_get / cleared_get; remote_table_exact, remote_table_max_version, remote_table_present_iff, remote_table_content, empty_epr_never_recorded (for every message sequence the entry of an endpoint is absent iff nothing was announced since its last Bye, else carries the maximal metadata version and the merged content of the announcements with that version); duplicate_ignored, acted_on_once_within_window and own_message_ignored (the id window of property C15 in front of the dispatcher, shared by inbound datagrams and own queued messages in any interleaving: a remembered id changes nothing, an id acted on or an own id stays remembered while fewer than maxlen further ids are registered).',
    note='Trusted: Lean kernel; harness; urlsplit library checks (ipaddress / NFKC) are a parameter of the model; str.lower() is modelled for ASCII only (non-ASCII cased letters in scheme/authority are excluded from the generator); lxml parsing/validation of the datagrams is outside the model (messages are generated schema-valid).',
    ref='5 C14')
DRIVERS = ['drv_c14']
RULE = ('one case = one match_scope / matches_filter call or one session (fresh WSDiscovery, 5-40 publish / Probe / Resolve / Hello / '
        'ProbeMatches / ResolveMatches / Bye / unknown messages with duplicate message ids); distinct by canonical op list; '
        'non-trivial = URIs differ in case / encoding / length, or the session has at least one answered Probe or Resolve and '
        'one ignored or merged announcement')
TRUSTED = ['ipaddress / unicodedata checks inside urlsplit (parameter chk of the model)',
           'str.lower() on non-ASCII text (model lowers ASCII only; generator keeps cased non-ASCII letters out of scheme/authority)',
           'lxml parsing + XSD validation of datagrams (messages are generated schema-valid and parsed by the real reader)']
ASSUMPTIONS = ['scope URIs handed to the RFC 3986 rule are accepted by urlsplit (otherwise match_scope raises ValueError; recorded)',
               'local services are published with a list of types (publish_service signature); None is modelled as TypeError',
               'metadata versions are non-negative integers (xs:unsignedInt)']

NS_D = 'http://docs.oasis-open.org/ws-dd/ns/discovery/2009/01'   # WS-Discovery 1.1, section 5.1 (not read from the code)
RULES = {'ldap': NS_D + '/ldap', 'uri': NS_D + '/rfc3986', 'uuid': NS_D + '/uuid', 'strcmp': NS_D + '/strcmp0'}
IMPL_RULES = {m.name: m.value for m in wsdimpl.MatchBy}   # what the running code uses (translator + model driver)


# ---------------------------------------------------------------------------------------------- translator
def lean_bytes(s: str) -> str:
    return '[' + ', '.join(str(b) for b in s.encode('utf-8')) + ']'


def _mk_thread(wsd=None):
    with mock.patch.object(nt.NetworkingThread, '_create_multicast_in_socket', lambda *a, **k: None), \
            mock.patch.object(nt.NetworkingThread, '_create_multi_out_uni_in_out_socket', lambda *a, **k: None):
        return nt.NetworkingThread('127.0.0.1', wsd or mock.MagicMock(), logging.getLogger('verif.c14'), 3702, 1)


def translate(ctx):
    th = _mk_thread()
    src = ('import SdcModel.Discovery\nnamespace Sdc.Generated.Discovery\nopen Sdc.Discovery\n'
           f'def rules : Rules :=\n  ⟨{lean_bytes(IMPL_RULES["ldap"])},\n   {lean_bytes(IMPL_RULES["uri"])},\n   {lean_bytes(IMPL_RULES["uuid"])},\n'
           f'   {lean_bytes(IMPL_RULES["strcmp"])},\n   {"true" if wsdimpl.allow_missing_app_sequence else "false"}⟩\n'
           f'def knownIdsMaxlen : Nat := {th._known_message_ids.maxlen}\n'
           'end Sdc.Generated.Discovery\n')
    core.write_if_changed(core.GENERATED + '/DiscoveryConsts.lean', src)


# ---------------------------------------------------------------------------------------------- encoding
def hx(s: str) -> str:
    return 'x' + s.encode('utf-8').hex()


def hopt(s) -> str:
    return '-' if s is None else hx(s)


def flag(url: str) -> str:
    try:
        urlsplit(url)
    except ValueError:
        return '0'
    return '1'


def enc_types(types) -> str:
    return '-' if types is None else 't' + ','.join(hx(ns) + ':' + hx(n) for ns, n in types)


def enc_scopes(scopes) -> str:
    if scopes is None:
        return '-'
    return 's' + hopt(scopes['match_by']) + ';' + ','.join(flag(u) + hx(u) for u in scopes['text'])


def enc_xaddrs(xa) -> str:
    return 'a' + ','.join(hx(x) for x in xa)


def enc_svc(s) -> str:
    return ' '.join([hx(s['epr']), str(s['mv']), str(s['inst']), enc_types(s['types']), enc_scopes(s['scopes']), enc_xaddrs(s['xaddrs'])])


def encodable(*strings) -> bool:
    try:
        for s in strings:
            if s is not None:
                s.encode('utf-8')
    except UnicodeEncodeError:
        return False
    return True


# ---------------------------------------------------------------------------------------------- implementation adapters
def qn(t):
    return etree.QName(t[0], t[1])


def mk_scopes_obj(scopes):
    if scopes is None:
        return None
    st = wsd_types.ScopesType(match_by=scopes['match_by'])
    st.text.extend(scopes['text'])
    return st


def mk_service_obj(s) -> Service:
    return Service(None if s['types'] is None else [qn(t) for t in s['types']], mk_scopes_obj(s['scopes']), list(s['xaddrs']),
                   s['epr'], str(s['inst']), metadata_version=s['mv'])


def impl_match(rule, a, b) -> str:
    try:
        return 'ok ' + str(bool(wsdimpl.match_scope(a, b, rule)))
    except Exception as ex:  # noqa: BLE001
        return 'err ' + type(ex).__name__


def impl_mfilter(svc, types, scopes) -> str:
    try:
        return 'ok ' + str(bool(wsdimpl.matches_filter(mk_service_obj(svc), None if types is None else [qn(t) for t in types],
                                                       mk_scopes_obj(scopes))))
    except Exception as ex:  # noqa: BLE001
        return 'err ' + type(ex).__name__


class _OneShotQueue:
    """stands in for NetworkingThread._read_queue: hands out the datagrams, then stops the loop"""

    def __init__(self, items, quit_event):
        self.items = list(items)
        self.quit_event = quit_event

    def get(self, timeout=None):  # noqa: ARG002
        if self.items:
            return self.items.pop(0)
        self.quit_event.set()
        raise queue.Empty


class ImplNode:
    """A real WSDiscovery + NetworkingThread without sockets; outbound messages are captured."""

    def __init__(self):
        self.wsd = wsdimpl.WSDiscovery('127.0.0.1', logger=logging.getLogger('verif.c14.wsd'))
        self.th = _mk_thread(self.wsd)
        self.outbound = []
        # the real add_outbound_message registers the own message id in the known-id window and fills the send queue
        self.th._send_queue = queue.PriorityQueue()
        real_add = self.th.add_outbound_message

        def add_outbound(msg, addr, port, params):
            self.outbound.append(msg)
            real_add(msg, addr, port, params)
        self.th.add_outbound_message = add_outbound
        self.wsd._networking_thread = self.th
        self.wsd._server_started = True
        self.handled = []   # (action, exception class or None) of every handle_received_message call
        orig = self.wsd.handle_received_message

        def wrapped(received_message, addr_from):
            try:
                orig(received_message, addr_from)
            except Exception as ex:
                self.handled.append((received_message.action, type(ex).__name__))
                raise
            self.handled.append((received_message.action, None))
        self.wsd.handle_received_message = wrapped

    def own_ids(self, since):
        """message ids of the own messages queued since outbound index `since`, in order"""
        return [m.p_msg.header_info_block.MessageID for m in self.outbound[since:]]

    # -- application callbacks (they observe, they must not influence what is recorded or answered)
    def set_callbacks(self, spec):
        """spec = None (remove all) | {'hello': None | {'types': .., 'scopes': ..}, 'others': bool}"""
        self.calls = getattr(self, 'calls', [])
        if spec is None:
            self.wsd.set_remote_service_hello_callback(None)
            self.wsd.set_remote_service_bye_callback(None)
            self.wsd.set_remote_service_resolve_match_callback(None)
            self.wsd.set_on_probe_callback(None)
            self.wsd.set_on_probe_matches_callback(None)
            return
        flt = spec['hello'] or {'types': None, 'scopes': None}
        self.wsd.set_remote_service_hello_callback(lambda addr, svc: self.calls.append(('hello', svc.epr)),
                                                   None if flt['types'] is None else [qn(t) for t in flt['types']],
                                                   mk_scopes_obj(flt['scopes']))
        if spec.get('others'):
            self.wsd.set_remote_service_bye_callback(lambda addr, epr: self.calls.append(('bye', epr)))
            self.wsd.set_remote_service_resolve_match_callback(lambda svc: self.calls.append(('resolve-match', svc.epr)))
            self.wsd.set_on_probe_callback(lambda addr, probe: self.calls.append(('probe', None)))
            self.wsd.set_on_probe_matches_callback(lambda svcs: self.calls.append(('probe-matches', len(svcs))))

    # -- local services
    def publish(self, epr, types, scopes, xaddrs, inst) -> str:
        with mock.patch.object(wsdimpl.random, 'randint', lambda a, b: inst):
            self.wsd.publish_service(epr, None if types is None else [qn(t) for t in types], mk_scopes_obj(scopes), list(xaddrs))
        return 'ok ' + str(self.wsd._local_services[epr].metadata_version)

    def clear(self, epr) -> str:
        try:
            self.wsd.clear_service(epr)
        except KeyError:
            return 'err KeyError'
        return 'ok'

    # -- datagrams
    @staticmethod
    def build(msg, mid) -> bytes:
        kind = msg['kind']
        relates = None
        if kind in ('hello', 'unknown'):
            p = wsd_types.HelloType()
            _fill(p, msg.get('svc') or {'epr': 'urn:x', 'mv': 1, 'types': [], 'scopes': None, 'xaddrs': []})
        elif kind == 'pm':
            p = wsd_types.ProbeMatchesType()
            for s in msg['svcs']:
                m = wsd_types.ProbeMatchType()
                _fill(m, s)
                p.ProbeMatch.append(m)
            relates = 'urn:uuid:probe'
        elif kind == 'rm':
            p = wsd_types.ResolveMatchesType()
            if msg['svc'] is not None:
                p.ResolveMatch = wsd_types.ResolveMatchType()
                _fill(p.ResolveMatch, msg['svc'])
            relates = 'urn:uuid:resolve'
        elif kind == 'bye':
            p = wsd_types.ByeType()
            p.EndpointReference.Address = msg['epr']
        elif kind == 'probe':
            p = wsd_types.ProbeType()
            p.Types = None if msg['types'] is None else [qn(t) for t in msg['types']]
            if msg['scopes'] is not None:
                p.Scopes = mk_scopes_obj(msg['scopes'])
        elif kind == 'resolve':
            p = wsd_types.ResolveType()
            p.EndpointReference.Address = msg['epr']
        else:
            raise ValueError(kind)
        action = 'http://example.org/verif/UnknownAction' if kind == 'unknown' else p.action
        inf = HeaderInformationBlock(action=action, message_id=mid, addr_to=wsdimpl.ADDRESS_ALL, relates_to=relates)
        created = wsdimpl._mk_wsd_soap_message(inf, p)
        if msg.get('app'):
            a = wsd_types.AppSequenceType()
            a.InstanceId = msg['inst']
            a.MessageNumber = 1
            created.p_msg.add_header_element(a.as_etree_node(nsh.WSD.tag('AppSequence'), ns_map=nsh.partial_map(nsh.WSD)))
        return created.serialize()

    def deliver(self, data: bytes, datagram: bool) -> str:
        """-> 'skip' | 'ok <answers>' | 'err <class>' | 'invalid' (reader rejected the datagram)"""
        n_out, n_handled = len(self.outbound), len(self.handled)
        if datagram:
            ev = threading.Event()
            self.th._quit_recv_event = ev
            self.th._read_queue = _OneShotQueue([(('127.0.0.1', 4711), data)], ev)
            self.th._run_q_read()
            if len(self.handled) == n_handled:
                return 'skip'
        else:
            try:
                received = message_reader.read_received_message(data, validate=True)
            except Exception:  # noqa: BLE001
                return 'invalid'
            try:
                self.wsd.handle_received_message(received, ('127.0.0.1', 4711))
            except Exception:  # noqa: BLE001, S110
                pass
        err = self.handled[-1][1]
        if err:
            return 'err ' + err
        return 'ok ' + ' '.join(self.answers(self.outbound[n_out:]))

    @staticmethod
    def answers(created_messages):
        res = []
        for cm in created_messages:
            r = message_reader.read_received_message(cm.serialize(), validate=False)
            if r.action == wsd_types.ProbeMatchesType.action:
                pm = wsd_types.ProbeMatchesType.from_node(r.p_msg.msg_node)
                res.extend(f'P:{hx(m.EndpointReference.Address or "")}:{m.MetadataVersion}' for m in pm.ProbeMatch)
            elif r.action == wsd_types.ResolveMatchesType.action:
                m = wsd_types.ResolveMatchesType.from_node(r.p_msg.msg_node).ResolveMatch
                res.append(f'R:{hx(m.EndpointReference.Address or "")}:{m.MetadataVersion}')
        return res

    def dump(self, table) -> str:
        out = []
        for s in table.values():
            types = None if s.types is None else [(t.namespace or '', t.localname) for t in s.types]
            scopes = None if s.scopes is None else {'match_by': s.scopes.MatchBy, 'text': list(s.scopes.text)}
            sc = '-' if scopes is None else 's' + hopt(scopes['match_by']) + ';' + ','.join(hx(u) for u in scopes['text'])
            out.append('|'.join([hx(s.epr), str(s.metadata_version), str(int(s.instance_id)), enc_types(types), sc, enc_xaddrs(s.x_addrs)]))
        return ' '.join(out)


def _fill(p, s):
    p.EndpointReference.Address = s['epr']
    p.Types = None if s['types'] is None else [qn(t) for t in s['types']]
    if s['scopes'] is not None:
        p.Scopes = mk_scopes_obj(s['scopes'])
    if s['xaddrs']:
        p.XAddrs.extend(s['xaddrs'])
    p.MetadataVersion = s['mv']


def msg_line(msg) -> str:
    k = msg['kind']
    app = '1' if msg.get('app') else '0'
    if k == 'hello':
        return f'hello {app} ' + enc_svc(as_received(msg['svc'], msg))
    if k == 'rm':
        return f'rm {app} ' + ('-' if msg['svc'] is None else enc_svc(as_received(msg['svc'], msg)))
    if k == 'pm':
        return f'pm {app} {len(msg["svcs"])} ' + ' '.join(enc_svc(as_received(s, msg)) for s in msg['svcs'])
    if k == 'bye':
        return 'bye ' + hx(msg['epr'])
    if k == 'probe':
        return 'probe ' + enc_types(as_received_types(msg['types'])) + ' ' + enc_scopes(msg['scopes'])
    if k == 'resolve':
        return 'resolve ' + hx(msg['epr'])
    return 'unknown'


def as_received_types(types):
    """an absent Types element is read back as an empty list (QNameListType)"""
    return [] if types is None else types


def as_received(s, msg):
    """what the handler constructs from the parsed message: instance id from the AppSequence header, Types [] when absent"""
    return {**s, 'inst': msg['inst'] if msg.get('app') else 0, 'types': as_received_types(s['types'])}


# ---------------------------------------------------------------------------------------------- URI construction (oracle)
ASCII_SEG = "abcXYZ019-._~!$&'()*+,;=:@"
SCHEMES = ['http', 'sdc.ctxt.loc', 'urn', 'biceps.ctxt.location', 'a+b-c.d', 'x']
HOSTS = ['', 'example.com', 'Example.COM:8080', 'user@host', '10.0.0.1', 'a%7Eb', 'xn--bcher-kva.example']
SEG_BYTES = [b'', b'a', b'b1', b'CU1', b'Bed', b'bed', b'a/b', b'a b', b'100%', b'\xc3\xa9', b'\xff', b'\xfe', b'x?y', b'x#y', b'.', b'..',
             b'HOSP1/b1/CU1', b'%2F', b'\xe2\x82\xac', b'~', b'A', b'+', b'\xc3', b'a\xffb', b'\xe2\x82', b'\xc3\xa9\x80', b'\xf0\x9f\x98\x80']


def enc_segment(rng, raw: bytes) -> str:
    """a percent-encoding of raw (random choice of escaping where it is optional)"""
    out = []
    i = 0
    while i < len(raw):
        b = raw[i]
        ch = chr(b)
        must = b >= 0x80 or ch in '/?#%' or b <= 0x20 or b == 0x7f or ch in '[]"<>\\^`{|}'
        if b >= 0x80 and rng.random() < 0.3:
            # keep a whole valid UTF-8 character literally
            for n in (2, 3, 4):
                try:
                    c = raw[i:i + n].decode('utf-8')
                    if len(c) == 1 and not c.isalpha():
                        out.append(c)
                        i += n
                        break
                except UnicodeDecodeError:
                    continue
            else:
                out.append('%%%02X' % b)
                i += 1
            continue
        if must or rng.random() < 0.15:
            out.append(('%%%02X' if rng.random() < 0.7 else '%%%02x') % b)
        else:
            out.append(ch)
        i += 1
    return ''.join(out)


def rand_case(rng, s: str) -> str:
    return ''.join(c.upper() if rng.random() < 0.5 else c.lower() for c in s)


class Uri:
    """scheme, authority (None = no `//`), decoded path segments (first '' for an absolute path), query, fragment"""

    def __init__(self, scheme, host, segs, query=None, frag=None):
        self.scheme, self.host, self.segs, self.query, self.frag = scheme, host, list(segs), query, frag

    def render(self, rng) -> str:
        s = rand_case(rng, self.scheme) + ':'
        if self.host is not None:
            s += '//' + rand_case(rng, self.host)
        s += '/'.join(enc_segment(rng, seg) for seg in self.segs)
        if self.query is not None:
            s += '?' + self.query
        if self.frag is not None:
            s += '#' + self.frag
        return s

    def to_json(self):
        return {'scheme': self.scheme, 'host': self.host, 'segs': [x.hex() for x in self.segs]}

    @staticmethod
    def from_json(d):
        return Uri(d['scheme'], d['host'], [bytes.fromhex(x) for x in d['segs']])

    def well_formed(self) -> bool:
        if self.host is not None:
            return self.segs == [] or self.segs[0] == b'' or self.segs == [b'']
        # no authority: the path must not start with '//' and a rootless first segment must be non-empty
        if len(self.segs) >= 2 and self.segs[0] == b'' and self.segs[1] == b'':
            return False
        return True


def ref_match(a: Uri, b: Uri) -> bool:
    """The statement: scheme and authority case-insensitive, path segment-wise prefix after percent-decoding."""
    if a.scheme.lower() != b.scheme.lower() or (a.host or '').lower() != (b.host or '').lower():
        return False
    sa, sb = (a.segs or [b'']), (b.segs or [b''])
    return len(sa) <= len(sb) and sb[:len(sa)] == sa


def rand_uri(rng) -> Uri:
    while True:
        host = rng.choice(HOSTS) if rng.random() < 0.7 else None
        n = rng.choice([0, 1, 2, 2, 3, 4])
        segs = [rng.choice(SEG_BYTES) for _ in range(n)]
        if host is not None or rng.random() < 0.8:
            segs = ([b''] + segs) if segs or rng.random() < 0.5 else []
        u = Uri(rng.choice(SCHEMES), host, segs, rng.choice([None, None, 'fac=a&poc=b', '']), rng.choice([None, None, None, 'f']))
        if u.well_formed() and not (host is None and segs and segs[0] != b'' and not segs[0]):
            if host is None and segs and segs[0] != b'' and b':' in segs[0]:
                continue
            if host is None and not segs:
                continue
            return u


def related_uri(rng, a: Uri) -> Uri:
    b = Uri(a.scheme, a.host, a.segs, rng.choice([a.query, None, 'other=1']), rng.choice([a.frag, None]))
    k = rng.random()
    if k < 0.25:
        b.segs = b.segs + [rng.choice(SEG_BYTES) for _ in range(rng.choice([1, 1, 2]))]
    elif k < 0.4 and len(b.segs) > 1:
        b.segs = b.segs[:-1]
    elif k < 0.55 and b.segs:
        i = rng.randrange(len(b.segs))
        if i > 0 or b.segs[0] != b'':
            seg = b.segs[i]
            hi = [j for j, c in enumerate(seg) if c >= 0x80]
            if hi and rng.random() < 0.6:
                j = rng.choice(hi)   # another non-ASCII octet at the same place (invalid UTF-8 vs invalid UTF-8, ...)
                b.segs[i] = seg[:j] + bytes([rng.choice([0x80, 0xbf, 0xc3, 0xfe, 0xff, seg[j] ^ 1])]) + seg[j + 1:]
            else:
                b.segs[i] = rng.choice([seg.swapcase(), rng.choice(SEG_BYTES), seg + b'x'])
    elif k < 0.65:
        b.segs = b.segs + [b'']   # trailing slash
    elif k < 0.72:
        b.scheme = rng.choice(SCHEMES)
    elif k < 0.8:
        b.host = rng.choice(HOSTS) if b.host is not None else b.host
    elif k < 0.86 and b.segs:
        # encoded slash <-> real slash
        i = rng.randrange(len(b.segs))
        if b'/' in b.segs[i]:
            b.segs[i:i + 1] = b.segs[i].split(b'/')
    if not b.well_formed() or (b.host is None and (not b.segs or (b.segs[0] != b'' and (not b.segs[0] or b':' in b.segs[0])))):
        return Uri(a.scheme, a.host, a.segs, None, None)
    return b


MATCH_RULES = [None, '', RULES['uri'], RULES['uri'], RULES['ldap'], RULES['uuid'], RULES['strcmp'], RULES['strcmp'],
               NS_D + '/unknown', RULES['uri'].upper(), 'x', RULES['strcmp'] + ' ']
JUNK = ['', 'http://[::1]/a', 'http://[abc/x', 'http://℀/x', 'a b', '%', '//x/y', '/a/b', 'a/b', 'http:', ':', 'http://a/%zz', 'http://a/b c',
        ' http://a/b', 'ht\ttp://a/b', 'http://é/x', '1http://a', 'http://a/b?x#y', '#', '?', 'http://a//b', 'HTTP://A/./b', 'urn:uuid:123']


def rule_kind(rule):
    if rule in (None, '', RULES['uri'], RULES['ldap'], RULES['uuid']):
        return 'uri'
    return 'strcmp' if rule == RULES['strcmp'] else 'unknown'


# ---------------------------------------------------------------------------------------------- oracle for sessions
class DupBook:
    """independent book-keeping for the duplicate oracle: the node remembers the last `maxlen` message ids *in order of
    registration* (ids of datagrams it acted on and ids of its own queued messages), whatever end of whatever container
    the code uses"""

    def __init__(self, maxlen):
        self.maxlen, self.registered = maxlen, []

    def must_skip(self, mid) -> bool:
        recent = self.registered if self.maxlen is None else self.registered[-self.maxlen:] if self.maxlen else []
        return mid in recent

    def record(self, mid, impl):
        """an inbound datagram: acted on => its id is registered"""
        if impl != 'skip':
            self.registered.append(mid)

    def own(self, ids):
        self.registered.extend(ids)


def emit_own(node, since, dup, lines, expect, cases):
    """tell the model (and the duplicate book) which own message ids were registered by the last operation"""
    ids = node.own_ids(since)
    dup.own(ids)
    for i in ids:
        lines.append('out ' + i)
        expect.append('ok')
        cases.append({'op': 'own-message-id', 'id': i})
    return ids


class Book:
    """independent book-keeping of a session for the oracle"""

    def __init__(self):
        self.published = {}        # epr -> dict(types, scopes as list of (Uri, text), match semantic)
        self.seen = {}             # epr -> list of announcements (dicts) since the last Bye


TYPE_POOL = [('http://standards.ieee.org/downloads/11073/11073-20702-2016', 'MedicalDevice'), ('http://docs.oasis-open.org/ws-dd/ns/dpws/2009/01', 'Device'),
             ('http://example.org/t', 'A'), ('http://example.org/t', 'a'), ('http://example.org/u', 'A')]
EPRS = ['urn:uuid:1', 'urn:uuid:2', 'urn:uuid:3', 'urn:uuid:4', '']
XADDRS = ['http://10.0.0.1:6464/a', 'http://10.0.0.2:6464/b', 'https://h/c']


def run_session(ctx, rng, idx, lines, expect, cases):
    """one session on a fresh node; returns nothing, appends protocol lines / implementation answers"""
    node = ImplNode()
    book = Book()
    uris = [rand_uri(rng) for _ in range(4)]
    uris += [related_uri(rng, rng.choice(uris)) for _ in range(4)]
    ops = []
    lines.append('reset')
    expect.append('ok')
    cases.append({'session': idx, 'op': 'reset'})
    mids = []
    dup = DupBook(node.th._known_message_ids.maxlen)
    answered = merged_or_ignored = False
    hello_filter = 'off'
    if rng.random() < 0.5:   # half of the sessions start with callbacks registered
        spec = rand_callbacks(rng, uris)
        node.set_callbacks(spec)
        hello_filter = spec['hello'] if spec else 'off'
        ops.append({'op': 'callbacks', 'spec': spec})
    n_ops = rng.randint(5, 40)
    for step in range(n_ops):
        k = rng.random()
        via_dg = rng.random() < 0.6
        n_out = len(node.outbound)
        n_calls_before = len(getattr(node, 'calls', []))
        if k < 0.14:
            epr = rng.choice(EPRS[:4])
            types = rng.sample(TYPE_POOL, rng.randrange(0, 4))
            sc_uris = [rng.choice(uris) for _ in range(rng.randrange(0, 3))]
            scopes = None if rng.random() < 0.15 else {'match_by': None, 'text': [u.render(rng) for u in sc_uris]}
            xa = rng.sample(XADDRS, rng.randrange(0, 3))
            inst = rng.randrange(1, 1000)
            line = f'publish {hx(epr)} {enc_types(types)} {enc_scopes(scopes)} {enc_xaddrs(xa)} {inst}'
            impl = node.publish(epr, types, scopes, xa, inst)
            book.published[epr] = {'types': types, 'uris': sc_uris if scopes is not None else None, 'texts': scopes['text'] if scopes else None}
            op = {'op': 'publish', 'epr': epr, 'types': types, 'scopes': scopes, 'xaddrs': xa, 'inst': inst,
                  'uris': [u.to_json() for u in sc_uris] if scopes is not None else None}
        elif k < 0.18:
            epr = rng.choice(EPRS[:4])
            line = f'clear {hx(epr)}'
            impl = node.clear(epr)
            book.published.pop(epr, None)
            op = {'op': 'clear', 'epr': epr}
        elif k < 0.24:
            # the application (de)registers its callbacks; the Hello callback comes with a types / scopes filter that
            # restricts the notifications - not what is recorded
            spec = rand_callbacks(rng, uris)
            node.set_callbacks(spec)
            hello_filter = spec['hello'] if spec else 'off'
            ops.append({'op': 'callbacks', 'spec': spec})
            ctx.count('op:callbacks:' + ('off' if spec is None else 'hello-filter-' + ('none' if spec['hello'] is None else
                      '+'.join(x for x in ('types', 'scopes') if spec['hello'][x] is not None) or 'empty')))
            continue
        else:
            msg = rand_message(rng, uris, book)
            own = node.own_ids(0)
            if own and rng.random() < 0.08:
                mid = rng.choice(own[-3:])   # an own message looped back by multicast
            elif mids and rng.random() < 0.25:
                mid = rng.choice(mids[-5:] if rng.random() < 0.8 else mids)   # duplicate id
            else:
                mid = f'urn:uuid:{idx}-{step}'
            try:
                data = ImplNode.build(msg, mid)
                message_reader.read_received_message(data, validate=True)
            except Exception as ex:  # noqa: BLE001
                ctx.count('generator:message-not-schema-valid:' + type(ex).__name__)
                continue
            line = (f'dg {mid.replace(" ", "_")} ' if via_dg else '') + msg_line(msg)
            # the id was acted on and fewer than maxlen datagrams arrived since: the node still remembers it
            was_known = via_dg and dup.must_skip(mid)
            before = node.dump(node.wsd._remote_services)
            impl = node.deliver(data, via_dg)
            if via_dg:
                mids.append(mid)
                dup.record(mid, impl)
            op = {'op': 'datagram' if via_dg else 'message', 'mid': mid, 'msg': msg}
            # ---- oracle
            if via_dg and was_known:
                # the id is among the remembered ones: must not be acted on
                if impl != 'skip' or node.dump(node.wsd._remote_services) != before:
                    ctx.fail('duplicate-acted-on', f'datagram with remembered message id {mid} was dispatched: {impl}',
                             {'ops': ops + [op]})
                merged_or_ignored = True
            else:
                a, m = session_oracle(ctx, node, book, msg, impl, ops + [op], rng)
                answered |= a
                merged_or_ignored |= m
        ops.append(op)
        lines.append(line)
        expect.append(impl)
        cases.append({'session': idx, 'step': step, **op})
        emit_own(node, n_out, dup, lines, expect, cases)
        ctx.count('op:' + line.split(' ')[0] + ('+' + line.split(' ')[2] if line.startswith('dg ') else ''))
        ctx.count('impl:' + ' '.join(impl.split(' ')[:2] if impl.startswith('err') else impl.split(' ')[:1]))
        announcement = op['op'] in ('datagram', 'message') and op['msg']['kind'] in ('hello', 'pm', 'rm', 'bye')
        if announcement and op['msg']['kind'] == 'hello' and hello_filter is None and impl.startswith('ok'):
            # no filter: every processed Hello is notified exactly once
            n_calls = sum(1 for c in node.calls[n_calls_before:] if c[0] == 'hello')
            processed = bool(op['msg'].get('app') or wsdimpl.allow_missing_app_sequence)
            if n_calls != int(processed):
                ctx.fail('hello-callback-without-filter', f'{n_calls} notifications for one {"processed" if processed else "ignored"} Hello', {'ops': ops})
        if announcement or rng.random() < 0.3 or step == n_ops - 1:
            lines.append('dump')
            expect.append(node.dump(node.wsd._remote_services))
            cases.append({'session': idx, 'step': step, 'op': 'dump'})
            table_oracle(ctx, node, book, ops)
    lines.append('dumplocal')
    expect.append(node.dump(node.wsd._local_services))
    cases.append({'session': idx, 'op': 'dumplocal'})
    ctx.case({'session': [c for c in ops]}, nontrivial=answered and merged_or_ignored,
             sample={'session': ops[:6]} if idx == 0 else None)


def rand_callbacks(rng, uris):
    if rng.random() < 0.15:
        return None
    k = rng.random()
    flt = None
    if k > 0.25:
        types = rng.sample(TYPE_POOL, rng.randrange(0, 3)) if rng.random() < 0.7 else None
        scopes = None
        if rng.random() < 0.6:
            scopes = {'match_by': rng.choice([None, None, RULES['uri'], RULES['strcmp']]),
                      'text': [rng.choice(uris).render(rng) for _ in range(rng.randrange(0, 3))]}
        flt = {'types': types, 'scopes': scopes}
    return {'hello': flt, 'others': rng.random() < 0.6}


def rand_svc(rng, uris, epr=None):
    sc_uris = [rng.choice(uris) for _ in range(rng.randrange(0, 3))]
    return {'epr': rng.choice(EPRS) if epr is None else epr, 'mv': rng.choice([0, 1, 1, 2, 2, 3, 5, 7, 4294967295]),
            'inst': 0, 'types': None if rng.random() < 0.25 else rng.sample(TYPE_POOL, rng.randrange(0, 3)),
            'scopes': None if rng.random() < 0.3 else {'match_by': rng.choice([None, None, RULES['uri'], RULES['strcmp']]),
                                                       'text': [u.render(rng) for u in sc_uris]},
            'xaddrs': rng.sample(XADDRS, rng.randrange(0, 3))}


def rand_message(rng, uris, book):
    k = rng.random()
    app = rng.random() < 0.85
    inst = rng.randrange(1, 50)
    if k < 0.22:
        return {'kind': 'hello', 'app': app, 'inst': inst, 'svc': rand_svc(rng, uris)}
    if k < 0.38:
        return {'kind': 'pm', 'app': app, 'inst': inst, 'svcs': [rand_svc(rng, uris) for _ in range(rng.choice([0, 1, 1, 2, 3]))]}
    if k < 0.5:
        return {'kind': 'rm', 'app': app, 'inst': inst, 'svc': None if rng.random() < 0.1 else rand_svc(rng, uris)}
    if k < 0.62:
        return {'kind': 'bye', 'epr': rng.choice(EPRS)}
    if k < 0.85:
        types = None if rng.random() < 0.3 else rng.sample(TYPE_POOL, rng.randrange(0, 3))
        scopes = None
        if rng.random() < 0.7:
            pool = uris
            scopes = {'match_by': rng.choice(MATCH_RULES[:9]), 'text': []}
            for _ in range(rng.randrange(0, 3)):
                u = rng.choice(pool)
                if rng.random() < 0.4 and len(u.segs) > 1:
                    u = Uri(u.scheme, u.host, u.segs[:rng.randrange(1, len(u.segs) + 1)])
                scopes['text'].append((u, u.render(rng)))
            scopes['uris'] = [u.to_json() for u, _ in scopes['text']]
            scopes['text'] = [t for _, t in scopes['text']]
        return {'kind': 'probe', 'types': types, 'scopes': scopes}
    if k < 0.95:
        return {'kind': 'resolve', 'epr': rng.choice(EPRS)}
    return {'kind': 'unknown'}


def session_oracle(ctx, node, book, msg, impl, ops, rng):
    """checks the Probe / Resolve answers against the statement; records announcements; returns (answered, merged_or_ignored)"""
    kind = msg['kind']
    case = {'ops': ops}
    answered = merged = False
    if kind == 'probe':
        rk = rule_kind(msg['scopes']['match_by']) if msg['scopes'] else 'uri'
        expected = []
        for epr, p in book.published.items():
            ok = all(t in p['types'] for t in (msg['types'] or []))
            if ok and msg['scopes'] is not None:
                for u, text in zip([Uri.from_json(j) for j in msg['scopes']['uris']], msg['scopes']['text']):
                    if p['uris'] is None:
                        ok = False
                    elif rk == 'uri':
                        ok = ok and any(ref_match(u, su) for su in p['uris'])
                    elif rk == 'strcmp':
                        ok = ok and any(text == st for st in p['texts'])
                    else:
                        ok = False
            if ok:
                expected.append(epr)
        if impl.startswith('err'):
            ctx.fail('probe-handler-raises:' + impl[4:], f'Probe handler raised {impl}', case)
        else:
            got = [bytes.fromhex(t.split(':')[1][1:]).decode() for t in impl.split()[1:] if t.startswith('P:')]
            if sorted(got) != sorted(expected):
                ctx.fail('probe-answer-not-exact', f'Probe answered for {sorted(got)}, matching published services are {sorted(expected)}', case)
            answered = bool(got)
            ctx.count(f'probe:{rk}:answered-{min(len(got), 3)}-of-{min(len(book.published), 4)}')
    elif kind == 'resolve':
        got = [t for t in impl.split()[1:] if t.startswith('R:')]
        exp = [msg['epr']] if msg['epr'] in book.published else []
        if [bytes.fromhex(t.split(':')[1][1:]).decode() for t in got] != exp:
            ctx.fail('resolve-answer-wrong', f'Resolve for {msg["epr"]!r} answered {got}, published: {sorted(book.published)}', case)
        answered = bool(got)
        ctx.count('resolve:' + ('answered' if got else 'not-published'))
    elif kind in ('hello', 'pm', 'rm'):
        if impl.startswith('ok') and (msg.get('app') or wsdimpl.allow_missing_app_sequence):
            svcs = [msg['svc']] if kind in ('hello', 'rm') else msg['svcs']
            for s in svcs:
                if s is not None and s['epr']:
                    prev = book.seen.setdefault(s['epr'], [])
                    if prev and s['mv'] <= max(p['mv'] for p in prev):
                        merged = True
                    ctx.count('announcement:' + ('first' if not prev else 'higher' if s['mv'] > max(p['mv'] for p in prev)
                                                 else 'same-version' if s['mv'] == max(p['mv'] for p in prev) else 'outdated'))
                    prev.append(s)
        elif impl.startswith('ok'):
            merged = True
    elif kind == 'bye':
        book.seen.pop(msg['epr'], None)
    return answered, merged


def table_oracle(ctx, node, book, ops):
    """the table holds, per epr, the highest metadata version seen since its last Bye"""
    table = node.wsd._remote_services
    case = {'ops': ops}
    for epr, anns in book.seen.items():
        if not anns:
            continue
        if epr not in table:
            ctx.fail('table-entry-missing', f'{epr!r} announced {[a["mv"] for a in anns]} since its last Bye but not in the table', case)
            continue
        top = max(a['mv'] for a in anns)
        s = table[epr]
        if s.metadata_version != top:
            ctx.fail('table-not-max-version', f'{epr!r}: table has version {s.metadata_version}, announced since last Bye: {[a["mv"] for a in anns]}', case)
            continue
        best = [a for a in anns if a['mv'] == top]
        if sorted(s.x_addrs) not in [sorted(a['xaddrs']) for a in best]:
            ctx.fail('table-content-not-from-max-version', f'{epr!r}: x_addrs {s.x_addrs} not from an announcement with version {top}', case)
    for epr in table:
        if not book.seen.get(epr):
            ctx.fail('table-entry-after-bye', f'{epr!r} is in the table although nothing was announced since its last Bye', case)


# ---------------------------------------------------------------------------------------------- run
def run(ctx):
    rng = ctx.subrng('c14')
    lines = ['rules ' + ' '.join(hx(IMPL_RULES[k]) for k in ('ldap', 'uri', 'uuid', 'strcmp')) + f' {int(bool(wsdimpl.allow_missing_app_sequence))}', f'maxlen {_mk_thread()._known_message_ids.maxlen}']
    expect = ['ok', 'ok']
    cases = [{'op': 'rules'}, {'op': 'maxlen'}]

    def add(line, impl, case, nontrivial=True):
        lines.append(line)
        expect.append(impl)
        cases.append(case)
        ctx.case(case, nontrivial=nontrivial)
        ctx.count('op:' + line.split(' ', 1)[0])
        ctx.count('impl:' + ' '.join(impl.split(' ')[:2] if impl.startswith('err') else impl.split(' ')[:1]))

    def match_case(rule, a_text, b_text, expected=None, why=''):
        impl = impl_match(rule, a_text, b_text)
        case = {'op': 'match', 'rule': rule, 'a': a_text, 'b': b_text}
        if expected is not None and impl != 'ok ' + str(expected):
            ctx.fail('match-scope:' + why, f'match_scope({a_text!r}, {b_text!r}, {rule!r}) = {impl}, the statement says {expected}', case)
        if encodable(a_text, b_text, rule):
            add(f'match {hopt(rule)} {flag(a_text)}{hx(a_text)} {flag(b_text)}{hx(b_text)}', impl, case,
                nontrivial=a_text != b_text)

    # corpus
    for f in sorted(glob.glob(os.path.join(core.VERIF, 'corpus', 'C14', '*.json'))):
        c = json.load(open(f))['case']
        ctx.count('corpus')
        if c['op'] == 'match':
            match_case(c['rule'], c['a'], c['b'], c.get('expected'), c.get('why', 'corpus'))

    # 1. match_scope on constructed URIs: the expected answer is known by construction
    for _ in range(ctx.n(12000, 150000)):
        a = rand_uri(rng)
        b = related_uri(rng, a) if rng.random() < 0.8 else rand_uri(rng)
        if rng.random() < 0.5:
            a, b = b, a
        rule = rng.choice(MATCH_RULES)
        at, bt = a.render(rng), b.render(rng)
        rk = rule_kind(rule)
        if rk != 'uri' and rng.random() < 0.4:
            bt = at if rng.random() < 0.6 else at.swapcase()
        expected = ref_match(a, b) if rk == 'uri' else (at == bt if rk == 'strcmp' else False)
        ctx.count(f'match-expected:{rk}:{expected}')
        match_case(rule, at, bt, expected, rk)
    # 2. arbitrary strings (no reference answer except for strcmp / unknown rule)
    for _ in range(ctx.n(4000, 40000)):
        a = rng.choice(JUNK) if rng.random() < 0.6 else rand_uri(rng).render(rng)
        b = rng.choice(JUNK) if rng.random() < 0.6 else rand_uri(rng).render(rng)
        if rng.random() < 0.2:
            b = a
        rule = rng.choice(MATCH_RULES)
        rk = rule_kind(rule)
        match_case(rule, a, b, None if rk == 'uri' else (a == b if rk == 'strcmp' else False), rk)
    # 3. matches_filter directly (types None / [] / lists, scopes None, every rule)
    for _ in range(ctx.n(4000, 40000)):
        uris = [rand_uri(rng) for _ in range(3)]
        svc = rand_svc(rng, uris, epr='urn:uuid:s')
        if rng.random() < 0.3 and svc['scopes']:
            svc['scopes']['text'].append(rng.choice(JUNK))
        ft = None if rng.random() < 0.3 else rng.sample(TYPE_POOL, rng.randrange(0, 3))
        fs = None
        if rng.random() < 0.7:
            fs = {'match_by': rng.choice(MATCH_RULES), 'text': [(related_uri(rng, rng.choice(uris)) if rng.random() < 0.8 else rand_uri(rng)).render(rng)
                                                               for _ in range(rng.randrange(0, 3))]}
            if rng.random() < 0.1:
                fs['text'].append(rng.choice(JUNK))
        if not encodable(*(svc['scopes'] or {'text': []})['text'], *(fs or {'text': []})['text']):
            continue
        add(f'mfilter {enc_svc(svc)} {enc_types(ft)} {enc_scopes(fs)}', impl_mfilter(svc, ft, fs), {'op': 'mfilter', 'svc': svc, 'types': ft, 'scopes': fs})
    # 4. sessions
    for i in range(ctx.n(400, 4000)):
        run_session(ctx, ctx.subrng('session', i), i, lines, expect, cases)
    # 5. the id window with its real size: > maxlen distinct ids, then old and recent duplicates
    window_session(ctx, rng, lines, expect, cases)

    ctx.notes['explanation'] = ('match_scope on URI pairs built from components (case, escaping, extra/missing/empty segments, encoded '
                                'slashes, query/fragment) and on arbitrary strings; matches_filter; sessions of real SOAP datagrams')
    if ctx.driver_ok:
        out = ctx.driver('drv_c14', lines)
        for line, o, e, case in zip(lines, out, expect, cases):
            if o.rstrip() != e.rstrip():
                ctx.disagree('model == implementation: ' + line.split(' ', 1)[0], {'case': case, 'line': line[:400]}, o[:300], e[:300])


def window_session(ctx, rng, lines, expect, cases):
    """overflow the real id window with interleaved inbound datagrams and own (outbound) messages, then repeat the most
    recent inbound id and loop back the most recent own id; afterwards a pure inbound stream"""
    node = ImplNode()
    maxlen = node.th._known_message_ids.maxlen
    dup = DupBook(maxlen)
    lines.append('reset')
    expect.append('ok')
    cases.append({'op': 'reset'})
    ops = []
    ttype = TYPE_POOL[0]

    def step(op, line_of):
        n_out = len(node.outbound)
        if op['op'] == 'publish':
            impl = node.publish(op['epr'], op['types'], op['scopes'], op['xaddrs'], op['inst'])
            line = f"publish {hx(op['epr'])} {enc_types(op['types'])} {enc_scopes(op['scopes'])} {enc_xaddrs(op['xaddrs'])} {op['inst']}"
        else:
            data = ImplNode.build(op['msg'], op['mid'])
            must = dup.must_skip(op['mid'])
            impl = node.deliver(data, True)
            dup.record(op['mid'], impl)
            line = f"dg {op['mid']} " + msg_line(op['msg'])
            if must and impl != 'skip':
                ctx.fail('duplicate-acted-on', f"datagram with remembered message id {op['mid']} ({line_of}) was dispatched: {impl}",
                         {'ops': ops + [op]})
            ctx.count(f'window:{line_of}:' + impl.split(' ')[0])
        ops.append(op)
        lines.append(line)
        expect.append(impl)
        cases.append({'op': 'window', 'what': line_of, 'mid': op.get('mid')})
        return emit_own(node, n_out, dup, lines, expect, cases)

    step({'op': 'publish', 'epr': 'urn:uuid:w', 'types': [ttype], 'scopes': None, 'xaddrs': ['http://10.0.0.1/x'], 'inst': 5, 'uris': None}, 'publish')
    n = maxlen // 2 + rng.randint(10, 40)      # every probe registers two ids: its own and the one of the answer
    probe = {'kind': 'probe', 'types': [ttype], 'scopes': None}
    last_own = None
    for i in range(n):
        own = step({'op': 'datagram', 'mid': f'urn:uuid:p{i}', 'msg': probe}, 'fresh-probe')
        last_own = own[-1] if own else last_own
    hello = {'kind': 'hello', 'app': True, 'inst': 1, 'svc': {'epr': 'urn:uuid:r', 'mv': 1, 'inst': 0, 'types': [ttype], 'scopes': None, 'xaddrs': ['http://h/x']}}
    step({'op': 'datagram', 'mid': f'urn:uuid:p{n - 1}', 'msg': probe}, 'repeat-most-recent-inbound')
    if last_own:
        step({'op': 'datagram', 'mid': last_own, 'msg': hello}, 'loop-back-most-recent-own')
    step({'op': 'datagram', 'mid': f'urn:uuid:p{n - 2}', 'msg': probe}, 'repeat-recent-inbound')
    step({'op': 'datagram', 'mid': 'urn:uuid:p0', 'msg': probe}, 'repeat-evicted-inbound')
    # pure inbound stream (Hello with addresses: nothing is sent)
    m = maxlen + rng.randint(5, 30)
    seq = [f'urn:uuid:w{i}' for i in range(m)]
    seq += [seq[0], seq[-1], seq[-maxlen], seq[-maxlen - 1], seq[m // 2]]
    for j, mid in enumerate(seq):
        step({'op': 'datagram', 'mid': mid, 'msg': {**hello, 'svc': {**hello['svc'], 'mv': j + 1}}}, 'hello-stream' if j < m else 'hello-repeat')
    lines.append('dump')
    expect.append(node.dump(node.wsd._remote_services))
    cases.append({'op': 'dump'})
    ctx.case({'window': len(ops)})


def search(ctx):
    rng = ctx.subrng('c14-search')
    lines, expect, cases = [], [], []
    for i in range(400):
        run_session(ctx, ctx.subrng('search-session', i), i, lines, expect, cases)
        for _ in range(200):
            a = rand_uri(rng)
            b = related_uri(rng, a)
            rule = rng.choice(MATCH_RULES)
            at, bt = a.render(rng), b.render(rng)
            rk = rule_kind(rule)
            expected = ref_match(a, b) if rk == 'uri' else (at == bt if rk == 'strcmp' else False)
            impl = impl_match(rule, at, bt)
            if impl != 'ok ' + str(expected):
                ctx.fail('match-scope:' + rk, f'match_scope({at!r}, {bt!r}, {rule!r}) = {impl}, the statement says {expected}',
                         {'op': 'match', 'rule': rule, 'a': at, 'b': bt, 'expected': expected})
        if ctx.failures:
            return


def replay(ctx, obj) -> bool:
    case = obj['case']
    if case.get('op') == 'match':
        impl = impl_match(case['rule'], case['a'], case['b'])
        print('match_scope ->', impl, ' expected', case.get('expected'))
        return 'expected' in case and impl != 'ok ' + str(case['expected'])
    if 'ops' in case:
        return replay_ops(ctx, case['ops'])
    return False


def replay_ops(ctx, ops) -> bool:
    """re-run a recorded session on a fresh node and evaluate the oracles again"""
    node = ImplNode()
    book = Book()
    dup = DupBook(node.th._known_message_ids.maxlen)
    done = []
    rng = ctx.subrng('replay')
    for op in ops:
        n_out = len(node.outbound)
        if op['op'] == 'publish':
            node.publish(op['epr'], [tuple(t) for t in op['types']] if op['types'] is not None else None, op['scopes'], op['xaddrs'], op['inst'])
            book.published[op['epr']] = {'types': [tuple(t) for t in op['types'] or []],
                                         'uris': None if op.get('uris') is None else [Uri.from_json(j) for j in op['uris']],
                                         'texts': op['scopes']['text'] if op['scopes'] else None}
        elif op['op'] == 'clear':
            node.clear(op['epr'])
            book.published.pop(op['epr'], None)
        elif op['op'] == 'callbacks':
            spec = op['spec']
            if spec and spec['hello'] and spec['hello']['types'] is not None:
                spec['hello']['types'] = [tuple(t) for t in spec['hello']['types']]
            node.set_callbacks(spec)
        else:
            msg = op['msg']
            for s in ([msg.get('svc')] if msg.get('svc') else []) + list(msg.get('svcs') or []):
                if s.get('types') is not None:
                    s['types'] = [tuple(t) for t in s['types']]
            if msg.get('types') is not None:
                msg['types'] = [tuple(t) for t in msg['types']]
            data = ImplNode.build(msg, op['mid'])
            dg = op['op'] == 'datagram'
            was_known = dg and dup.must_skip(op['mid'])
            before = node.dump(node.wsd._remote_services)
            impl = node.deliver(data, dg)
            if dg:
                dup.record(op['mid'], impl)
            print(op['op'], msg['kind'], op['mid'], '->', impl)
            if dg and was_known:
                if impl != 'skip' or node.dump(node.wsd._remote_services) != before:
                    ctx.fail('duplicate-acted-on', 'duplicate dispatched', {'ops': done + [op]})
            else:
                session_oracle(ctx, node, book, msg, impl, done + [op], rng)
        dup.own(node.own_ids(n_out))
        done.append(op)
    table_oracle(ctx, node, book, done)
    for f in ctx.failures:
        print(f['signature'], '-', f['detail'][:300])
    return bool(ctx.failures)
