"""C19 — with TLS configured no endpoint is advertised or contacted in plaintext (partial: decision logic).

Tie:
* translator (every run): a real provider and a real consumer talk over localhost sockets in a covering set of
  configurations; every message either side serialises is recorded (CreatedMessage.serialize), every address of an own
  endpoint found in them is mapped from its XML context to a model site (an unmapped context fails the translator);
  `mk_ssl_contexts` is run with / without CA file on the test certificates of the test-suite; the constructor table of
  `SdcConsumer.is_ssl_connection` is read -> Generated/TlsSites.lean;
* correspondence: ALL configurations of the model's configuration space (thorough; a covering part in quick): scheme and
  host kind of every observed address per site, TLS flag of every soap client either side creates (recording subclass
  of the configured soap client class), TLS-ness of the HTTP servers, refusal of a plaintext shared server; plus random
  event sequences (connect ok / SSLError, get_soap_client, stop_all) on a real SdcConsumer with a scripted soap client.
* oracle: no `http:` address of an own endpoint of a TLS-configured provider / TLS-connected enforced consumer in any
  message, no soap client without ssl_context there, CERT_REQUIRED on contexts built from a CA file.
"""
from __future__ import annotations

import logging
import os
import pathlib
import re
import ssl
import sys
import time
import types
from unittest import mock

import core

READY = True
MANIFEST = dict(
    technique='Lean 4 theorems over a transcribed decision model (finite configuration space decided completely, event '
              'sequences by induction); translator enumerates the address-producing sites dynamically from a real '
              'provider/consumer exchange over localhost; correspondence over all configurations',
    text='Theorems (Properties/C19.lean): provider with an SSL container => every address it writes (XAddrs, hosted EPRs, '
         'wsdl location, SubscriptionManager in SubscribeResponse and SubscriptionEnd) is https and every outgoing client '
         'has the TLS context, for all configurations; consumer with force_ssl_connect => for ANY sequence of connect '
         'attempts / client look-ups / stops every soap client has the TLS context and is_ssl_connection stays True (the '
         'only fall-back is optional mode, first connect); NotifyTo/EndTo are https whenever the event sink is accepted (a '
         'plaintext shared server is refused); contexts from a CA file are CERT_REQUIRED on both sides. Sites, verify modes '
         'and the constructor table are regenerated from the running code; all 216 configurations are compared with a real '
         'provider + consumer on localhost.',
    note='PARTIAL by nature: only the decision logic (which scheme is written, which context is handed to which client / '
         'server) is proved; that OpenSSL / http.client / aiohttp honour an SSLContext is trusted. Host name verification '
         'is switched off by mk_ssl_contexts (check_hostname=False) and not part of the property. One defect repaired in '
         '/repo (plaintext shared event-sink server accepted by a TLS-connected consumer).',
    ref='5 C19')
DRIVERS = ['drv_c19']
RULE = ('one case = one configuration (provider TLS, provider server, provider alt host, consumer mode, consumer server, '
        'consumer alt host) run on localhost, or one event sequence on a consumer; distinct by construction; non-trivial = '
        'at least one side has TLS configured')
TRUSTED = ['OpenSSL / ssl module: a connection made with an SSLContext is encrypted and verified as the context says',
           'http.client.HTTPSConnection / HTTPServer socket wrapping use the context they are given',
           'the async soap client (aiohttp) is covered only through its constructor argument']
ASSUMPTIONS = ['real sockets on 127.0.0.1; test certificates of the test-suite (self-signed, used as their own CA)',
               'provider with the synchronous subscription manager']

REPO = os.environ.get('VERIF_REPO', '/repo')
CERTS = pathlib.Path(REPO) / 'tests' / 'certificates'
MDIB_FILE = REPO + '/tests/mdib_tns.xml'
ALT = 'localhost'
SERVERS = ['own', 'plain', 'tls']
MODES = ['none', 'optional', 'enforced']
SITE_CTOR = {'xaddr': 'xaddr', 'hostedEpr': 'hostedEpr', 'wsdlLocation': 'wsdlLocation',
             'subscriptionManager': 'subscriptionManager', 'subscriptionEndManager': 'subscriptionEndManager',
             'notifyTo': 'notifyTo', 'endTo': 'endTo'}
PROVIDER_SITES = {'xaddr', 'hostedEpr', 'wsdlLocation', 'subscriptionManager', 'subscriptionEndManager'}
# XML context (path of local names below Header/Body, suffix match) -> model site | 'echo' (address of the peer copied
# into an addressing header) -- anything else that carries an own address is unmapped
CONTEXTS = [
    ('ProbeMatches/ProbeMatch/XAddrs', 'xaddr'),
    ('Hosted/EndpointReference/Address', 'hostedEpr'),
    ('MetadataSection/Location', 'wsdlLocation'),
    ('SubscribeResponse/SubscriptionManager/Address', 'subscriptionManager'),
    ('SubscriptionEnd/SubscriptionManager/Address', 'subscriptionEndManager'),
    ('Subscribe/Delivery/NotifyTo/Address', 'notifyTo'),
    ('Subscribe/EndTo/Address', 'endTo'),
    ('Header/To', 'echo'),
]
_env = {}


def env():
    if _env:
        return types.SimpleNamespace(**_env)
    if REPO not in sys.path:
        sys.path.insert(0, REPO)
    import sdc11073.definitions_sdc  # noqa: F401
    from sdc11073 import certloader
    from sdc11073.consumer import consumerimpl
    from sdc11073.consumer.consumerimpl import SdcConsumer
    from sdc11073.definitions_sdc import SdcV1Definitions
    from sdc11073.httpserver.httpserverimpl import HttpServerThreadBase
    from sdc11073.provider import provider_components_sync_factory
    from sdc11073.pysoap import msgfactory
    from sdc11073.pysoap.soapclient import SoapClient
    from tests import mockstuff
    logging.disable(logging.CRITICAL)
    import http.server
    http.server.BaseHTTPRequestHandler.log_message = lambda *a, **k: None   # requests refused by a server go to stderr otherwise
    _env.update(locals())
    return types.SimpleNamespace(**_env)


CYPHERS = 'ECDHE+AESGCM:ECDHE+CHACHA20:DHE+AESGCM'


def mk_container(ca=True, cyphers=None):
    e = env()
    return e.certloader.mk_ssl_contexts(CERTS / 'test_private_key.pem', CERTS / 'test_certificate.pem',
                                        CERTS / 'test_certificate.pem' if ca else None, cyphers=cyphers, ssl_passwd='password')


def all_configs():
    return [(a, b, c, d, e_, f) for a in (0, 1) for b in SERVERS for c in (0, 1) for d in MODES for e_ in SERVERS for f in (0, 1)]


# ------------------------------------------------------------------------------------------------ one configuration on localhost

_URL = re.compile(r'https?:[^\s"<>]+')


def _own_addresses(xml_bytes, ports):
    """(context path, scheme, host kind, owner) for every address of an own endpoint in the message"""
    from lxml import etree
    res = []
    try:
        root = etree.fromstring(xml_bytes)
    except etree.XMLSyntaxError:
        return res
    for el in root.iter():
        if not isinstance(el.tag, str):
            continue
        texts = [el.text or ''] + [str(v) for v in el.attrib.values()]
        for txt in texts:
            for m in _URL.finditer(txt):
                u = m.group(0)
                mm = re.match(r'^(https?):/*([^/:]+):(\d+)', u)
                if not mm:
                    continue
                scheme, host, port = mm.group(1), mm.group(2), int(mm.group(3))
                if port not in ports:
                    continue
                path = []
                cur = el
                while cur is not None and isinstance(cur.tag, str):
                    path.append(etree.QName(cur).localname)
                    cur = cur.getparent()
                path = '/'.join(reversed(path))
                kind = 'ip' if re.match(r'^\d+\.\d+\.\d+\.\d+$', host) else 'alt'
                res.append((path, scheme, kind, ports[port], '//' in u[:8]))
    return res


def classify(path):
    for suffix, site in CONTEXTS:
        if path.endswith(suffix):
            return site
    return None


def run_config(cfg):
    """run one configuration with a real provider and consumer on localhost; returns a picklable observation"""
    e = env()
    prov_tls, prov_server, prov_alt, mode, cons_server, cons_alt = cfg[:6]
    spelled_http = len(cfg) > 6 and cfg[6] == 'http'     # the application spells the provider address http://host:port/…
    obs = {'cfg': list(cfg), 'start': None, 'ssl': None, 'addresses': [], 'unmapped': [], 'cons_clients': [],
           'prov_clients': [], 'prov_server_tls': None, 'cons_server_tls': None, 'notes': []}
    messages = []
    orig_serialize = e.msgfactory.CreatedMessage.serialize

    def serialize(self, *a, **k):
        data = orig_serialize(self, *a, **k)
        messages.append((self.msg_factory, data if isinstance(data, bytes) else str(data).encode()))
        return data
    clients = {'prov': [], 'cons': []}
    factories = {}

    def recording(owner):
        class Rec(e.SoapClient):
            def __init__(self, netloc, *a, ssl_context=None, **k):
                clients[owner].append((netloc, ssl_context is not None))
                super().__init__(netloc, *a, ssl_context=ssl_context, **k)
        return Rec
    shared = []

    def mk_shared(kind):
        ctx = mk_container().server_context if kind == 'tls' else None
        srv = e.HttpServerThreadBase('127.0.0.1', ctx, ['gzip'], logging.getLogger('verif.c19'))
        srv.start()
        srv.started_evt.wait(10)
        shared.append(srv)
        return srv
    dev = cons = None
    t0 = time.time()
    with mock.patch.object(e.msgfactory.CreatedMessage, 'serialize', serialize):
        try:
            pc = e.provider_components_sync_factory()
            pc.soap_client_class = recording('prov')
            dev = e.mockstuff.SomeDevice.from_mdib_file(e.mockstuff.MockWsDiscovery('127.0.0.1'), None, MDIB_FILE,
                                                       ssl_context_container=mk_container() if prov_tls else None,
                                                       components=pc, alternative_hostname=ALT if prov_alt else None,
                                                       max_subscription_duration=10)
            factories['prov'] = dev.msg_factory
            dev.start_all(start_rtsample_loop=False,
                          shared_http_server=mk_shared(prov_server) if prov_server != 'own' else None)
            psrv = dev._http_server
            obs['prov_server_tls'] = bool(psrv._ssl_context)
            ports = {psrv.server_port: 'prov'}
            xaddrs = dev.get_xaddrs()
            for x in xaddrs:
                mm = re.match(r'^(https?)://([^/:]+):(\d+)', x)
                obs['addresses'].append(['xaddr', mm.group(1), 'ip' if mm.group(2)[0].isdigit() else 'alt', 'prov', 'get_xaddrs', True, 'prov'])
            cc = e.consumerimpl.default_components_factory() if hasattr(e.consumerimpl, 'default_components_factory') else None
            import copy
            cc = copy.deepcopy(e.consumerimpl.default_sdc_consumer_components_sync) if cc is None else cc
            cc.soap_client_class = recording('cons')
            try:
                address = xaddrs[0].replace('https://', 'http://') if spelled_http else xaddrs[0]
                cons = e.SdcConsumer(address, e.SdcV1Definitions, mk_container() if mode != 'none' else None,
                                     force_ssl_connect=(mode == 'enforced'), components=cc,
                                     alternative_hostname=ALT if cons_alt else None, socket_timeout=8)
                obs['init_ssl'] = cons.is_ssl_connection
                factories['cons'] = cons.msg_factory
                csrv_shared = mk_shared(cons_server) if cons_server != 'own' else None
                cons.start_all(shared_http_server=csrv_shared, fixed_renew_interval=None)
                obs['start'] = 'ok'
            except Exception as ex:  # noqa: BLE001
                obs['start'] = type(ex).__name__
                obs['notes'].append(repr(ex)[:200])
            if cons is not None:
                obs['ssl'] = cons.is_ssl_connection
                obs['got_metadata'] = cons.host_description is not None     # then the hosted services were addressed
                if cons._http_server is not None:
                    obs['cons_server_tls'] = bool(cons._http_server._ssl_context)
                    if cons._http_server.server_port is not None:
                        ports[cons._http_server.server_port] = 'cons'
            if obs['start'] == 'ok':
                try:
                    cons.send_probe()
                except Exception as ex:  # noqa: BLE001
                    obs['notes'].append('probe: ' + type(ex).__name__)
                # an operation: request, notifications from the provider to NotifyTo
                try:
                    fut = cons.client('Set').set_string('SET_NTP_SRV_mds0', '169.254.0.199')
                    res = fut.result(timeout=4)
                    obs['op'] = res.InvocationInfo.InvocationState.value
                except Exception as ex:  # noqa: BLE001
                    obs['op'] = type(ex).__name__
                # renew / status of every subscription, unsubscribe one
                subs = list(cons._subscription_mgr.subscriptions.values())
                for s in subs:
                    try:
                        s.renew(30)
                        s.get_status()
                    except Exception as ex:  # noqa: BLE001
                        obs['notes'].append('renew: ' + type(ex).__name__)
                if subs:
                    try:
                        subs[-1].unsubscribe()
                    except Exception as ex:  # noqa: BLE001
                        obs['notes'].append('unsubscribe: ' + type(ex).__name__)
                obs['subscribed'] = sum(1 for s in subs if s.is_subscribed)
                # requests a peer may send: the hosted services called under an alias name (Host header = alias), and a
                # Subscribe whose wsa:To names the event source with the OTHER scheme (addresses in headers are peer input)
                try:
                    alias_client = cons.get_soap_client(f'{xaddrs[0].split(":")[0]}://{ALT}:{psrv.server_port}/')
                    obs['alias_client'] = True
                    from urllib.parse import urlparse as _urlparse

                    from sdc11073.xml_types import mex_types
                    from sdc11073.xml_types.addressing_types import HeaderInformationBlock
                    for hosted_ in cons.host_description.relationship.Hosted:
                        address_ = hosted_.EndpointReference[0].Address
                        payload_ = mex_types.GetMetadata()      # what HostedServiceDescription.read_metadata sends
                        inf_ = HeaderInformationBlock(action=payload_.action, addr_to=address_)
                        alias_client.post_message_to(_urlparse(address_).path, cons.msg_factory.mk_soap_message(inf_, payload=payload_),
                                                     msg='verif alias GetMetadata')
                except Exception as ex:  # noqa: BLE001
                    obs['notes'].append('alias metadata: ' + type(ex).__name__)
                try:
                    import copy as _copy

                    from sdc11073.consumer.subscription import ConsumerSubscription
                    from sdc11073.xml_types import eventing_types
                    from sdc11073.xml_types.dpws_types import DeviceEventingFilterDialectURI
                    hosted = next(h for h in cons.host_description.relationship.Hosted if any(t.localname == 'StateEventService' for t in h.Types))
                    hosted2 = _copy.deepcopy(hosted)
                    addr = hosted2.EndpointReference[0].Address
                    hosted2.EndpointReference[0].Address = ('http://' + addr[8:]) if addr.startswith('https://') else ('https://' + addr[7:])
                    flt = eventing_types.FilterType()
                    flt.text = dev.mdib.sdc_definitions.Actions.EpisodicAlertReport
                    flt.Dialect = DeviceEventingFilterDialectURI.ACTION
                    sub2 = ConsumerSubscription(cons.msg_factory, cons.sdc_definitions.data_model, cons.get_soap_client, hosted2, flt,
                                                cons.base_url + 'verif_n', cons.base_url + 'verif_e', 'verif')
                    sub2.subscribe(expires=30)
                    obs['other_scheme_subscribe'] = bool(sub2.is_subscribed)
                    sub2.unsubscribe()
                except Exception as ex:  # noqa: BLE001
                    obs['notes'].append('other-scheme subscribe: ' + type(ex).__name__)
                if mode == 'enforced':
                    # the whole life of an enforcing consumer: restart (= stop_all + start_all with the same parameters)
                    try:
                        cons.restart()
                        obs['restart'] = 'ok'
                    except Exception as ex:  # noqa: BLE001
                        obs['restart'] = type(ex).__name__
                    obs['ssl'] = cons.is_ssl_connection
                    if cons._http_server is not None and cons._http_server.server_port is not None:
                        ports[cons._http_server.server_port] = 'cons'
                        obs['cons_server_tls'] = bool(cons._http_server._ssl_context)
            # shutdown: the provider ends the remaining subscriptions (SubscriptionEnd to EndTo), then the consumer stops
            try:
                dev.stop_all(send_subscription_end=True)
            except Exception as ex:  # noqa: BLE001
                obs['notes'].append('provider stop: ' + type(ex).__name__)
            dev = None
            if cons is not None:
                try:
                    cons.stop_all(unsubscribe=False)
                except Exception as ex:  # noqa: BLE001
                    obs['notes'].append('consumer stop: ' + type(ex).__name__)
        except Exception as ex:  # noqa: BLE001
            obs['start'] = 'harness:' + type(ex).__name__
            import traceback
            obs['notes'].append(traceback.format_exc()[-800:])
        finally:
            if dev is not None:
                try:
                    dev.stop_all(send_subscription_end=False)
                except Exception:  # noqa: BLE001
                    pass
            for srv in shared:
                try:
                    srv.stop()
                except Exception:  # noqa: BLE001
                    pass
    prov_factory = factories.get('prov')
    cons_factory = factories.get('cons')
    for factory, data in messages:
        author = 'prov' if factory is prov_factory else ('cons' if factory is cons_factory else '?')
        for path, scheme, kind, owner, wellformed in _own_addresses(data, ports if 'ports' in dir() else {}):
            site = classify(path)
            if site is None:
                obs['unmapped'].append([path, scheme, owner])
            else:
                obs['addresses'].append([site, scheme, kind, owner, path, wellformed, author])
    obs['cons_clients'] = [int(t) for _, t in clients['cons']]
    obs['prov_clients'] = [int(t) for _, t in clients['prov']]
    obs['n_messages'] = len(messages)
    obs['wall'] = round(time.time() - t0, 2)
    return obs


def _run_config_safe(cfg):
    try:
        return run_config(cfg)
    except Exception as ex:  # noqa: BLE001
        import traceback
        return {'cfg': list(cfg), 'start': 'harness:' + type(ex).__name__, 'notes': [traceback.format_exc()[-800:]],
                'addresses': [], 'unmapped': [], 'cons_clients': [], 'prov_clients': [], 'ssl': None}


def run_configs(cfgs, procs):
    if procs <= 1:
        return [_run_config_safe(c) for c in cfgs]
    import multiprocessing
    with multiprocessing.get_context('fork').Pool(procs) as pool:
        return pool.map(_run_config_safe, cfgs, chunksize=1)


def covering_configs(seed):
    """all (provider TLS x consumer mode x consumer server) combinations, the other three dimensions rotated"""
    res = []
    i = seed
    for a in (0, 1):
        for d in MODES:
            for e_ in SERVERS:
                i += 1
                # a provider server that speaks what the provider advertises, so that the exchange gets as far as possible
                res.append((a, (('own', 'tls') if a else ('own', 'plain'))[i % 2], (i // 3) % 2, d, e_, (i // 2) % 2))
    # mismatching provider servers, and both alt host names with TLS everywhere
    res += [(1, 'tls', 1, 'enforced', 'tls', 1), (1, 'plain', 0, 'enforced', 'own', 0), (0, 'tls', 0, 'optional', 'own', 1),
            (1, 'own', 1, 'enforced', 'own', 1), (1, 'own', 0, 'enforced', 'plain', 0), (0, 'plain', 0, 'optional', 'own', 0)]
    # the provider address spelled http://… by the application although the provider speaks TLS
    res += [(1, 'own', 0, 'enforced', srv, 0, 'http') for srv in SERVERS] + [(1, 'tls', 1, 'optional', 'plain', seed % 2, 'http')]
    return sorted(set(res))


def spelled_configs():
    return [(1, b, 0, d, e_, f, 'http') for b in ('own', 'tls') for d in ('optional', 'enforced') for e_ in SERVERS for f in (0, 1)]


# ------------------------------------------------------------------------------------------------ wire level: delivery to an http:// subscriber

def run_delivery(args):
    """provider (TLS or not, sync or async subscription manager) + a subscription whose NotifyTo / EndTo name a plain
    TCP socket with the http scheme; returns what arrived at that socket"""
    prov_tls, use_async = args
    e = env()
    import socket
    import threading
    from decimal import Decimal

    from sdc11073.consumer.subscription import ConsumerSubscription
    from sdc11073.provider import provider_components_async_factory
    from sdc11073.xml_types import eventing_types
    from sdc11073.xml_types.dpws_types import DeviceEventingFilterDialectURI
    obs = {'prov_tls': prov_tls, 'async': use_async, 'first_bytes': [], 'error': None}
    srv = socket.socket()
    srv.bind(('127.0.0.1', 0))
    srv.listen(16)
    srv.settimeout(0.5)
    stop = threading.Event()

    def sink():
        while not stop.is_set():
            try:
                conn, _ = srv.accept()
            except OSError:
                continue
            conn.settimeout(1.5)
            data = b''
            try:
                while len(data) < 600:
                    chunk = conn.recv(4096)
                    if not chunk:
                        break
                    data += chunk
            except OSError:
                pass
            obs['first_bytes'].append(data[:600])
            try:
                conn.close()
            except OSError:
                pass
    th = threading.Thread(target=sink, daemon=True)
    th.start()
    port = srv.getsockname()[1]
    dev = cons = None
    try:
        comps = provider_components_async_factory() if use_async else e.provider_components_sync_factory()
        dev = e.mockstuff.SomeDevice.from_mdib_file(e.mockstuff.MockWsDiscovery('127.0.0.1'), None, MDIB_FILE,
                                                   ssl_context_container=mk_container() if prov_tls else None,
                                                   components=comps, max_subscription_duration=10)
        dev.start_all(start_rtsample_loop=False)
        cons = e.SdcConsumer(dev.get_xaddrs()[0], e.SdcV1Definitions, mk_container() if prov_tls else None,
                             force_ssl_connect=bool(prov_tls), socket_timeout=8)
        cons.start_all(fixed_renew_interval=None)
        action = dev.mdib.sdc_definitions.Actions.EpisodicMetricReport
        hosted = next(h for h in cons.host_description.relationship.Hosted if any(t.localname == 'StateEventService' for t in h.Types))
        flt = eventing_types.FilterType()
        flt.text = action
        flt.Dialect = DeviceEventingFilterDialectURI.ACTION
        sub = ConsumerSubscription(cons.msg_factory, cons.sdc_definitions.data_model, cons.get_soap_client, hosted, flt,
                                   f'http://127.0.0.1:{port}/sink/notify', f'http://127.0.0.1:{port}/sink/end', 'verif')
        sub.subscribe(expires=60)
        obs['subscribed'] = bool(sub.is_subscribed)
        try:
            with dev.mdib.metric_state_transaction() as mgr:
                st = mgr.get_state('numeric.ch0.vmd1')
                if st.MetricValue is None:
                    st.mk_metric_value()
                st.MetricValue.Value = Decimal(42)
        except Exception as ex:  # noqa: BLE001
            obs['commit_exception'] = type(ex).__name__    # the synchronous manager lets the failed handshake escape
        t_end = time.time() + 8
        while time.time() < t_end and not obs['first_bytes']:
            time.sleep(0.05)
        time.sleep(0.5)
        obs['after_report'] = len(obs['first_bytes'])
    except Exception as ex:  # noqa: BLE001
        import traceback
        obs['error'] = traceback.format_exc()[-600:]
    finally:
        try:
            if dev is not None:
                dev.stop_all(send_subscription_end=True)      # SubscriptionEnd goes to the EndTo address
        except Exception:  # noqa: BLE001
            pass
        try:
            if cons is not None:
                cons.stop_all(unsubscribe=False)
        except Exception:  # noqa: BLE001
            pass
        time.sleep(0.3)
        stop.set()
        th.join(2)
        srv.close()
    obs['connections'] = len(obs['first_bytes'])
    obs['plaintext'] = [b[:80].decode('latin1') for b in obs['first_bytes'] if b[:5] in (b'POST ', b'GET  ') or b'Envelope' in b or b'HTTP/1.' in b[:200]]
    obs['tls_hello'] = sum(1 for b in obs['first_bytes'] if b[:2] == b'\x16\x03')
    obs['first_bytes'] = [b[:24].hex() for b in obs['first_bytes']]
    return obs


def check_delivery(ctx, observations, out_lines):
    for obs, model in zip(observations, out_lines):
        case = {'delivery': [obs['prov_tls'], obs['async']]}
        if obs.get('error') or not obs.get('connections'):
            raise RuntimeError(f'delivery scenario {case} did not reach the sink: {obs}')
        plain = bool(obs['plaintext'])
        if obs['prov_tls'] and plain:
            ctx.fail('tls:provider-delivers-in-plaintext:' + ('async' if obs['async'] else 'sync'),
                     f"provider with TLS ({'async' if obs['async'] else 'sync'} subscription manager) sent to the http:// "
                     f"NotifyTo/EndTo of a subscriber in plaintext: {obs['plaintext'][:2]}", case)
        if model is not None and (model == '1') == plain:
            ctx.disagree('notification delivery uses TLS', case, model, f"plaintext={plain} tls_hello={obs['tls_hello']}")
        _case(ctx, case, nontrivial=bool(obs['prov_tls']),
              sample={'delivery to http:// NotifyTo': case['delivery'], 'connections': obs['connections'],
                      'TLS client hellos': obs['tls_hello'], 'plaintext': obs['plaintext'][:1]} if obs['prov_tls'] and obs['async'] else None)
        ctx.count(f"delivery:tls={obs['prov_tls']}:async={obs['async']}:plaintext={int(plain)}")


# ------------------------------------------------------------------------------------------------ checks on one observation

def _case(ctx, canon, nontrivial=True, sample=None):
    saved = ctx.max_samples
    if sample is None:
        ctx.max_samples = 0
    ctx.case(canon, nontrivial, sample)
    ctx.max_samples = saved


def ssl_letter(v):
    return {True: 'T', False: 'F', None: 'N'}[v]


def oracle(ctx, obs):
    cfg = tuple(obs['cfg'])
    prov_tls, prov_server, prov_alt, mode, cons_server, cons_alt = cfg[:6]
    case = {'config': list(cfg)}
    if prov_tls:
        # every address of an own endpoint in every message the provider serialised (whatever the XML context)
        bad = [a for a in obs['addresses'] if a[3] == 'prov' and a[1] != 'https' and a[6] in ('prov', '?')]
        if bad:
            ctx.fail('tls:provider-advertises-plaintext:' + bad[0][0], f'provider with TLS writes {bad[0][1]} address at {bad[0][4]}', case)
        if any(t == 0 for t in obs['prov_clients']):
            ctx.fail('tls:provider-plaintext-client', f'provider with TLS created soap clients {obs["prov_clients"]}', case)
    if mode == 'enforced':
        if any(t == 0 for t in obs['cons_clients']):
            ctx.fail('tls:enforced-consumer-plaintext-client', f'consumer with force_ssl_connect created soap clients {obs["cons_clients"]}', case)
        if obs.get('ssl') is not True and obs.get('ssl') is not None:
            ctx.fail('tls:enforced-consumer-fell-back', f'is_ssl_connection = {obs.get("ssl")}', case)
        bad = [a for a in obs['addresses'] if a[3] == 'cons' and a[1] != 'https' and a[6] in ('cons', '?')]
        if bad:
            ctx.fail('tls:enforced-consumer-advertises-plaintext:' + bad[0][0],
                     f'consumer with force_ssl_connect writes {bad[0][1]} address at {bad[0][4]} (event sink server: {cons_server})', case)


def model_lines(obs):
    cfg = obs['cfg']
    prov_tls, prov_server, prov_alt, mode, cons_server, cons_alt = cfg[:6]
    # the TLS handshake succeeds iff the provider's server speaks TLS; a refused handshake is an ssl.SSLError unless the
    # socket layer reported something else (time-out under load): then nothing was decided (is_ssl_connection unchanged)
    ok = '1' if obs.get('prov_server_tls') else '0'
    if ok == '0' and obs.get('init_ssl') is None and obs.get('ssl') is None and obs['start'] not in ('ok', 'SSLError'):
        ok = 'x'
    evs = f'c{ok}'
    if obs.get('got_metadata'):
        evs += ' g1' if prov_alt else ' g0'     # the hosted services are addressed by ip, the device by the x-addr
    if obs.get('alias_client'):
        evs += ' g0' if prov_alt else ' g2'     # the alias name is the x-addr's netloc when the provider advertises it
    if obs.get('restart'):
        evs += f' s c{ok}' + (' g1' if prov_alt else ' g0')
    spelling = 'http' if len(cfg) > 6 and cfg[6] == 'http' else 'https'
    return [f"crun {mode} {evs}", f"accept {cons_server} {ssl_letter(obs.get('ssl'))} {spelling}",
            f"sites {prov_tls} {prov_server} {prov_alt} {mode} {cons_server} {cons_alt} {ssl_letter(obs.get('ssl'))}"]


def compare(ctx, obs, out):
    cfg = obs['cfg']
    case = {'config': cfg}
    # ---- consumer clients + is_ssl_connection
    m = re.match(r'ssl=(\w) clients=\[([01 ]*)\]', out[0])
    model_ssl, model_clients = m.group(1), [int(x) for x in m.group(2).split()]
    if obs.get('ssl', 'x') != 'x' and obs.get('init_ssl', 'x') != 'x':
        if ssl_letter(obs['ssl']) != model_ssl or obs['cons_clients'] != model_clients:
            ctx.disagree('consumer: is_ssl_connection and TLS flags of the soap clients created', case,
                         f'ssl={model_ssl} clients={model_clients}', f"ssl={ssl_letter(obs['ssl'])} clients={obs['cons_clients']}")
    # ---- sites
    fields = dict(f.split('=') for f in out[1].split())
    for site, scheme, kind, owner, path, wellformed, author in obs['addresses']:
        if site == 'echo' or (author != owner and author != '?'):
            continue    # an address of the peer copied into a request (header or body) is the peer's input, not a site
        want = fields[site]
        if want != f'{scheme}/{kind}':
            ctx.disagree(f'address at site {site}', {**case, 'context': path}, want, f'{scheme}/{kind}')
            break
    accept_model = fields['accept'] == '1' and out[2] == '1'
    refused = obs['start'] == 'ValueError' and any('Shared http server' in n for n in obs.get('notes', []))
    if obs.get('ssl') is True and obs['start'] in ('ok', 'ValueError') and accept_model == refused:
        ctx.disagree('event sink accepted', case, accept_model, not refused)
    if obs['prov_clients'] and any(t != int(fields['provClient']) for t in obs['prov_clients']):
        ctx.disagree('provider soap clients TLS flag', case, fields['provClient'], obs['prov_clients'])
    if obs.get('prov_server_tls') is not None and int(obs['prov_server_tls']) != int(fields['provServer']):
        ctx.disagree('provider server TLS', case, fields['provServer'], obs['prov_server_tls'])
    if obs.get('cons_server_tls') is not None and int(obs['cons_server_tls']) != int(fields['consServer']):
        ctx.disagree('consumer server TLS', case, fields['consServer'], obs['cons_server_tls'])


# ------------------------------------------------------------------------------------------------ event sequences on a consumer

def consumer_events(ctx, model_cases, only=None):
    """random sequences of connect(ok/SSLError) / get_soap_client / stop_all on a real SdcConsumer with a scripted client"""
    e = env()
    rng = ctx.subrng('events')
    container = mk_container()

    class Scripted:
        script = []
        created = []

        def __init__(self, netloc, *a, ssl_context=None, **k):
            Scripted.created.append(int(ssl_context is not None))
            self.has_ctx = ssl_context is not None
            self.sock = types.SimpleNamespace(getpeercert=lambda binary_form=False: {})
            self.sock_name = ('127.0.0.1', 1)

        def connect(self):
            ok = Scripted.script.pop(0) if Scripted.script else '1'
            if self.has_ctx and ok == '0':
                raise ssl.SSLError('verif: handshake refused')
            if self.has_ctx and ok == 'x':
                raise TimeoutError('verif: handshake timed out')

        def close(self):
            pass

        def is_closed(self):
            return False
    import copy
    n = ctx.n(150, 1500)
    fixed = [('enforced', ['c1', 's', 'c0', 'g0']), ('enforced', ['c1', 'g1', 's', 'c0', 's', 'cx', 'c0', 'g2']),
             ('enforced', ['s', 'c0']), ('optional', ['c1', 's', 'c0', 'g0']), ('optional', ['c0', 's', 'c1'])]
    if only is not None:
        fixed, n = only, 0
    for k in range(n + len(fixed)):
        mode = rng.choice(MODES)
        script = None
        if k < len(fixed):
            mode, script = fixed[k]
        cc = copy.deepcopy(e.consumerimpl.default_sdc_consumer_components_sync) if hasattr(e.consumerimpl, 'default_sdc_consumer_components_sync') else e.consumerimpl.default_components_factory()
        cc.soap_client_class = Scripted
        cons = e.SdcConsumer('https://127.0.0.1:9/x', e.SdcV1Definitions, container if mode != 'none' else None,
                             force_ssl_connect=(mode == 'enforced'), components=cc)
        Scripted.created = []
        evs = []
        for step_no in range(len(script) if script else rng.randint(1, 8)):
            x = rng.random()
            forced = script[step_no] if script else None
            if forced:
                x = 0.0 if forced[0] == 'c' else (0.5 if forced[0] == 'g' else 0.9)
            if x < 0.45:
                ok = forced[1] if forced else rng.choice(['1', '0', '0', 'x'])
                Scripted.script = [ok, '1']
                try:
                    cons._connect()
                except (ssl.SSLError, TimeoutError):
                    pass
                evs.append('c' + ok)
            elif x < 0.75:
                n = int(forced[1:]) if forced else rng.randrange(3)
                # the address may come from the metadata of a mis-configured / malicious provider: plain http scheme
                cons.get_soap_client(f"{rng.choice(['https', 'http'])}://127.0.0.1:{9 + n}/other/path")
                evs.append(f'g{n}')
            else:
                cons.stop_all(unsubscribe=rng.random() < 0.5)     # the real stop_all (restart = stop_all + start_all)
                evs.append('s')
        impl = f"ssl={ssl_letter(cons.is_ssl_connection)} clients=[{' '.join(map(str, Scripted.created))}]"
        case = {'consumer-events': [mode] + evs}
        if mode == 'enforced' and (0 in Scripted.created or cons.is_ssl_connection is not True):
            ctx.fail('tls:enforced-consumer-plaintext-client',
                     f'events {evs} (c1/c0/cx = connect ok / ssl.SSLError / other error, g = get_soap_client, s = stop_all): '
                     f'TLS flags of the clients created {Scripted.created}, is_ssl_connection {cons.is_ssl_connection}', case)
        model_cases.append((case, f"crun {mode} " + ' '.join(evs), impl))
        _case(ctx, case, nontrivial=mode != 'none', sample={**case, 'impl': impl} if k == 3 else None)
        ctx.count('events:' + mode)


# ------------------------------------------------------------------------------------------------ translator

def verify_table():
    res = []
    for ca in (False, True):
        for cy in (False, True):
            c = mk_container(ca, CYPHERS if cy else None)
            res.append((False, ca, cy, c.client_context.verify_mode))
            res.append((True, ca, cy, c.server_context.verify_mode))
    return res


VM_NAME = {ssl.CERT_NONE: 'CERT_NONE', ssl.CERT_OPTIONAL: 'CERT_OPTIONAL', ssl.CERT_REQUIRED: 'CERT_REQUIRED'}


def folder_table():
    """mk_ssl_contexts_from_folder on real folders: every combination of key / certificate / CA file present, CA named"""
    import shutil
    import tempfile
    e = env()
    res = []
    for key in (False, True):
        for cert in (False, True):
            for named, present, cy in [(n_, p_, c_) for n_ in (False, True) for p_ in (False, True) for c_ in (False, True)]:
                if True:
                    d = tempfile.mkdtemp(prefix='verif_c19_')
                    try:
                        if key:
                            shutil.copy(CERTS / 'test_private_key.pem', os.path.join(d, 'userkey.pem'))
                        if cert:
                            shutil.copy(CERTS / 'test_certificate.pem', os.path.join(d, 'usercert.pem'))
                        if present:
                            shutil.copy(CERTS / 'test_certificate.pem', os.path.join(d, 'cacert.pem'))
                        if cy:
                            with open(os.path.join(d, 'cyphers.txt'), 'w') as f:
                                f.write('# cyphers of the installation\n' + CYPHERS + '\n')
                        try:
                            kw = {} if named else {'ca_public_key': None}     # default: ca_public_key='cacert.pem'
                            if cy:
                                kw['cyphers_file'] = 'cyphers.txt'
                            c = e.certloader.mk_ssl_contexts_from_folder(d, ssl_passwd='password', **kw)
                            out = (VM_NAME[c.client_context.verify_mode], VM_NAME[c.server_context.verify_mode])
                        except Exception as ex:  # noqa: BLE001
                            out = type(ex).__name__
                    finally:
                        shutil.rmtree(d, ignore_errors=True)
                    res.append((key, cert, named, present, cy, out))
    return res


def init_table():
    e = env()
    container = mk_container()
    res = []
    for mode in MODES:
        cons = e.SdcConsumer('https://127.0.0.1:9/x', e.SdcV1Definitions, container if mode != 'none' else None,
                             force_ssl_connect=(mode == 'enforced'))
        res.append((mode, cons.is_ssl_connection))
    return res


_translate_obs = {}


def translate(ctx):
    # two full exchanges (TLS everywhere with alternative host names / plaintext) give the set of address sites
    cfgs = [(1, 'own', 1, 'enforced', 'own', 1), (0, 'own', 0, 'none', 'own', 0)]
    observations = run_configs(cfgs, 2)
    for o in observations:
        _translate_obs[tuple(o['cfg'])] = o
    sites, unmapped = [], []
    for o in observations:
        if o['start'] != 'ok':
            raise RuntimeError(f"translator: reference configuration {o['cfg']} did not start: {o['start']} {o.get('notes')}")
        unmapped += o['unmapped']
        for a in o['addresses']:
            if a[0] != 'echo' and a[0] not in sites:
                sites.append(a[0])
    if unmapped:
        raise RuntimeError(f'translator: address of an own endpoint in an unmapped XML context: {unmapped[:3]}')
    order = list(SITE_CTOR)
    sites.sort(key=order.index)
    vm = {ssl.CERT_NONE: '.certNone', ssl.CERT_OPTIONAL: '.certOptional', ssl.CERT_REQUIRED: '.certRequired'}
    vt = ', '.join(f"({str(s).lower()}, {str(c).lower()}, {str(y).lower()}, {vm[m]})" for s, c, y, m in verify_table())
    it = ', '.join(f"(.{m}, {'none' if v is None else 'some ' + str(v).lower()})" for m, v in init_table())
    vname = {'CERT_NONE': '.certNone', 'CERT_OPTIONAL': '.certOptional', 'CERT_REQUIRED': '.certRequired'}

    def fres(out):
        if out == 'FileNotFoundError':
            return '.fileNotFound'
        if isinstance(out, tuple):
            return f'.contexts {vname[out[0]]} {vname[out[1]]}'
        raise RuntimeError(f'translator: mk_ssl_contexts_from_folder ended with {out}')
    ft = ',\n  '.join(f"({str(k).lower()}, {str(c).lower()}, {str(n).lower()}, {str(p_).lower()}, {str(y).lower()}, {fres(o)})"
                       for k, c, n, p_, y, o in folder_table())
    src = ('import SdcModel.Tls\n/-! generated by harness/props/c19.py from the running code — do not edit -/\n'
           'namespace Sdc.Generated.C19\nopen Sdc.Tls\n'
           '/-- sites (XML contexts mapped to model sites) at which an address of an own endpoint was found in a serialised message -/\n'
           f"def observedSites : List Site := [{', '.join('.' + SITE_CTOR[s] for s in sites)}]\n"
           '/-- `(server?, caFile?, cyphers?, verify_mode)` of the contexts made by `mk_ssl_contexts` -/\n'
           f'def verifyObserved : List (Bool × Bool × Bool × Verify) := [{vt}]\n'
           '/-- `is_ssl_connection` after the `SdcConsumer` constructor -/\n'
           f'def initSslObserved : List (ConsMode × Option Bool) := [{it}]\n'
           '/-- `(key present, certificate present, CA file named, CA file present, cyphers file, result)` of `mk_ssl_contexts_from_folder` -/\n'
           f'def folderObserved : List (Bool × Bool × Bool × Bool × Bool × FolderResult) := [\n  {ft}]\n'
           'end Sdc.Generated.C19\n')
    core.write_if_changed(core.GENERATED + '/TlsSites.lean', src)


# ------------------------------------------------------------------------------------------------ run

def run(ctx):
    env()
    # ---- CA file => CERT_REQUIRED (oracle) and the model's verify table
    lines, expect = [], []
    for server, ca, cy, mode in verify_table():
        if ca and mode != ssl.CERT_REQUIRED:
            ctx.fail('tls:ca-file-without-cert-required', f"{'server' if server else 'client'} context from a CA file"
                     f"{' and a cyphers string' if cy else ''} has verify_mode {mode!r}", {'verify': [server, ca, cy]})
        lines.append(f'verify {int(server)} {int(ca)} {int(cy)}')
        expect.append({ssl.CERT_NONE: 'CERT_NONE', ssl.CERT_OPTIONAL: 'CERT_OPTIONAL', ssl.CERT_REQUIRED: 'CERT_REQUIRED'}[mode])
    for mode, v in init_table():
        lines.append(f'init {mode}')
        expect.append(ssl_letter(v))
    for key, cert, named, present, cy, out in folder_table():
        case = {'folder': [key, cert, named, present, cy]}
        if named and isinstance(out, tuple) and out != ('CERT_REQUIRED', 'CERT_REQUIRED'):
            ctx.fail('tls:ca-file-missing-degrades' if not present else 'tls:ca-file-without-cert-required',
                     f"mk_ssl_contexts_from_folder with a CA file named ({'present' if present else 'MISSING in the folder'}) "
                     f'returned contexts with verify modes client={out[0]} server={out[1]}', case)
        lines.append(f'folder {int(key)} {int(cert)} {int(named)} {int(present)} {int(cy)}')
        expect.append(out if isinstance(out, str) else ' '.join(out))
        _case(ctx, case, nontrivial=named, sample={**case, 'result': out} if (key, cert, named, present, cy) == (True, True, True, False, False) else None)
        ctx.count('folder:' + (out if isinstance(out, str) else 'contexts'))
    # ---- configurations on localhost
    cfgs = (all_configs() + spelled_configs()) if ctx.tier == 'thorough' else covering_configs(ctx.seed)
    t0 = time.time()
    todo = [c for c in cfgs if tuple(c) not in _translate_obs]
    observations = [_translate_obs[tuple(c)] for c in cfgs if tuple(c) in _translate_obs]
    observations += run_configs(todo, 8 if ctx.tier == 'thorough' else 6)
    ctx.notes['t_configs_s'] = round(time.time() - t0, 1)
    ctx.exhaustive = ctx.tier == 'thorough'
    per_obs = []
    for obs in observations:
        cfg = tuple(obs['cfg'])
        case = {'config': list(cfg)}
        if str(obs['start']).startswith('harness:'):
            raise RuntimeError(f"configuration {cfg}: {obs['notes']}")
        if obs['unmapped']:
            ctx.disagree('address of an own endpoint in an unmapped XML context', case, None, obs['unmapped'][:3])
        oracle(ctx, obs)
        ml = model_lines(obs)
        per_obs.append((obs, len(lines)))
        lines += ml
        expect += [None, None, None]
        sites = sorted({a[0] for a in obs['addresses'] if a[0] != 'echo'})
        _case(ctx, case, nontrivial=bool(cfg[0]) or cfg[3] != 'none',
              sample={'config': list(cfg), 'start': obs['start'], 'is_ssl_connection': obs.get('ssl'), 'sites': sites,
                         'consumer clients': obs['cons_clients'], 'provider clients': obs['prov_clients']}
                 if cfg in ((1, 'own', 1, 'enforced', 'own', 1), (0, 'plain', 0, 'optional', 'own', 0), (1, 'own', 0, 'enforced', 'plain', 0)) else None)
        ctx.count('start:' + str(obs['start']))
        ctx.count(f"consumer-clients:{obs['cons_clients']}")
        for s in sites:
            ctx.count('site:' + s)
    # ---- wire level: notifications to a subscriber that named an http:// address
    t0 = time.time()
    deliveries = [(1, 1), (1, 0), (0, 1), (0, 0)] if ctx.tier == 'thorough' else [(1, 1), (1, 0), (0, ctx.seed % 2)]
    import multiprocessing
    with multiprocessing.get_context('fork').Pool(4) as pool:
        dobs = pool.map(run_delivery, deliveries, chunksize=1)
    ctx.notes['t_delivery_s'] = round(time.time() - t0, 1)
    dbase = len(lines)
    lines += [f'delivery {a} http {b}' for a, b in deliveries]
    expect += [None] * len(deliveries)
    # ---- event sequences
    model_cases = []
    consumer_events(ctx, model_cases)
    base = len(lines)
    lines += [m[1] for m in model_cases]
    if ctx.driver_ok:
        out = ctx.driver('drv_c19', lines)
        for i, exp in enumerate(expect):
            if exp is not None and out[i] != exp:
                ctx.disagree('verify mode / constructor table', {'line': lines[i]}, out[i], exp)
        for obs, pos in per_obs:
            compare(ctx, obs, [out[pos], out[pos + 2], out[pos + 1]])
        check_delivery(ctx, dobs, out[dbase:dbase + len(deliveries)])
        for (case, line, impl), o in zip(model_cases, out[base:]):
            if o != impl:
                ctx.disagree('consumer event sequence: is_ssl_connection and clients created', case, o, impl)
    if not ctx.driver_ok:
        check_delivery(ctx, dobs, [None] * len(deliveries))
    ctx.notes['explanation'] = ('thorough: all 216 configurations on localhost; quick: every (provider TLS x consumer mode x '
                                'event-sink server) combination with the other dimensions rotated by the seed')


def search(ctx):
    """deeper search: every configuration with TLS somewhere"""
    cfgs = [c for c in all_configs() + spelled_configs() if (c[0] or c[3] == 'enforced')]
    for obs in run_configs(cfgs, 8):
        oracle(ctx, obs)
        if ctx.failures:
            return


def replay(ctx, obj):
    case = obj['case']
    before = len(ctx.failures)
    if 'config' in case:
        obs = _run_config_safe(tuple(case['config']))
        print({k: obs.get(k) for k in ('cfg', 'start', 'ssl', 'cons_clients', 'prov_clients', 'notes')})
        print(sorted({(a[0], a[1], a[3]) for a in obs['addresses']}))
        oracle(ctx, obs)
    elif 'consumer-events' in case:
        mc = []
        consumer_events(ctx, mc, only=[(case['consumer-events'][0], case['consumer-events'][1:])])
        print(mc[0][1], '->', mc[0][2])
    elif 'delivery' in case:
        obs = run_delivery(tuple(case['delivery']))
        print({k: obs.get(k) for k in ('connections', 'tls_hello', 'plaintext', 'error')})
        check_delivery(ctx, [obs], [None])
    elif 'folder' in case:
        key, cert, named, present, cy = (list(case['folder']) + [False])[:5]
        out = [o for k, c, n, p_, y, o in folder_table() if (k, c, n, p_, y) == (key, cert, named, present, cy)][0]
        print('mk_ssl_contexts_from_folder ->', out)
        return bool(named and isinstance(out, tuple) and out != ('CERT_REQUIRED', 'CERT_REQUIRED'))
    elif 'verify' in case:
        server, ca, cy = (list(case['verify']) + [False])[:3]
        c = mk_container(ca, CYPHERS if cy else None)
        return (c.server_context if server else c.client_context).verify_mode != ssl.CERT_REQUIRED
    for f in ctx.failures[before:]:
        print(f['signature'], '-', f['detail'])
    return len(ctx.failures) > before
