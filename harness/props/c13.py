"""C13 — request handling is total: any input gets a response; no hang, crash or XXE.  (partial: libxml2 + handler bodies trusted)

Model: lean/SdcModel/RequestFlow.lean (try/except skeleton of MessageConverterMiddleware.do_post/do_get and
DispatchingRequestHandler.do_POST/do_GET; stage outcomes are parameters) + Http.lean (body readers, C17).
Tie:
  * translator T-parsers: lxml.etree.XMLParser / ETCompatXMLParser / fromstring / parse / XML are wrapped while a complete
    provider <-> consumer session runs in-process; every construction / use site with its options and whether it saw
    bytes that came from a peer -> Generated/Parsers.lean (theorem `entity_policy` by `decide`);
  * correspondence (driver `drv_c13`): exhaustive exception-class x stage injection through the real `do_post` / `do_get`
    (mock reader / factory / dispatcher) and the real `do_POST` / `do_GET` (real handler on a fake socket, patched reader /
    registry / component), single faults over every Exception class found, double faults over representatives;
  * oracle on the real provider and consumer endpoints: structure-aware mutations of every request type the library itself
    produced in the session (+ raw HTTP framing damage) under a watchdog: a (status, reason, body) comes back, body is a SOAP
    envelope resp. a well-formed SOAP fault, nothing escapes, nothing hangs, no entity is expanded, no external resource is
    fetched, a rejected request leaves MDIB and subscription table unchanged.
"""
from __future__ import annotations

import builtins
import copy
import decimal
import hashlib
import http.client
import io
import itertools
import os
import re
import socket
import sys
import threading
import time
import types
import zlib
from unittest import mock

import core
from props import c17

READY = True
MANIFEST = dict(
    technique='Lean 4 theorems over the transcribed try/except skeleton of the request path (stage outcomes as parameters, all '
              'exception classes) and over the body readers; generated table of XML parser construction sites; exhaustive '
              'exception-class x stage injection through the real code; structure-aware mutation stream against a live '
              'in-process provider / consumer with state snapshots',
    text='Properties/C13.lean proves: do_POST / do_GET answer for every outcome of every stage (no exception class reaches the '
         'server loop, unconditionally); do_post returns (status, reason, body) whenever building the fault reply does not raise '
         '(doPost_total_partial), with the negative witness for the unguarded reply code (doPost_total_full_fails, replayed on the '
         'implementation, known finding) and the exact set of calls an escape can come from; a request rejected before dispatch is '
         'answered with the rejection status and a fault and leaves the state unchanged; a regular response is only given if all '
         'stages succeeded; the deferred worker of the consumer endpoint survives every handler exception, hands every queued '
         'request to its handler and drains a full queue (no blocked on_post); on a persistent connection a request with unreadable '
         'framing is answered 400 and ends the connection (nothing behind it is executed); a burst of Set requests on a full operation queue is answered (Wait, then Fail), never waited for; the chunked reader terminates on every byte string '
         '(C17); every parser site that sees peer data has resolve_entities / network / DTD loading off (generated, decide). The '
         'skeleton is compared with the real do_post/do_get/do_POST/do_GET/_read_queue by exhaustive fault injection.',
    note='PARTIAL by nature: libxml2 (parsing, entity handling, termination), lxml schema validation and the bodies of the '
         'service handlers are not modelled - they are stage parameters; their behaviour on hostile input is only covered by the '
         'mutation stream (no escape, no hang, well-formed fault, no entity expansion, no external fetch, state snapshot). '
         'Streams are EOF-terminated: a peer that keeps the connection open without sending is outside the property as '
         'modelled (the handler has no read timeout). BaseException subclasses (KeyboardInterrupt, SystemExit) are not caught by design.',
    ref='5 C13')
DRIVERS = ['drv_c13']
RULE = ('one case = one assignment of outcomes (ok / exception class) to the stages of do_post, do_get, do_POST, do_GET | one history of '
        'handler outcomes for the deferred worker | one mutated '
        'request (service path, headers, body bytes) against the live provider or consumer middleware | one raw HTTP request '
        'against the real request handler; distinct by canonical JSON; non-trivial = at least one stage fails / the request '
        'differs from the recorded valid one')
TRUSTED = ['libxml2 / lxml: parsing terminates, resolve_entities=False and no_network=True mean what the documentation says '
           '(checked on planted entities, not proved)',
           'lxml XMLSchema validation; bodies of the service handlers (differential stream + state snapshot only)',
           'http.server request-line / header parsing; socket writes do not raise',
           'the in-process loop-back transport of the harness (SoapClient subclass delivering to the peer middleware)']
ASSUMPTIONS = ['request streams are EOF terminated (no read timeout exists in DispatchingRequestHandler)',
               'exception classes: subclasses of Exception; each class is instantiated with generic arguments',
               'provider: tests/70041_MDIB_Final.xml via tests.mockstuff.SomeDevice, synchronous subscription manager, example role provider',
               'state snapshot: cheap fingerprint (versions + object identities of all containers, subscription attributes) for every '
               'rejected request, full MDIB serialisation for a sample and for all entity cases']

REPO = os.environ.get('VERIF_REPO', '/repo')
WD = c17.WD
S12 = 'http://www.w3.org/2003/05/soap-envelope'
WSA = 'http://www.w3.org/2005/08/addressing'
MARKER = 'EXPANDED_C13_MARKER'
SECRET = 'C13-SECRET-7f3a9c'
SECRET_FILE = os.path.join(core.OUT, 'c13_secret.txt')


# ================================================================================================ parser sites (translator)
class ParserSpy:
    """wraps the parser classes and parse functions of lxml.etree while active"""
    NAMES = ('XMLParser', 'ETCompatXMLParser', 'fromstring', 'parse', 'XML', 'XMLPullParser', 'iterparse', 'HTMLParser')

    def __init__(self):
        self.constructed = {}   # id(parser) -> (site, cls, kwargs)
        self.keep = []
        self.sites = {}         # (site, cls, opts) -> network flag
        self.peer = set()
        self.active = False

    def note_peer(self, data):
        if isinstance(data, (bytes, bytearray)) and data:
            self.peer.add(hashlib.sha1(bytes(data)).digest())

    @staticmethod
    def _site(depth=2):
        f = sys._getframe(depth)
        while f is not None and (f.f_globals.get('__name__', '').startswith('props.') or f.f_globals.get('__name__') == __name__):
            f = f.f_back
        return f"{f.f_globals.get('__name__', '?')}:{f.f_code.co_name}"

    @staticmethod
    def _opts(kwargs):
        return (bool(kwargs.get('resolve_entities', True)), bool(kwargs.get('no_network', True)),
                bool(kwargs.get('load_dtd', False) or kwargs.get('dtd_validation', False) or kwargs.get('attribute_defaults', False)))

    def __enter__(self):
        from lxml import etree
        self.etree = etree
        self.orig = {n: getattr(etree, n) for n in self.NAMES}
        spy = self

        def mk_cls(name):
            orig = self.orig[name]

            def ctor(*a, **k):
                p = orig(*a, **k)
                site = spy._site()
                if site.startswith('sdc11073'):
                    spy.constructed[id(p)] = (site, name, spy._opts(k))
                    spy.keep.append(p)
                    spy.sites.setdefault((site, name, spy._opts(k)), False)
                return p
            return ctor

        def mk_fn(name):
            orig = self.orig[name]

            def fn(source, parser=None, **k):
                site = spy._site()
                if site.startswith('sdc11073'):
                    data = source if isinstance(source, (bytes, bytearray)) else None
                    if hasattr(source, 'getvalue'):
                        data = source.getvalue()
                    net = isinstance(data, (bytes, bytearray)) and hashlib.sha1(bytes(data)).digest() in spy.peer
                    if parser is None:
                        key = (site, 'default', (True, True, False))
                    else:
                        key = spy.constructed.get(id(parser), (site, 'unknown', (True, False, True)))
                    spy.sites[key] = spy.sites.get(key, False) or net
                return orig(source, parser, **k) if parser is not None else orig(source, **k)
            return fn
        for n in ('XMLParser', 'ETCompatXMLParser', 'XMLPullParser', 'HTMLParser'):
            setattr(etree, n, mk_cls(n))
        for n in ('fromstring', 'parse', 'XML'):
            setattr(etree, n, mk_fn(n))
        self.active = True
        return self

    def __exit__(self, *a):
        for n, o in self.orig.items():
            setattr(self.etree, n, o)
        self.active = False


SPY = ParserSpy()


# ================================================================================================ in-process session
def _loop_client_class():
    from sdc11073.pysoap.soapclient import HTTPReturnCodeError, SoapClient

    class LoopSoapClient(SoapClient):
        """delivers to the peer's MessageConverterMiddleware instead of a socket; records the traffic"""
        targets = {}
        log = []

        def connect(self):
            self._has_connection_error = False
            self._connected = True
            self.sock_name = ('127.0.0.1', 40000)

        def is_closed(self):
            return not getattr(self, '_connected', False)

        def close(self):
            self._connected = False

        def _headers(self):
            h = http.client.HTTPMessage()
            h['Host'] = self._netloc
            h['Content-Type'] = 'application/soap+xml; charset=utf-8'
            h['Accept-Encoding'] = 'gzip'
            return h

        def _send_soap_request(self, path, xml, log_msg):
            disp = self.targets[self._netloc]
            first = ([p for p in path.split('/') if p] or [''])[0]
            comp = disp.get_instance(first)
            SPY.note_peer(xml)
            status, reason, body = comp.do_post(self._headers(), path, ('127.0.0.1', 40000), xml)
            SPY.note_peer(body)
            type(self).log.append({'netloc': self._netloc, 'path': path, 'body': xml, 'status': status})
            resp = types.SimpleNamespace(status=status, reason=reason, getheaders=lambda: [])
            if status >= 300:
                raise HTTPReturnCodeError(status, reason, None)
            return resp, body

        def get_from_url(self, url, msg):
            if not url.startswith('/'):
                url = '/' + url
            disp = self.targets[self._netloc]
            first = ([p for p in url.split('?')[0].split('/') if p] or [''])[0]
            comp = disp.get_instance(first)
            status, reason, body, ctype = comp.do_get(self._headers(), url, ('127.0.0.1', 40000))
            SPY.note_peer(body)
            type(self).log.append({'netloc': self._netloc, 'path': url, 'body': None, 'status': status})
            return body
    return LoopSoapClient


class Fingerprint(tuple):
    """state fingerprint; two fingerprints are equal when they differ at most in subscriptions whose lifetime has run out or
    is about to (subscription housekeeping removes those on its own, whatever request is being handled)"""
    def __eq__(self, other):
        if tuple(self[:4]) != tuple(other[:4]):
            return False
        now = time.monotonic()
        for sub in set(self[4]) ^ set(other[4]):
            expires_at = sub[5] + sub[4]     # _started + _expire_seconds (monotonic clock)
            if expires_at > now + 1.5:
                return False
        return True

    def __ne__(self, other):
        return not self.__eq__(other)

    __hash__ = tuple.__hash__


class Session:
    """provider + consumer of the real library wired together without sockets"""
    P_NETLOC, C_NETLOC = '127.0.0.1:50001', '127.0.0.1:50002'

    def __init__(self, validate=True):
        self.validate = validate
        import sdc11073.definitions_sdc  # noqa: F401
        from sdc11073.consumer.consumerimpl import SdcConsumer, default_components_factory
        from sdc11073.dispatch.pathelementregistry import PathElementRegistry
        from sdc11073.provider.providerimpl import provider_components_sync_factory
        from sdc11073.xml_types.actions import periodic_actions
        from tests.mockstuff import MockWsDiscovery, SomeDevice
        self.Loop = _loop_client_class()

        def fake_server(port):
            return types.SimpleNamespace(dispatcher=PathElementRegistry(), server_port=port, base_url=f'http://127.0.0.1:{port}/',
                                         started_evt=threading.Event())
        self.psrv, self.csrv = fake_server(50001), fake_server(50002)
        self.Loop.targets = {self.P_NETLOC: self.psrv.dispatcher, self.C_NETLOC: self.csrv.dispatcher}
        pc = provider_components_sync_factory()
        pc.soap_client_class = self.Loop
        self.dev = SomeDevice.from_mdib_file(MockWsDiscovery('127.0.0.1'), None, os.path.join(REPO, 'tests', '70041_MDIB_Final.xml'),
                                             max_subscription_duration=7200, components=pc, validate=validate)
        self.dev.start_all(start_rtsample_loop=False, shared_http_server=self.psrv)
        cc = default_components_factory()
        cc.soap_client_class = self.Loop
        self.cons = SdcConsumer(self.dev.get_xaddrs()[0], sdc_definitions=self.dev.mdib.sdc_definitions, ssl_context_container=None,
                                components=cc, validate=validate)
        self.cons.start_all(not_subscribed_actions=periodic_actions, shared_http_server=self.csrv)
        self._script()
        self.requests = [r for r in self.Loop.log if r['netloc'] == self.P_NETLOC and r['body']]
        self.notifications = [r for r in self.Loop.log if r['netloc'] == self.C_NETLOC and r['body']]
        self.gets = [r for r in self.Loop.log if r['body'] is None]
        # from here on nothing may change provider state behind our back: renew far into the future, stop the consumer's
        # renew thread and the periodic self-check worker of the example alarm provider (commits a transaction every few seconds)
        self.stopped_workers = 0
        self.pending_stuck = False
        for product in self.dev.product_lookup.values():
            for obj in _walk(product):
                d = getattr(obj, '__dict__', {})
                if '_stop_worker' in d and d.get('_worker_thread') is not None:
                    obj._stop_worker.set()
                    obj._worker_thread.join(5)
                    self.stopped_workers += 1
        for s in self.cons._subscription_mgr.subscriptions.values():
            s.renew(7000)
        self.cons._subscription_mgr.stop()
        time.sleep(0.05)
        self.p_mw = self.dev._msg_converter
        self.c_mw = self.cons._msg_converter

    def _script(self):
        """every request type the consumer API offers, so that the recorded corpus covers the services"""
        from sdc11073.mdib.consumermdib import ConsumerMdib
        cons, dev = self.cons, self.dev
        mdib = ConsumerMdib(cons)
        mdib.init_mdib()
        self.cmdib = mdib
        get = cons.client('Get')
        get.get_md_description(['mds0'])
        get.get_md_state(['0x34F00100'])

        def attempt(f, *a, **k):
            try:
                r = f(*a, **k)
                if hasattr(r, 'result') and callable(r.result):
                    r.result(timeout=3)
            except Exception:  # noqa: BLE001  (e.g. "not implemented" faults of optional services)
                pass
        st = cons.client('Set')
        attempt(st.set_numeric_value, '0x34F04383.op', decimal.Decimal(42))
        attempt(st.set_string, '0x34F06409.op', 'hello')
        attempt(st.activate, 'SVO.37.3569', arguments=[])
        ctx = cons.client('Context')
        attempt(ctx.get_context_states)
        try:
            prop = ctx.mk_proposed_context_object('PC.mds0')
            prop.Handle = 'PC.mds0'
            attempt(ctx.set_context_state, 'SVO.41.PC.mds0', [prop])
        except Exception:  # noqa: BLE001
            pass
        ct = cons.client('ContainmentTree')
        attempt(ct.get_containment_tree, ['mds0'])
        attempt(ct.get_descriptor, ['mds0'])
        loc = cons.client('LocalizationService')
        attempt(loc.get_supported_languages)
        attempt(loc.get_localized_texts)
        for s in list(cons._subscription_mgr.subscriptions.values()):
            attempt(s.renew, 3000)
            attempt(s.get_status)
        # provider side changes => notifications to the consumer endpoint
        for handle in ('0x34F00100', '0x34F04380'):
            try:
                with dev.mdib.metric_state_transaction() as tr:
                    stt = tr.get_state(handle)
                    stt.ActivationState = stt.ActivationState
            except Exception:  # noqa: BLE001
                pass
        time.sleep(0.2)
        subs = list(cons._subscription_mgr.subscriptions.values())
        if len(subs) > 1:
            attempt(subs[-1].unsubscribe)   # records an Unsubscribe request; the other subscription keeps the reports coming

    # ---- state
    def fingerprint(self):
        m = self.dev.mdib
        with m.mdib_lock:
            st = tuple((s.DescriptorHandle, s.StateVersion, id(s)) for s in m.states.objects)
            cs = tuple((s.Handle, s.StateVersion, str(s.ContextAssociation), id(s)) for s in m.context_states.objects)
            dsc = tuple((d.Handle, d.DescriptorVersion, id(d)) for d in m.descriptions.objects)
            head = (m.mdib_version, m.sequence_id, m.instance_id)
        subs = []
        for name, mgr in sorted(self.dev._subscriptions_managers.items()):
            for s in mgr._subscriptions.objects:
                subs.append((name, s.path_suffix, s.notify_to_address, s.end_to_address, s._expire_seconds, s._started, s._is_closed,
                             s.unsubscribed_at))
        return Fingerprint((head, st, cs, dsc, tuple(sorted(subs, key=repr))))

    def full_dump(self):
        from lxml import etree
        m = self.dev.mdib
        with m.mdib_lock:
            data = etree.tostring(m.reconstruct_mdib_with_context_states()[0])
        return re.sub(rb' DateAndTime="[0-9]*"', b'', data)   # ClockState.DateAndTime is "now" at serialisation time

    def _pending(self):
        for mgr in self.dev._subscriptions_managers.values():
            if any(s.unsubscribed_at is not None or not s.is_valid for s in mgr._subscriptions.objects):
                return True     # unsubscribed, expired or closed after delivery errors: housekeeping removes it within about a second
        for reg in self.dev._sco_operations_registries.values():
            w = getattr(reg, '_worker', None)
            if w is not None and not w._operations_queue.empty():
                return True
        return False

    def stored_strings(self, consumer=False):
        """what the handlers kept from requests besides the MDIB: subscriptions (addresses, reference parameters, filters); for the
        consumer endpoint its MDIB mirror"""
        from lxml import etree
        out = []

        def walk(o, depth):
            if isinstance(o, str):
                out.append(o.encode('utf-8', 'replace'))
            elif isinstance(o, bytes):
                out.append(o)
            elif hasattr(o, 'tag') and hasattr(o, 'attrib'):
                try:
                    out.append(etree.tostring(o))
                except Exception:  # noqa: BLE001
                    pass
            elif depth > 0:
                if isinstance(o, (list, tuple, set)):
                    for x in list(o)[:200]:
                        walk(x, depth - 1)
                elif isinstance(o, dict):
                    for x in list(o.values())[:200]:
                        walk(x, depth - 1)
                elif hasattr(o, '__dict__') and type(o).__module__.startswith('sdc11073'):
                    for k, x in list(vars(o).items()):
                        if k not in ('_mgr', '_soap_client_pool', '_msg_factory', '_logger', 'descriptor_container', 'node'):
                            walk(x, depth - 1)
        if consumer:
            for st in list(self.cmdib.states.objects) + list(self.cmdib.context_states.objects):
                walk(st, 5)
        else:
            for mgr in self.dev._subscriptions_managers.values():
                for sub in list(mgr._subscriptions.objects):
                    walk(sub, 4)
        return b'\n'.join(out)

    def settle(self, quiet=0.03):
        """wait until asynchronous effects of an accepted request (sco worker, subscription housekeeping) are through"""
        last, since = self.fingerprint(), time.time()
        deadline = time.time() + 6
        pending = False
        while time.time() < deadline:
            time.sleep(0.01)
            cur = self.fingerprint()
            pending = not self.pending_stuck and self._pending()
            if cur != last or pending:
                last, since = cur, time.time()
            elif time.time() - since >= quiet:
                return last
        if pending:
            # an unsubscribed / invalid subscription is not removed any more (housekeeping thread gone?): do not wait for it again
            self.pending_stuck = True
        return last

    def changes_state(self, send):
        """second opinion for the snapshot oracle: in a quiet system, does sending the request (again) change the state?"""
        before = self.settle(quiet=0.4)
        send()
        time.sleep(0.1)
        after = self.settle(quiet=0.2)
        return before != after, _fp_diff(before, after)

    def stop(self):
        for f in (lambda: self.cons.stop_all(unsubscribe=False), self.dev.stop_all):
            try:
                f()
            except Exception:  # noqa: BLE001
                pass


def _walk(root, depth=3):
    seen, todo = set(), [(root, 0)]
    while todo:
        o, d = todo.pop()
        if id(o) in seen:
            continue
        seen.add(id(o))
        yield o
        if d >= depth:
            continue
        vals = []
        if hasattr(o, '__dict__'):
            vals = list(vars(o).values())
        elif isinstance(o, (list, tuple)):
            vals = list(o)
        elif isinstance(o, dict):
            vals = list(o.values())
        for v in vals:
            if type(v).__module__.startswith(('tutorial', 'sdc11073')) or isinstance(v, (list, tuple, dict)):
                todo.append((v, d + 1))


_SESSION = None


def session():
    global _SESSION
    if _SESSION is None:
        c17.enable_library_logging()   # log arguments are code that runs inside request handling
        with SPY:
            _SESSION = Session()
            # a few more peer messages through the readers while the spy is active: a fault answer and a notification
            s = _SESSION
            if s.requests:
                r = s.requests[0]
                SPY.note_peer(b'<broken')
                try:
                    s.p_mw.do_post(mk_hdr(), r['path'], ('127.0.0.1', 1), b'<broken')
                except Exception:  # noqa: BLE001  (reported by the oracle of run(), not here)
                    pass
    return _SESSION


_SESSION_NOVAL = None


def session_novalidate():
    """the same wiring with endpoints that were configured with validate=False (schema validation off)"""
    global _SESSION_NOVAL
    if _SESSION_NOVAL is None:
        c17.enable_library_logging()
        main = _SESSION
        _SESSION_NOVAL = Session(validate=False)
        if main is not None:     # the loop-back client class is per session, nothing to restore
            pass
    return _SESSION_NOVAL


def mk_hdr(extra=()):
    h = http.client.HTTPMessage()
    h['Host'] = Session.P_NETLOC
    h['Content-Type'] = 'application/soap+xml; charset=utf-8'
    for k, v in extra:
        h[k] = v
    return h


def translate(ctx):
    session()
    rows = []
    for (site, cls, (res, nonet, dtd)), net in sorted(SPY.sites.items()):
        b = lambda x: 'true' if x else 'false'  # noqa: E731
        rows.append(f'  ⟨"{site}", "{cls}", {b(res)}, {b(nonet)}, {b(dtd)}, {b(net)}⟩')
    src = ('import SdcModel.RequestFlow\n/-! generated by harness/props/c13.py: XML parser construction / use sites of package sdc11073 observed while a '
           'provider <-> consumer session ran (site, class, resolve_entities, no_network, load_dtd|dtd_validation, saw peer data) -/\n'
           'namespace Sdc.Generated.Parsers\nopen Sdc.RequestFlow\ndef sites : List ParserSite := [\n' + ',\n'.join(rows) +
           '\n]\nend Sdc.Generated.Parsers\n')
    core.write_if_changed(core.GENERATED + '/Parsers.lean', src)
    ctx.notes['parser_sites'] = [f'{s} {c} resolve_entities={o[0]} no_network={o[1]} dtd={o[2]} peer_data={n}' for (s, c, o), n in sorted(SPY.sites.items())]


# ================================================================================================ exception classes
def exception_classes():
    """(name, factory, model token) for every Exception subclass we can instantiate"""
    import sdc11073.exceptions as sx
    from lxml import etree
    from sdc11073.httpserver import httpreader
    from sdc11073.httpserver.compression import CompressionError
    from sdc11073.pysoap.soapenvelope import Fault, faultcodeEnum
    res = []

    def fault():
        f = Fault()
        f.Code.Value = faultcodeEnum.SENDER
        f.add_reason_text('injected')
        return f
    n = [0]

    def add(name, factory, token):
        res.append((name, factory, token))
    tag = itertools.count(1)
    for status in (400, 404, 418, 500, 200):
        t = next(tag)
        add(f'HTTPRequestHandlingError({status})', (lambda s=status, t=t: sx.HTTPRequestHandlingError(s, f'R{t}', fault())), f'h:{status}:{t}')
    t = next(tag)
    add('InvalidActionError', lambda: _with_reason(sx.InvalidActionError(fault())), 'h:400:BadRequest')
    add('FunctionNotImplementedError', lambda: sx.FunctionNotImplementedError(fault()), 'h:500:notimplemented')
    t = next(tag)
    add('ValidationError', (lambda t=t: sx.ValidationError(f'R{t}', fault())), f'h:400:{t}')
    t = next(tag)
    add('InvalidPathError', (lambda t=t: sx.InvalidPathError(f'R{t}', fault())), f'p:404:{t}')
    seen = set()
    cid = itertools.count(100)
    cands = [v for v in vars(builtins).values() if isinstance(v, type) and issubclass(v, Exception)]
    cands += [sx.ApiUsageError, httpreader.DechunkError, httpreader.DecompressError, CompressionError, zlib.error,
              etree.XMLSyntaxError, etree.DocumentInvalid, etree.XMLSchemaParseError, etree.LxmlError,
              http.client.HTTPException, http.client.IncompleteRead, http.client.NotConnected, decimal.InvalidOperation,
              socket.timeout, ConnectionResetError]
    # the text of an exception ends up in faults, reason phrases and log calls
    for label, text in (('multi-line message', 'first line\nsecond: line'), ('non-latin-1 message', '\u20acuro \u0100'),
                        ('braces in message', '{x} {} }{'), ('control characters in message', 'a\x00b\x01c\x1f'),
                        ('long message', 'x' * 70000)):
        add(f'ValueError({label})', (lambda t=text: ValueError(t)), f'o:{next(cid)}')
        add(f'KeyError({label})', (lambda t=text: KeyError(t)), f'o:{next(cid)}')
    for cls in cands:
        if cls in seen or issubclass(cls, Warning):
            continue
        seen.add(cls)
        f = _factory(cls)
        if f is not None:
            add(cls.__name__, f, f'o:{next(cid)}')
    return res


def _with_reason(ex):
    return ex


def _factory(cls):
    for args in (('injected',), (), ('utf-8', b'\xff', 0, 1, 'injected'), ('injected', 0, 1, 1, 'f'), ('injected', 1), (1, 'injected')):
        try:
            cls(*args)
            return lambda c=cls, a=args: c(*a)
        except Exception:  # noqa: BLE001
            continue
    return None


_REASON_TAGS = {'Bad Request': 'BadRequest', 'not implemented': 'notimplemented'}


def canon_reason(r):
    if r == 'Ok':
        return 'Ok'
    if r == 'exception':
        return 'exception'
    if isinstance(r, str) and re.fullmatch(r'R\d+', r):
        return 'r' + r[1:]
    return 'r' + _REASON_TAGS.get(r, repr(r))


# ================================================================================================ injection through do_post
class Injector:
    """mock reader / factory / dispatcher whose calls follow a stage -> outcome table"""
    def __init__(self, table):
        self.t = table
        self.calls = 0

    def outcome(self, stage, ok):
        o = self.t.get(stage)
        if o is None:
            return ok
        raise o[1]()

    # reader
    def read_received_message(self, data, validate=True):
        return self.outcome('read1' if validate else 'read2', mock.MagicMock())

    # factory
    def mk_soap_message(self, inf, payload=None, **k):
        self.outcome('mkFaultMsg', None)
        return self._msg('serFault', b'fault:0')

    def mk_reply_soap_message(self, request, payload, **k):
        self.outcome('mkReply', None)
        return self._msg('serReply', b'reply:0')

    # dispatcher
    def on_post(self, request_data):
        self.calls += 1
        self.outcome('dispatch', None)
        return self._msg('serResp', b'resp:0')

    def on_get(self, request_data):
        self.calls += 1
        return self.outcome('handle', b'get:0')

    def _msg(self, stage, marker):
        inj = self

        class M:
            def serialize(self, *a, **k):
                return inj.outcome(stage, marker)
        return M()


POST_STAGES = ['read1', 'mkFaultMsg', 'serFault', 'dispatch', 'serResp', 'read2', 'mkReply', 'serReply']


def model_token(tok):
    """h:400:BadRequest -> numeric tags for the driver (reason tags that are not numbers get ids >= 900)"""
    parts = tok.split(':')
    if parts[0] in 'hp' and not parts[2].isdigit():
        parts[2] = str(900 + sorted(_REASON_TAGS.values()).index(parts[2]))
    return ':'.join(parts)


def unmodel_reason(line):
    def rep(m):
        n = int(m.group(1))
        return 'r' + (sorted(_REASON_TAGS.values())[n - 900] if n >= 900 else str(n))
    return re.sub(r'\br(\d+)\b', rep, line)


def run_do_post(table):
    from sdc11073.dispatch.messageconverter import MessageConverterMiddleware
    inj = Injector(table)
    mw = MessageConverterMiddleware(inj, inj, c17.real_logger('sdc.device'), inj)
    r = WD.call(mw.do_post, {}, '/uuid/svc', ('127.0.0.1', 1), b'<x/>')
    if r[0] == 'hang':
        return 'HANG', inj
    if r[0] == 'exc':
        return f'escape {type(r[1]).__name__} calls={inj.calls}', inj
    st, reason, body = r[1]
    shown = body.decode() if isinstance(body, bytes) else repr(body)
    return f'ret {st} {canon_reason(reason)} {shown} calls={inj.calls}', inj


def injection_post(ctx, B, classes):
    by_tok = {c[2]: c for c in classes}

    def one(table):
        got, _ = run_do_post(table)
        line = 'post ' + ' '.join(model_token(table[s][2]) if s in table else 'ok' for s in POST_STAGES)
        case = {'kind': 'inject-do_post', 'stages': {s: table[s][0] for s in table}}
        # oracle at this level: an escape is only legitimate (documented negative witness) from the reply-building stages
        if got == 'HANG':
            ctx.fail('do_post:hang', '', case)
        elif got.startswith('escape'):
            ctx.count('do_post:escape-from-reply-path')
            if not any(s in table for s in ('mkFaultMsg', 'serFault', 'read2', 'mkReply', 'serReply')):
                ctx.fail('do_post:exception-escapes', f'{got} although the reply path does not raise', case)
        else:
            ctx.count('do_post:' + got.split(' ')[1])
        ctx.case({'k': 'ip', 't': {s: table[s][0] for s in table}}, nontrivial=bool(table))
        B.add(line, got, 'doPost == MessageConverterMiddleware.do_post (injected stage outcomes)', case, names=by_name)
    by_name = {c[2]: c[0] for c in classes}
    one({})
    # the negative witness of Properties/C13.lean (doPost_total_full_fails) replayed on the implementation
    ve = next(c for c in classes if c[0] == 'ValueError')
    got, _ = run_do_post({'read1': ve, 'serFault': ve})
    if got.startswith('escape'):
        ctx.fail('do_post:reply-path-unguarded', f'unreadable request and serialize() of the fault message raises: {got} leaves do_post '
                 '(do_POST answers 500 text/plain)', {'kind': 'inject-do_post', 'stages': {'read1': 'ValueError', 'serFault': 'ValueError'},
                                                      'witness': True})
    else:
        ctx.notes['negative_witness'] = 'doPost_total_full_fails no longer reproduces on the implementation: ' + got
    for st in POST_STAGES:                        # every class at every stage
        for c in classes:
            one({st: c})
    reps = [c for c in classes if c[0] in ('HTTPRequestHandlingError(418)', 'InvalidPathError', 'ValueError')]
    for s1, s2 in itertools.combinations(POST_STAGES, 2):     # double faults
        for c1 in reps:
            for c2 in reps:
                one({s1: c1, s2: c2})
    if ctx.tier == 'thorough':
        opts = [None] + reps[:2] + [c for c in reps if c[0] == 'ValueError']
        for combo in itertools.product(range(len(opts)), repeat=len(POST_STAGES)):
            t = {s: opts[i] for s, i in zip(POST_STAGES, combo) if opts[i] is not None}
            if len(t) >= 3:
                one(t)
        ctx.notes['do_post_injection'] = 'exhaustive: 4 outcomes x 8 stages + every exception class at every stage'
    # do_get
    from sdc11073.dispatch.messageconverter import MessageConverterMiddleware
    for path, ptok in (('/uuid/svc', 'ok'), ('/uuid/svc?wsdl', 'ok'), ('//[', None)):
        for c in [None] + classes:
            inj = Injector({'handle': c} if c else {})
            mw = MessageConverterMiddleware(inj, inj, c17.real_logger('sdc.device'), inj)
            r = WD.call(mw.do_get, {}, path, ('127.0.0.1', 1))
            if r[0] == 'ok':
                got = f'ret {r[1][0]} {r[1][1]} ' + ('text' if r[1][0] == 500 else r[1][2].decode())
            else:
                got = 'HANG' if r[0] == 'hang' else f'escape {type(r[1]).__name__}'
            case = {'kind': 'inject-do_get', 'path': path, 'handle': c[0] if c else 'ok'}
            ctx.case({'k': 'ig', **case}, nontrivial=c is not None)
            if ptok is None:
                B.add(f"get o:1 {model_token(c[2]) if c else 'ok'}", got, 'doGet == do_get (urlparse raises)', case, names={'o:1': 'ValueError', **by_name})
            else:
                B.add(f"get ok {model_token(c[2]) if c else 'ok'}", got, 'doGet == MessageConverterMiddleware.do_get', case, names=by_name)


# ================================================================================================ injection through do_POST / do_GET
def run_handler(L, method, table, has_dispatcher=True):
    """real DispatchingRequestHandler on a fake socket; stages readBody / lookup / post / get follow the table"""
    inj = Injector(table)

    class Comp:
        def do_post(self, headers, path, peer, body):
            inj.calls += 1
            o = table.get('post')
            if o is not None and o[1] is not None:
                raise o[1]()
            return (o[3] if o else 200), 'Ok', b'<resp:0/>'

        def do_get(self, headers, path, peer):
            o = table.get('get')
            if o is not None and o[1] is not None:
                raise o[1]()
            if o is not None:
                return 500, 'Exception', b'text', 'text'
            return 200, 'Ok', b'<get:0/>', 'text/xml'

    def get_instance(elem):
        inj.outcome('lookup', None)
        return Comp()
    server = types.SimpleNamespace(dispatcher=types.SimpleNamespace(get_instance=get_instance) if has_dispatcher else None,
                                   supported_encodings=[], chunk_size=0, logger=c17.real_logger())
    raw = (b'POST /svc/x HTTP/1.1\r\nHost: h\r\nContent-Length: 4\r\n\r\n<x/>' if method == 'POST' else b'GET /svc/x HTTP/1.1\r\nHost: h\r\n\r\n')
    sock = c17.FakeSock(raw)

    def go():
        rb = table.get('readBody')
        if rb is not None:
            with mock.patch.object(L.HR, 'read_request_body', classmethod(lambda cls, msg, sup=None: (_ for _ in ()).throw(rb[1]()))):
                L.rh.DispatchingRequestHandler(sock, ('127.0.0.1', 5), server)
        else:
            L.rh.DispatchingRequestHandler(sock, ('127.0.0.1', 5), server)
    with _lock_patch:
        r = WD.call(go)
    out = b''.join(sock.out)
    if r[0] == 'hang':
        return 'HANG', inj
    if r[0] == 'exc':
        return f'escape {type(r[1]).__name__} calls={inj.calls}', inj
    bad = status_line_problem(out)
    if bad:
        return f'no-status-line {bad}', inj
    status, h, body = c17.split_response(out)
    m = re.match(r'HTTP/1\.[01] (\d+) ?(.*)', status)
    if not m:
        return f'no-status-line {out[:40]!r}', inj
    code, reason = int(m.group(1)), m.group(2)
    ctype = h.get('content-type', '')
    if ctype.startswith('text/plain') or (code == 404 and not ctype):
        return f'plain {code} {canon_reason(reason) if re.fullmatch(r"R[0-9]+", reason) else "exception"}', inj
    if method == 'POST':
        return f'soap {code} Ok resp:0', inj
    return ('get 200 Ok get:0' if code == 200 else 'get 500 Exception text'), inj


_lock_patch = threading.Lock()


def run_conn(L, tables):
    """several requests on one connection through the real handler; tables[i] = stage outcomes of request i"""
    calls = [0]
    idx = {'read': 0, 'lookup': 0, 'post': 0}

    class Comp:
        def __init__(self, i):
            self.i = i

        def do_post(self, headers, path, peer, body):
            calls[0] += 1
            o = tables[self.i].get('post') if self.i < len(tables) else None
            if o is not None and o[1] is not None:
                raise o[1]()
            return (o[3] if o else 200), 'Ok', b'<resp:0/>'

    def get_instance(elem):
        i = idx['read'] - 1        # the request whose body was read last
        o = tables[i].get('lookup') if i < len(tables) else None
        if o is not None:
            raise o[1]()
        return Comp(i)
    server = types.SimpleNamespace(dispatcher=types.SimpleNamespace(get_instance=get_instance), supported_encodings=[], chunk_size=0,
                                   logger=c17.real_logger())
    raw = b'POST /svc/x HTTP/1.1\r\nHost: h\r\nContent-Length: 4\r\n\r\n<x/>' * len(tables)
    sock = c17.FakeSock(raw)
    orig = L.HR.read_request_body.__func__

    def reader(cls, msg, sup=None):
        i = idx['read']
        idx['read'] += 1
        o = tables[i].get('readBody') if i < len(tables) else None
        if o is not None:
            raise o[1]()       # nothing was read: the body of this request is still in the stream
        return orig(cls, msg, sup)
    with _lock_patch, mock.patch.object(L.HR, 'read_request_body', classmethod(reader)):
        r = WD.call(L.rh.DispatchingRequestHandler, sock, ('127.0.0.1', 5), server)
    if r[0] != 'ok':
        return ('HANG' if r[0] == 'hang' else f'escape {type(r[1]).__name__}') + f' calls={calls[0]}'
    outs = []
    for resp in parse_responses(b''.join(sock.out)):
        if resp is None:
            outs.append('unparsable')
            continue
        code, reason, h, body = resp
        if h.get('content-type', '').startswith('text/plain'):
            outs.append(f'plain {code} {canon_reason(reason) if re.fullmatch(r"R[0-9]+", reason) else "exception"}')
        else:
            outs.append(f'soap {code} Ok resp:0')
    return ' ; '.join(outs) + f' calls={calls[0]}'


def injection_conn(ctx, L, B, classes):
    """keep-alive loop: a request whose body cannot be read ends the connection, whatever follows"""
    by_name = {c[2]: c[0] for c in classes}
    reps = [c for c in classes if c[0] in ('HTTPRequestHandlingError(418)', 'InvalidPathError', 'ValueError', 'DechunkError', 'DecompressError')]
    opts = [('ok', {})] + [(f'readBody={c[0]}', {'readBody': c}) for c in reps] + [(f'lookup={c[0]}', {'lookup': c}) for c in reps[:3]] + \
           [(f'post={c[0]}', {'post': c}) for c in reps[:3]]
    import itertools as it
    seqs = list(it.product(range(len(opts)), repeat=2)) + [t for t in it.product(range(len(opts)), repeat=3) if (sum(t) % (1 if ctx.tier == 'thorough' else 5)) == 0]
    for seq in seqs:
        tables = [opts[i][1] for i in seq]
        got = run_conn(L, tables)
        toks = []
        for t in tables:
            p_ = t.get('post')
            toks.append(','.join([model_token(t['readBody'][2]) if 'readBody' in t else 'ok', '1',
                                  model_token(t['lookup'][2]) if 'lookup' in t else 'ok', model_token(p_[2]) if p_ else 'ret:200']))
        case = {'kind': 'inject-connection', 'requests': [opts[i][0] for i in seq]}
        ctx.case({'k': 'ic', **case}, nontrivial=any(tables))
        first_bad = next((i for i, t in enumerate(tables) if 'readBody' in t), None)
        n_resp = got.count(';') + 1 if not got.startswith(('escape', 'HANG')) else 0
        if got.startswith(('escape', 'HANG')):
            ctx.fail('do_POST:exception-escapes', f'connection with {len(tables)} requests: {got}', case)
        elif first_bad is not None and n_resp > first_bad + 1:
            ctx.fail('framing:request-behind-invalid-framing-executed', f'request {first_bad + 1} could not be read, but {n_resp} requests were '
                     f'answered on the connection: {got}', case)
        ctx.count('connection:' + ('ended-by-framing-error' if first_bad is not None else 'all-answered'))
        B.add('CONN ' + ' '.join(toks), got, 'serveConn == keep-alive loop of DispatchingRequestHandler (injected stage outcomes)', case, names=by_name)


def injection_handler(ctx, L, B, classes):
    by_name = {c[2]: c[0] for c in classes}

    def post_case(table, hd=True):
        got, inj = run_handler(L, 'POST', table, hd)
        if not got.startswith('HANG') and not got.startswith('no-status'):
            got = got if 'calls=' in got else got + f' calls={inj.calls}'
        p = table.get('post')
        ptok = 'ret:200' if p is None else (f'ret:{p[3]}' if p[1] is None else model_token(p[2]))
        line = f"POST {model_token(table['readBody'][2]) if 'readBody' in table else 'ok'} {1 if hd else 0} " \
               f"{model_token(table['lookup'][2]) if 'lookup' in table else 'ok'} {ptok}"
        case = {'kind': 'inject-do_POST', 'stages': {s: table[s][0] for s in table}, 'dispatcher': hd}
        if got.startswith(('escape', 'HANG', 'no-status')):
            ctx.fail('do_POST:exception-escapes' if got.startswith('escape') else 'do_POST:no-response',
                     f'{got} — nothing is answered, the exception reaches the server loop', case)
        ctx.count('do_POST:' + ' '.join(got.split(' ')[:2]))
        ctx.case({'k': 'iP', **case}, nontrivial=bool(table))
        B.add(line, got, 'doPOST == DispatchingRequestHandler.do_POST (injected stage outcomes)', case, names=by_name)

    def get_case(table, hd=True):
        got, _ = run_handler(L, 'GET', table, hd)
        g = table.get('get')
        gtok = 'ok' if g is None else ('err' if g[1] is None else model_token(g[2]))
        line = f"GET {1 if hd else 0} {model_token(table['lookup'][2]) if 'lookup' in table else 'ok'} {gtok}"
        case = {'kind': 'inject-do_GET', 'stages': {s: table[s][0] for s in table}, 'dispatcher': hd}
        if got.startswith(('escape', 'HANG', 'no-status')):
            ctx.fail('do_GET:exception-escapes' if got.startswith('escape') else 'do_GET:no-response',
                     f'{got} — nothing is answered, the exception reaches the server loop', case)
        ctx.count('do_GET:' + ' '.join(got.split(' ')[:2]))
        ctx.case({'k': 'iG', **case}, nontrivial=bool(table))
        B.add(line, got, 'doGET == DispatchingRequestHandler.do_GET (injected stage outcomes)', case, names=by_name)
    post_case({})
    post_case({}, hd=False)
    get_case({})
    get_case({}, hd=False)
    for status in (200, 400, 404, 500):
        post_case({'post': (f'returns {status}', None, None, status)})
    get_case({'get': ('returns 500', None, None)})
    stride = 1 if ctx.tier == 'thorough' else 3
    for i, c in enumerate(classes):
        if i % stride and not c[2].startswith(('h', 'p')):
            continue
        for st in ('readBody', 'lookup', 'post'):
            post_case({st: c})
        for st in ('lookup', 'get'):
            get_case({st: c})
    reps = [c for c in classes if c[0] in ('HTTPRequestHandlingError(418)', 'InvalidPathError', 'ValueError')]
    for c1 in reps:
        for c2 in reps:
            post_case({'readBody': c1, 'lookup': c2})
            post_case({'lookup': c1, 'post': c2})
            post_case({'readBody': c1, 'post': c2})
            get_case({'lookup': c1, 'get': c2})


# ================================================================================================ mutations of real requests
def parse_safe(data):
    from lxml import etree
    return etree.fromstring(data, parser=etree.XMLParser(resolve_entities=False, no_network=True, huge_tree=False))


DOCTYPES = [
    ('internal', '<!DOCTYPE x [<!ENTITY a "EXPANDED"><!ENTITY b "&a;_C13_MARKER">]>', '&b;'),
    ('file', '<!DOCTYPE x [<!ENTITY f SYSTEM "file://%s">]>' % SECRET_FILE, '&f;'),
    ('http', '<!DOCTYPE x [<!ENTITY h SYSTEM "http://127.0.0.1:%d/c13">]>', '&h;'),
    ('dtd', '<!DOCTYPE x SYSTEM "http://127.0.0.1:%d/c13.dtd">', ''),
    ('param', '<!DOCTYPE x [<!ENTITY %% p SYSTEM "http://127.0.0.1:%d/c13.ent"> %%p;]>', ''),
    ('laughs', '<!DOCTYPE x [<!ENTITY l0 "EXPANDED_C13"><!ENTITY l1 "&l0;&l0;&l0;&l0;"><!ENTITY l2 "&l1;&l1;&l1;&l1;">'
               '<!ENTITY l3 "&l2;&l2;&l2;&l2;"><!ENTITY l4 "&l3;&l3;&l3;&l3;"><!ENTITY l5 "&l4;_MARKER">]>', '&l5;'),
]
# strings a handler may reflect into a status line, a fault text or the format string of a log call
ODD_TEXT = ['urn:x\nInjected-Header: yes', 'urn:x\r\nSet-Cookie: a=b', 'urn:\u20acuro', 'urn:\u2028x', 'urn:{x}', 'urn:{}', 'urn:}', 'urn:{', 'urn:{0!r:>99}',
            'urn:{0.__class__.__mro__}', 'urn:%s%d%(x)s', 'urn:\u00e4', 'urn:\U0001f600', 'urn:\tx', 'urn:' + 'a' * 9000, '{', '}{', '\u0100']
# path elements: control characters, format-active characters, non-ascii (a request line is decoded as latin-1 and split at white space)
ODD_PATH_ELEMENTS = ['Ge\x01t', 'G\xe4t', '{x}', '{}', '}', '{', '{0!r}', '{0.__class__}', '%s', '%(x)s', '\x7f', 'Get\x00', '..', 'Get;x=1', '\xff\xfe', 'a' * 3000]
ODD_URIS = ['http://127.0.0.1:99999/notify', 'http://127.0.0.1:65536/', 'http://127.0.0.1:65535/', 'http://127.0.0.1:0/x', 'http://127.0.0.1:-1/x',
            'http://127.0.0.1:/x', 'http://127.0.0.1:abc/x', 'http://[::1/x', 'http://[::1]:50002/x', 'http://[v1.x]/', 'urn:uuid:1234', 'mailto:a@b.c',
            'http:///only-path', 'HTTP://127.0.0.1:50002/UP', 'http://127.0.0.1:50002', 'http://user:pw@127.0.0.1:50002/p', '//no-scheme/x', 'x',
            '', 'http://127.0.0.1:50002/a?b=c#d', 'https://127.0.0.1:50002/tls', 'http://\u00e4.example/x', 'http://127.0.0.1:50002/' + 'a' * 3000,
            'http://999.999.999.999:80/', 'http://127.0.0.1:00080/x', 'ftp://127.0.0.1/x', 'http://127.0.0.1:50002/%zz', 'http://host name/x']
HUGE = ODD_TEXT + ['9' * 40, '-1', '-' + '9' * 30, '1e400', '0' * 5000, '4294967296', '18446744073709551616', 'NaN', '', ' ', 'x' * 70000,
        '€ä\U0001f600', '0x10', '1_000', '٣']


def mutate_request(rng, sess, rec, pool):
    """returns (kind, path, body bytes, entity_kind|None)"""
    from lxml import etree
    body, path = rec['body'], rec['path']
    k = rng.randrange(18)
    if k == 15 and b'NotifyTo' not in body:
        subs = [r for r in pool if b'NotifyTo' in r['body']]
        if subs:
            rec = rng.choice(subs)
            body, path = rec['body'], rec['path']
    try:
        root = etree.fromstring(body)
    except Exception:  # noqa: BLE001
        return 'raw', path, body, None
    elems = list(root.iter())
    leafs = [e for e in elems if len(e) == 0 and isinstance(e.tag, str)]
    inner = [e for e in elems if e.getparent() is not None and isinstance(e.tag, str)]
    ent = None
    kind = 'none'
    if k == 0 and inner:
        e = rng.choice(inner); e.getparent().remove(e); kind = 'delete-element'
    elif k == 1 and inner:
        e = rng.choice(inner); e.addnext(copy.deepcopy(e)); kind = 'duplicate-element'
    elif k == 2 and inner:
        e = rng.choice(inner)
        q = etree.QName(e.tag)
        e.tag = rng.choice([etree.QName(q.namespace, q.localname + 'X'), etree.QName('urn:other', q.localname), q.localname,
                            etree.QName(q.namespace, 'Fault')]); kind = 'rename-element'
    elif k == 3:
        cands = [e for e in elems if e.attrib]
        if cands:
            e = rng.choice(cands); a = rng.choice(list(e.attrib))
            op = rng.randrange(3)
            if op == 0:
                del e.attrib[a]
            elif op == 1:
                e.set(a + 'X', e.attrib.pop(a))
            else:
                e.set(a, rng.choice(HUGE))
            kind = 'attribute'
    elif k == 4 and leafs:
        e = rng.choice(leafs); e.text = rng.choice(HUGE); kind = 'huge-or-odd-value'
    elif k == 5:
        acts = [e for e in elems if e.tag == '{%s}Action' % WSA]
        if acts:
            other = rng.choice(pool)
            m = re.search(rb'Action[^>]*>([^<]*)<', other['body'])
            acts[0].text = rng.choice([m.group(1).decode() if m else 'urn:x', 'urn:unknown-action', '', acts[0].text + 'X'] + ODD_TEXT[:14])
            kind = 'wrong-action'
    elif k == 6:
        other = rng.choice(pool)
        parts = path.split('/')
        path = rng.choice([other['path'], '/'.join(parts[:2] + ['Nope']), '/'.join(parts[:2]), path + '/extra', '/' + parts[1] + '//Get',
                           path.replace(parts[1], 'deadbeef'), '', '/', path + '?x=1', '//[', path.upper()] +
                          ['/'.join(parts[:2] + [rng.choice(ODD_PATH_ELEMENTS + ['\u20ac', 'a\nb'])]) for _ in range(6)] +
                          ['/' + rng.choice(ODD_PATH_ELEMENTS), path + '/' + rng.choice(ODD_PATH_ELEMENTS)])
        kind = 'wrong-path'
    elif k in (7, 8) and leafs:
        name, doctype, ref = rng.choice(DOCTYPES)
        ent = name
        if '%d' in doctype:
            doctype = doctype % LISTENER.port
        target = rng.choice(leafs)
        use_attr = ref and rng.random() < 0.3 and target.attrib
        token = 'C13ENTITYREF'
        if ref:
            if use_attr:
                target.set(rng.choice(list(target.attrib)), token)
            else:
                target.text = token
        data = etree.tostring(root)
        data = data.replace(token.encode(), ref.encode())
        return 'entity:' + name, path, b'<?xml version="1.0"?>' + doctype.encode() + data, ent
    elif k == 9:
        data = etree.tostring(root)
        return 'truncate', path, data[:rng.randrange(len(data))], None
    elif k == 10:
        b = bytearray(body)
        for _ in range(rng.choice([1, 1, 2, 5])):
            b[rng.randrange(len(b))] = rng.randrange(256)
        return 'byte-flip', path, bytes(b), None
    elif k == 11:
        return 'not-xml', path, rng.choice([b'', b'\x00\x01', b'not xml at all', b'<a>', b'<?xml version="1.0" encoding="utf-16"?><a/>',
                                            b'\xff\xfe<\x00a\x00/\x00>\x00', b'<a xmlns:b="urn:x"><b:c/></a>', b'{}', b'<a>' * 2000,
                                            b'<a>' * 300 + b'</a>' * 300, b'<s12:Envelope xmlns:s12="%s"/>' % S12.encode(),
                                            b'<s12:Envelope xmlns:s12="%s"><s12:Body/></s12:Envelope>' % S12.encode()]), None
    elif k == 12:
        hdr = root.find('{%s}Header' % S12)
        if hdr is not None and len(hdr):
            e = rng.choice(list(hdr)); hdr.remove(e); kind = 'delete-header:' + etree.QName(e.tag).localname
    elif k == 13:
        bd = root.find('{%s}Body' % S12)
        if bd is not None:
            other = rng.choice(pool)
            try:
                ob = etree.fromstring(other['body']).find('{%s}Body' % S12)
                for ch in list(bd):
                    bd.remove(ch)
                for ch in ob:
                    bd.append(copy.deepcopy(ch))
                kind = 'foreign-body'
            except Exception:  # noqa: BLE001
                pass
    elif k == 14 and leafs:
        e = rng.choice(leafs)
        for i in range(rng.choice([3, 50])):
            e = etree.SubElement(e, e.tag)
        kind = 'nesting'
    elif k == 15:
        # addresses the handlers will store, log and later connect to: odd but (mostly) schema-valid xs:anyURI values
        addr = [e for e in elems if isinstance(e.tag, str) and etree.QName(e.tag).localname == 'Address'] or \
               [e for e in elems if isinstance(e.tag, str) and etree.QName(e.tag).localname in ('To', 'ReplyTo', 'Identifier')]
        if addr:
            for e in rng.sample(addr, rng.randint(1, len(addr))):
                e.text = rng.choice(ODD_URIS)
            kind = 'odd-address'
    else:
        kind = 'valid'
    return kind, path, etree.tostring(root), ent


class Listener:
    """local TCP port that must never be contacted (external entity / DTD fetch)"""
    def __init__(self):
        self.sock = socket.socket()
        self.sock.bind(('127.0.0.1', 0))
        self.sock.listen(50)
        self.sock.setblocking(False)
        self.port = self.sock.getsockname()[1]

    def contacted(self):
        try:
            c, _ = self.sock.accept()
            c.close()
            return True
        except (BlockingIOError, OSError):
            return False


LISTENER = None


def check_soap_body(status, body, want_fault):
    """None or a description of what is wrong with the answer body"""
    if not isinstance(body, (bytes, bytearray)):
        return f'body is {type(body).__name__}, not bytes'
    try:
        root = parse_safe(bytes(body))
    except Exception as ex:  # noqa: BLE001
        return f'body is not well-formed XML: {type(ex).__name__}'
    if root.tag != '{%s}Envelope' % S12:
        return f'root element is {root.tag}'
    b = root.find('{%s}Body' % S12)
    if b is None:
        return 'no s12:Body'
    f = b.find('{%s}Fault' % S12)
    if want_fault:
        if f is None:
            return 'no s12:Fault in the body of an error answer'
        if f.find('{%s}Code/{%s}Value' % (S12, S12)) is None or f.find('{%s}Reason/{%s}Text' % (S12, S12)) is None:
            return 'Fault without Code/Value or Reason/Text'
    return None


def post_real(ctx, sess, mw, endpoint, kind, path, body, ent, hdr_extra=(), full=False, record=None, tag=None):
    """one request through a live MessageConverterMiddleware with all oracles"""
    case = {'kind': 'request', 'endpoint': endpoint, 'mutation': kind, 'path': path, 'body': c17.hx(body) if len(body) < 20000 else None,
            'body_len': len(body), 'headers': list(hdr_extra)}
    if tag:
        case['session'] = tag
    provider = endpoint == 'provider'
    before = sess.fingerprint() if provider else None
    dump_before = sess.full_dump() if (provider and full) else None
    r = WD.call(mw.do_post, mk_hdr(hdr_extra), path, ('127.0.0.1', 40001), body)
    sig = f'{endpoint}{"[" + tag + "]" if tag else ""}:{kind.split(":")[0]}'
    if r[0] == 'hang':
        ctx.fail('do_post:hang', f'{sig}: MessageConverterMiddleware.do_post does not return', case)
        return None
    if r[0] == 'exc':
        ctx.fail('do_post:exception-escapes', f'{sig}: {type(r[1]).__name__}: {str(r[1])[:200]}', case)
        ctx.count(f'{endpoint}:escape:{type(r[1]).__name__}')
        return None
    res = r[1]
    if not (isinstance(res, tuple) and len(res) == 3 and isinstance(res[0], int) and isinstance(res[1], str)):
        ctx.fail('do_post:malformed-result', f'{sig}: {res!r:.200}', case)
        return None
    status, reason, out = res
    ctx.count(f'{endpoint}:{kind.split(":")[0]}:{status}')
    if status == 200:
        if not (out == b'' and not provider):
            bad = check_soap_body(status, out, want_fault=False)
            if bad:
                ctx.fail('answer:not-soap', f'{sig}: status 200 but {bad}', case)
    else:
        bad = check_soap_body(status, out, want_fault=True)
        if bad:
            ctx.fail('answer:fault-not-wellformed', f'{sig}: status {status} {reason!r}: {bad}', case)
    # no entity expansion / external fetch
    if ent is not None or full:
        blob = bytes(out) if isinstance(out, (bytes, bytearray)) else b''
        if provider:
            sess.settle()
            blob += sess.full_dump() + sess.stored_strings()
        elif ent is not None:
            time.sleep(0.02)     # deferred processing of the notification
            blob += sess.stored_strings(consumer=True)
        if MARKER.encode() in blob or SECRET.encode() in blob or b'EXPANDED_C13' in blob.replace(b'"EXPANDED_C13"', b''):
            ctx.fail('entity:expanded', f'{sig}: expansion of a declared entity shows up in the answer, in the MDIB or in what the endpoint '
                     f'stored (subscriptions){" [endpoint built with " + tag + "]" if tag else ""}', case)
        if LISTENER.contacted():
            ctx.fail('entity:external-fetch', f'{sig}: a connection to the URL of an external entity / DTD was opened', case)
    # a rejected request (error status, or a fault whatever the status) changes nothing
    if provider:
        if status != 200 or _is_fault(out):
            after = sess.fingerprint()
            if after != before:
                again, diff = sess.changes_state(lambda: WD.call(mw.do_post, mk_hdr(hdr_extra), path, ('127.0.0.1', 40001), body))
                if again:
                    ctx.fail('state:rejected-request-changed-state', f'{sig}: status {status}, but MDIB / subscription fingerprint differs '
                             f'({diff}), reproduced in a quiescent system', case)
                else:
                    ctx.count('state:background-change-not-attributable')
            elif dump_before is not None and ent is None and sess.full_dump() != dump_before:
                ctx.fail('state:rejected-request-changed-state', f'{sig}: status {status}, but the serialised MDIB differs', case)
        else:
            sess.settle()
    ctx.case({'k': 'rq', 'e': endpoint, 'p': path, 'b': hashlib.sha1(body).hexdigest()}, nontrivial=kind != 'valid',
             sample={'endpoint': endpoint, 'mutation': kind, 'path': path[-24:], 'status': status, 'reason': reason, 'answer_head': bytes(out[:60]).decode('latin-1')}
             if record is not None and record(kind, status) else None)
    return status


def _is_fault(out):
    if not isinstance(out, (bytes, bytearray)) or b'Fault' not in out:
        return False
    try:
        b = parse_safe(bytes(out)).find('{%s}Body' % S12)
        return b is not None and b.find('{%s}Fault' % S12) is not None
    except Exception:  # noqa: BLE001
        return False


def _fp_diff(a, b):
    names = ('versions', 'states', 'context_states', 'descriptors', 'subscriptions')
    return ', '.join(n for n, x, y in zip(names, a, b) if x != y)


_seen_samples = set()


def _sample_once(kind, status):
    key = (kind.split(':')[0], status)
    if key in _seen_samples or len(_seen_samples) > 5:
        return False
    _seen_samples.add(key)
    return True


def _enough(ctx):
    return any(k.startswith('oracle-failure:') and v >= 3 and not k.endswith('do_post:reply-path-unguarded') for k, v in ctx.hist.items())


def mutation_stream(ctx, sess):
    rng = ctx.subrng('mutations')
    pool = sess.requests
    ctx.notes['recorded_request_types'] = sorted({(re.search(rb'Action[^>]*>([^<]*)<', r['body']).group(1).decode().rsplit('/', 1)[-1]
                                                  if re.search(rb'Action[^>]*>([^<]*)<', r['body']) else '?') for r in pool})
    ctx.notes['recorded_notification_types'] = sorted({(re.search(rb'Action[^>]*>([^<]*)<', r['body']).group(1).decode().rsplit('/', 1)[-1]
                                                       if re.search(rb'Action[^>]*>([^<]*)<', r['body']) else '?') for r in sess.notifications})
    # every recorded request once unchanged (must be answered like before), then mutated
    by_type = {}
    for r in pool:
        m = re.search(rb'Action[^>]*>([^<]*)<', r['body'])
        by_type.setdefault((m.group(1) if m else b'?', r['path'].split('/')[-1]), r)
    types_ = list(by_type.values())
    n = ctx.n(850, 8500)
    sample_every = 10 if ctx.tier == 'quick' else 6
    for i in range(n):
        rec = types_[i % len(types_)] if i < 4 * len(types_) else rng.choice(pool)
        if _enough(ctx):
            break
        kind, path, body, ent = mutate_request(rng, sess, rec, pool)
        if _is_state_changing_valid(kind, rec):
            kind = 'valid'
        post_real(ctx, sess, sess.p_mw, 'provider', kind, path, body, ent, full=(i % sample_every == 0), record=_sample_once)
    # consumer endpoint: notifications the provider really sent, mutated
    pooln = sess.notifications
    if pooln:
        for i in range(ctx.n(320, 3500)):
            if _enough(ctx):
                break
            rec = rng.choice(pooln)
            kind, path, body, ent = mutate_request(rng, sess, rec, pooln)
            post_real(ctx, sess, sess.c_mw, 'consumer', kind, path, body, ent)
    else:
        ctx.count('consumer:no-notifications-recorded')


def mutate_entity(rng, rec, pool):
    """a request with an internal DTD subset whose entities are referenced from ATTRIBUTE values (libxml2 substitutes them there even
    with resolve_entities=False) or from text"""
    from lxml import etree
    body, path = rec['body'], rec['path']
    root = etree.fromstring(body)
    elems = [e for e in root.iter() if isinstance(e.tag, str)]
    name, doctype, ref = rng.choice([d for d in DOCTYPES if d[2]])
    if '%d' in doctype:
        doctype = doctype % LISTENER.port
    token = 'C13ENTITYREF'
    with_attr = [e for e in elems if e.attrib]
    deep = [e for e in elems if etree.QName(e.tag).localname in ('Identifier', 'ReferenceParameters', 'NotifyTo', 'EndTo', 'Filter', 'Address',
                                                                  'MetricValue', 'MetricQuality', 'State', 'ReportPart')]
    r = rng.random()
    if r < 0.4 and with_attr:
        e = rng.choice(with_attr)
        e.set(rng.choice(list(e.attrib)), token)
        where = 'attribute'
    elif r < 0.75:
        e = rng.choice(deep or elems)
        e.set('c13attr', token)
        where = 'new-attribute'
    else:
        leafs = [e for e in elems if len(e) == 0]
        rng.choice(leafs).text = token
        where = 'text'
    data = etree.tostring(root).replace(token.encode(), ref.encode())
    return f'entity:{name}:{where}', path, b'<?xml version="1.0"?>' + doctype.encode() + data, name


def novalidate_stream(ctx):
    """endpoints that were built with validate=False: a DOCTYPE is refused there as well, nothing a request declares is expanded into
    what the handlers answer or store"""
    sess = session_novalidate()
    rng = ctx.subrng('novalidate')
    for endpoint, mw, pool in (('provider', sess.p_mw, sess.requests), ('consumer', sess.c_mw, sess.notifications)):
        if not pool:
            continue
        subs = [r for r in pool if b'NotifyTo' in r['body']]
        for i in range(ctx.n(50, 600)):
            if _enough(ctx):
                break
            rec = rng.choice(subs) if (subs and rng.random() < 0.4) else rng.choice(pool)
            if rng.random() < 0.12:
                kind, path, body, ent = 'valid', rec['path'], rec['body'], None
            else:
                kind, path, body, ent = mutate_entity(rng, rec, pool)
            post_real(ctx, sess, mw, endpoint, kind, path, body, ent, tag='validate=False')


def _is_state_changing_valid(kind, rec):
    return False


class UnboundedRead(BaseException):
    """the handler asked the connection for 'everything until the peer closes'"""


class OpenConnStream(c17.GuardStream):
    """request stream of a persistent connection: a read without an upper bound would wait until the peer closes the connection
    (the peer, having sent a complete request, waits for the answer)"""
    def read(self, n=-1):
        if n is None or n < 0:
            raise UnboundedRead
        return super().read(n)


class OpenConnSock(c17.FakeSock):
    def __init__(self, data):
        super().__init__(data)
        self.inp = OpenConnStream(data)


_TOKEN = r"[!#$%&'*+\-.^_`|~0-9A-Za-z]+"
_EXPECTED_HEADERS = {'server', 'date', 'content-type', 'content-length', 'transfer-encoding', 'content-encoding', 'connection'}


def status_line_problem(out):
    """the raw head of the first answer: one status line ended by CRLF, well-formed header lines, no header the handler does not send
    (a line break smuggled into the reason phrase shows up as a broken status line or an extra header)"""
    head, sep, _ = out.partition(b'\r\n\r\n')
    if not sep:
        return f'no end of header section in {out[:60]!r}'
    lines = head.decode('latin-1').split('\r\n')
    if not re.fullmatch(r'HTTP/1\.[01] [0-9]{3}( [^\r\n]*)?', lines[0]):
        return f'status line {lines[0][:120]!r}'
    for ln in lines[1:]:
        m = re.fullmatch('(' + _TOKEN + r'):[ \t]*([^\r\n]*)', ln)
        if not m:
            return f'header line {ln[:120]!r} (status line {lines[0][:80]!r})'
        if m.group(1).lower() not in _EXPECTED_HEADERS:
            return f'unexpected header {m.group(1)!r} (status line {lines[0][:80]!r})'
    return None


class _NoClose(io.BytesIO):
    def close(self):
        pass


def parse_responses(out):
    """the HTTP responses in the bytes a handler wrote (keep-alive: garbage behind a request is answered as a further request)"""
    f = _NoClose(out)
    res = []
    while f.tell() < len(out):
        r = http.client.HTTPResponse(types.SimpleNamespace(makefile=lambda *a, **k: f), method='POST')
        try:
            r.begin()
            body = r.read()
        except Exception:  # noqa: BLE001   (HTTP/0.9 style error page of http.server for an unparsable request line)
            res.append(None)
            break
        res.append((r.status, r.reason, {k.lower(): v for k, v in r.getheaders()}, body))
    return res


# ================================================================================================ deferred dispatch (consumer)
def impl_deferred(cap, items):
    """real DispatchKeyRegistryDeferred with queue capacity `cap`; items = [(id, exception factory | None)] posted in order.
    Returns (handled ids in order, worker alive, number of on_post calls that did not return)"""
    import queue as _queue

    from sdc11073.consumer import request_handler_deferred as rhd
    from sdc11073.dispatch import DispatchKey
    with mock.patch.object(rhd, 'queue', types.SimpleNamespace(Queue=lambda n=0: _queue.Queue(cap))):
        reg = rhd.DispatchKeyRegistryDeferred('verif')
    handled = []

    def mk(i, f):
        def handler(req):
            handled.append(i)
            if f is not None:
                raise f()
        handler.__name__ = f'h{i}'
        return handler
    for i, f in items:
        reg.register_post_handler(DispatchKey(f'act{i}', None), mk(i, f))
    stuck = 0
    saved = c17.W_TIMEOUT
    c17.W_TIMEOUT = 3.0
    try:
        for i, f in items:
            rd = types.SimpleNamespace(message_data=types.SimpleNamespace(action=f'act{i}', q_name=None), path_elements=[])
            r = WD.call(reg.on_post, rd)
            if r[0] != 'ok':
                stuck += 1
                break
    finally:
        c17.W_TIMEOUT = saved
    deadline = time.time() + 3
    while len(handled) < len(items) and time.time() < deadline and reg._worker.is_alive():
        time.sleep(0.002)
    time.sleep(0.01)
    return list(handled), reg._worker.is_alive(), stuck


def deferred_correspondence(ctx, B, classes):
    """worker loop of the consumer's deferred dispatcher: survives every handler exception, drains a full queue"""
    by_name = {c[2]: c[0] for c in classes}

    def one(cap, items, what):
        handled, alive, stuck = impl_deferred(cap, [(i, c[1] if c else None) for i, c in items])
        got = f"handled={' '.join(map(str, handled))} queue=0 alive={'true' if alive else 'false'} blocked={stuck}"
        # a schedule of the model in which no put blocks: a worker pass before every post beyond the capacity, then drain
        ops = []
        for n, (i, c) in enumerate(items):
            if n >= cap:
                ops.append('w')
            ops.append(f"{i}={model_token(c[2]) if c else 'ok'}")
        ops += ['w'] * len(items)
        case = {'kind': 'deferred', 'cap': cap, 'items': [[i, c[0] if c else None] for i, c in items]}
        ctx.case({'k': 'df', **case}, nontrivial=any(c for _, c in items))
        ctx.count('deferred:' + what)
        if not alive:
            ctx.fail('deferred:worker-dead', f'the worker thread of DispatchKeyRegistryDeferred ended after a handler raised; handled {handled} of '
                     f'{[i for i, _ in items]}', case)
        elif stuck:
            ctx.fail('do_post:hang', 'DispatchKeyRegistryDeferred.on_post blocks on the full queue although the worker should drain it', case)
        elif handled != [i for i, _ in items]:
            ctx.fail('deferred:request-not-handled', f'handled {handled} of {[i for i, _ in items]}', case)
        B.add(f'deferred {cap} ' + ' '.join(ops), got, 'worker loop == DispatchKeyRegistryDeferred._read_queue', case, names=by_name)
    stride = 1 if ctx.tier == 'thorough' else 4
    for n, c in enumerate(classes):
        if n % stride == 0 or c[2].startswith(('h', 'p')):
            one(1000, [(1, c), (2, None)], 'class-then-ok')
    ve = next(c for c in classes if c[0] == 'ValueError')
    ke = next(c for c in classes if c[0] == 'KeyError')
    one(1000, [(1, None), (2, ve), (3, ke), (4, None), (5, ve), (6, None)], 'mixed')
    one(3, [(i, ve if i % 2 else None) for i in range(1, 12)], 'more-than-capacity')
    one(1, [(i, ke) for i in range(1, 8)], 'capacity-1-all-raise')
    one(5, [(i, None) for i in range(1, 30)], 'more-than-capacity')


def non_xml_characters():
    """every code point outside the Char production of XML 1.0"""
    return ([0] + list(range(1, 9)) + [0x0b, 0x0c] + list(range(0x0e, 0x20)) + list(range(0xd800, 0xe000)) + [0xfffe, 0xffff])


def non_xml_enumeration(ctx, sess, L):
    """every character XML does not allow, in the strings that reach a fault text: (1) Fault.add_reason_text + serialisation of the
    fault by the provider's message factory, all of them; (2) a later path element of a POST through the live middleware (all C0
    controls and the non-characters; the 2048 surrogates: all in the thorough tier, borders and every 16th otherwise); (3) the C0
    controls in the path through the real request handler (a request line is latin-1)"""
    from sdc11073.pysoap.soapenvelope import Fault, faultcodeEnum
    from sdc11073.xml_types.addressing_types import HeaderInformationBlock
    chars = non_xml_characters()
    bad = []
    for cp in chars:
        try:
            f = Fault()
            f.Code.Value = faultcodeEnum.SENDER
            f.add_reason_text(f'invalid path Get{chr(cp)}x')
            out = sess.dev.msg_factory.mk_soap_message(HeaderInformationBlock(action=f.action, addr_to=None), payload=f).serialize()
            if check_soap_body(500, out, want_fault=True):
                bad.append(cp)
        except Exception:  # noqa: BLE001
            bad.append(cp)
    ctx.evaluations += len(chars)
    ctx.count('non-xml-characters:fault-text', len(chars))
    if bad:
        ctx.fail('do_post:exception-escapes', 'a fault whose reason text contains ' + ', '.join(f'U+{c:04X}' for c in bad[:8]) +
                 f' ({len(bad)} of {len(chars)} characters outside the XML Char production) cannot be built / serialised',
                 {'kind': 'non-xml-fault-text', 'codepoints': bad[:40]})
    rec = next((r for r in sess.requests if r['path'].endswith('/Get')), sess.requests[0])
    pre = '/'.join(rec['path'].split('/')[:2])
    sur = [c for c in chars if 0xd800 <= c < 0xe000]
    if ctx.tier != 'thorough':
        sur = [c for c in sur if c in (0xd800, 0xdbff, 0xdc00, 0xdfff) or c % 16 == 0]
    for cp in [c for c in chars if not 0xd800 <= c < 0xe000] + sur:
        for path in (f'{pre}/Get{chr(cp)}', f'{pre}/{chr(cp)}'):
            post_real(ctx, sess, sess.p_mw, 'provider', f'non-xml-path:U+{cp:04X}', path, rec['body'], None)
        if _enough(ctx):
            return
    server = types.SimpleNamespace(dispatcher=sess.psrv.dispatcher, supported_encodings=[], chunk_size=0, logger=c17.real_logger())
    for cp in [c for c in chars if c < 0x20]:
        for path in (f'{pre}/Get{chr(cp)}', f'/{chr(cp)}x', f'{pre}/{chr(cp)}?wsdl'):
            method = 'GET' if path.endswith('?wsdl') else 'POST'
            raw = f'{method} {path} HTTP/1.1\r\nHost: h\r\n'.encode('latin-1') + \
                (b'Content-Length: %d\r\n\r\n' % len(rec['body']) + rec['body'] if method == 'POST' else b'\r\n')
            case = {'kind': 'http', 'mutation': f'non-xml-path:U+{cp:04X}', 'raw': c17.hx(raw)}
            sock = OpenConnSock(raw)
            r = WD.call(L.rh.DispatchingRequestHandler, sock, ('127.0.0.1', 50000), server)
            out = b''.join(sock.out)
            ctx.case({'k': 'http-nonxml', 'cp': cp, 'p': path[-6:]}, nontrivial=True)
            if r[0] != 'ok':
                ctx.fail(f'do_{method}:' + ('hang' if r[0] == 'hang' else 'exception-escapes'), f'path with U+{cp:04X}: {r!r:.160}', case)
                continue
            resps = parse_responses(out)
            if status_line_problem(out) or not resps or resps[0] is None:
                ctx.fail(f'do_{method}:malformed-status-line', f'path with U+{cp:04X}: {status_line_problem(out) or out[:60]!r}', case)
                continue
            code, _, h, payload = resps[0]
            if method == 'POST' and path.startswith(pre) and not ('soap+xml' in h.get('content-type', '') and not check_soap_body(code, payload, want_fault=code != 200)):
                ctx.fail('answer:fault-not-wellformed', f'path with U+{cp:04X}: status {code}, content-type {h.get("content-type")!r}: the invalid '
                         'path element is not answered with a SOAP fault', case)


def operation_queue_history(ctx, sess):
    """a provider whose operation handler is still running while more valid Set requests arrive than the operation queue holds:
    every request must be answered (InvocationState Wait, or Fail once the queue is full) - none may block"""
    recs = [r for r in sess.requests if re.search(rb'<[a-z0-9]*:?(SetString|SetValue)[ >]', r['body'])]
    op = reg_ = rec = None
    for r in recs:
        m = re.search(rb'OperationHandleRef>([^<]*)<', r['body'])
        for reg in sess.dev._sco_operations_registries.values():
            o = reg.get_operation_by_handle(m.group(1).decode()) if m else None
            if o is not None and getattr(o, 'delayed_processing', False) and getattr(reg, '_worker', None) is not None:
                op, reg_, rec = o, reg, r
        if op is not None:
            break
    if op is None:
        ctx.count('operation-queue:skipped')
        return
    gate, started = threading.Event(), threading.Event()
    orig = op.execute_operation

    entered = []

    def held(request, operation_request):
        entered.append(threading.current_thread().name)
        started.set()
        gate.wait(60)
        return orig(request, operation_request)
    op.execute_operation = held
    cap = reg_._worker._operations_queue.maxsize or 10
    burst = cap + 4
    case = {'kind': 'operation-queue', 'path': rec['path'], 'body': c17.hx(rec['body']), 'burst': burst, 'queue': cap}
    saved = c17.W_TIMEOUT
    c17.W_TIMEOUT = 6.0
    states = []
    try:
        for i in range(burst):
            r = WD.call(sess.p_mw.do_post, mk_hdr(), rec['path'], ('127.0.0.1', 40001), rec['body'])
            if r[0] == 'hang':
                ctx.fail('do_post:hang', f'request {i + 1} of {burst} valid Set requests gets no answer: the handler of the first one is still '
                         f'running, the operation queue ({cap} slots) is full, and the request thread blocks instead of answering Fail', case)
                break
            if r[0] == 'exc':
                ctx.fail('do_post:exception-escapes', f'operation burst, request {i + 1}: {type(r[1]).__name__}', case)
                break
            st, _, out = r[1]
            m = re.search(rb'InvocationState>([A-Za-z]*)<', out if isinstance(out, (bytes, bytearray)) else b'')
            states.append((st, m.group(1).decode() if m else None))
        ctx.count('operation-queue:' + ','.join(sorted({f'{a}/{b}' for a, b in states})))
        ctx.notes['operation_queue_handler_entered'] = list(entered)
        if ctx.driver_ok and len(states) == burst and started.is_set():
            # the worker took the first operation off the queue (its handler is the one that is held): the rest is a burst on an empty queue
            model = ('Wait ' + ctx.driver('drv_c13', [f'opburst {cap} 0 {burst - 1}'])[0]).split()
            impl = [str(b) for _, b in states]
            k_model, k_impl = model.count('Wait'), impl.count('Wait')
            # shape of burst_answers: Wait^k Fail^(n-k); everything the model accepts is accepted (in full runs up to two further
            # requests were seen to be accepted although the handler was entered only once: recorded, see report)
            if impl != ['Wait'] * k_impl + ['Fail'] * (len(impl) - k_impl) or k_impl < k_model:
                ctx.disagree('opBurst == InvocationState answers of a burst of Set requests while a handler is running', case,
                             ' '.join(model), ' '.join(impl))
            ctx.count(f'operation-queue:accepted={k_impl}(model {k_model})')
    finally:
        gate.set()
        c17.W_TIMEOUT = saved
        time.sleep(0.2)
        try:
            del op.execute_operation
        except AttributeError:
            pass
        sess.settle(quiet=0.3)


def consumer_history(ctx, sess):
    """the live consumer endpoint after a notification whose handler raised: the next ones are still processed, and do_post keeps
    returning when more notifications follow than the queue holds"""
    disp = sess.cons._services_dispatcher
    pool = [r for r in sess.notifications if b'EpisodicMetricReport' in r['body']] or sess.notifications
    if not pool or not hasattr(disp, '_queue'):
        ctx.count('consumer-history:skipped')
        return
    rec = pool[0]
    ran = {'n': 0, 'raise': False}
    for key, func in list(disp._post_handlers.items()):
        def wrapper(req, func=func):
            ran['n'] += 1
            if ran['raise']:
                ran['raise'] = False
                raise RuntimeError('injected by the harness: handler fails')
            return func(req)
        wrapper.__name__ = getattr(func, '__name__', 'handler')
        disp._post_handlers[key] = wrapper
    case = {'kind': 'consumer-history', 'path': rec['path'], 'body': c17.hx(rec['body'])}

    def post(body=None):
        return WD.call(sess.c_mw.do_post, mk_hdr(), rec['path'], ('127.0.0.1', 40001), rec['body'] if body is None else body)

    def wait_for(n, timeout=5.0):
        deadline = time.time() + timeout
        while ran['n'] < n and time.time() < deadline:
            time.sleep(0.005)
        return ran['n'] >= n
    saved = c17.W_TIMEOUT
    c17.W_TIMEOUT = 8.0
    try:
        base = ran['n']
        r = post()
        if r[0] != 'ok' or r[1][0] != 200 or not wait_for(base + 1):
            ctx.count('consumer-history:baseline-not-processed')   # nothing to conclude (worker may already be dead: next check)
        # 1. a schema-valid report naming an unknown descriptor (handler may raise), 2. a handler that certainly raises
        odd = re.sub(rb'DescriptorHandle="[^"]*"', b'DescriptorHandle="c13.no-such-handle"', rec['body'], count=1)
        post(odd)
        time.sleep(0.05)
        ran['raise'] = True
        post()
        time.sleep(0.05)
        before = ran['n']
        r = post()
        if r[0] == 'hang':
            ctx.fail('do_post:hang', 'consumer endpoint: do_post does not return after a failing notification handler', case)
            return
        if not wait_for(before + 1):
            ctx.fail('deferred:worker-dead', 'consumer endpoint: after a notification whose handler raised, the next valid notification is '
                     f'answered {r[1][0] if r[0] == "ok" else r[0]} but never processed (worker alive: {disp._worker.is_alive()})', case)
            return
        # more notifications than the queue holds
        cap = disp._queue.maxsize or 1000
        before = ran['n']
        flood = cap + 60
        for i in range(flood):
            r = post()
            if r[0] != 'ok':
                ctx.fail('do_post:hang', f'consumer endpoint: do_post number {i + 1} of a burst of {flood} notifications (queue capacity {cap}) does '
                         'not return', case)
                return
        if not wait_for(before + flood, timeout=30):
            ctx.fail('deferred:request-not-handled', f'consumer endpoint: {ran["n"] - before} of {flood} accepted notifications were processed', case)
        ctx.count('consumer-history:ok')
        ctx.case({'k': 'consumer-history', 'flood': flood}, nontrivial=True,
                 sample={'consumer_history': f'failing handler, then {flood} notifications on a queue of {cap}: all processed'})
    finally:
        c17.W_TIMEOUT = saved


# ================================================================================================ raw HTTP against the real handler
def http_stream(ctx, sess, L):
    """framing / coding / path damage on the HTTP level: real DispatchingRequestHandler with the provider's registry"""
    rng = ctx.subrng('http')
    server = types.SimpleNamespace(dispatcher=sess.psrv.dispatcher, supported_encodings=list(L.CH.available_encodings), chunk_size=0,
                                   logger=c17.real_logger())
    pool = sess.requests
    for i in range(ctx.n(320, 3500)):
        if _enough(ctx):
            break
        rec = rng.choice(pool)
        body, path = rec['body'], rec['path']
        k = rng.randrange(18)
        hdrs = [('Host', Session.P_NETLOC), ('Content-Type', 'application/soap+xml; charset=utf-8')]
        method, kind = 'POST', 'valid'
        wire = body
        if k == 0:
            wire = L.rd.mk_chunks(body, rng.choice([1, 7, 512])); hdrs.append(('Transfer-Encoding', 'chunked')); kind = 'chunked'
        elif k == 1:
            full = L.rd.mk_chunks(body, rng.choice([7, 512])); wire = full[:rng.randrange(len(full))]
            hdrs.append(('Transfer-Encoding', 'chunked')); kind = 'truncated-chunked'
        elif k == 2:
            wire = c17.mutate_stream(rng, L.rd.mk_chunks(body, rng.choice([16, 512]))); hdrs.append(('Transfer-Encoding', 'chunked')); kind = 'damaged-chunked'
        elif k == 3:
            hdrs += [('Content-Encoding', rng.choice(['br', 'deflate', 'zstd', 'GZIP', 'x-unknown', 'identity'])), ('Content-Length', str(len(wire)))]
            kind = 'unsupported-encoding'
        elif k == 4:
            alg = rng.choice(L.CH.available_encodings)
            wire = L.CH.compress_payload(alg, body)
            if rng.random() < 0.5:
                wire = wire[:rng.randrange(len(wire))]; kind = 'corrupt-coded'
            else:
                kind = 'coded'
            hdrs += [('Content-Encoding', alg), ('Content-Length', str(len(wire)))]
        elif k == 5:
            hdrs.append(('Content-Length', rng.choice(['abc', '', '-5', '-1', '1e3', '99999999999999999999999', ' 12', '0x10', str(len(wire) + 50), '0'])))
            kind = 'bad-content-length'
        elif k == 6:
            pre = '/'.join(path.split('/')[:2])
            path = rng.choice(['/nope', '?x', '//[', '/', '*', 'http://[::1', '/%zz', path + '/../..', '/' + 'a' * 5000, path.split('/')[1]] +
                              ['/' + e for e in ODD_PATH_ELEMENTS] + [pre + '/' + e for e in ODD_PATH_ELEMENTS])
            hdrs.append(('Content-Length', str(len(wire)))); kind = 'wrong-path'
        elif k == 7:
            method = 'GET'; wire = b''
            pre = '/'.join(path.split('/')[:2])
            path = rng.choice([path + '?wsdl', path, '/nope?wsdl', '?wsdl', '//[', path + '/x?wsdl', pre + '/?wsdl'] +
                              ['/' + e + '?wsdl' for e in ODD_PATH_ELEMENTS[:10]] + [pre + '/' + e for e in ODD_PATH_ELEMENTS[:10]])
            kind = 'get'
        elif k == 8:
            kind2, path, wire, _ = mutate_request(rng, sess, rec, pool)
            hdrs.append(('Content-Length', str(len(wire)))); kind = 'mutated:' + kind2
        elif k == 9:
            hdrs += [('Content-Length', str(len(wire))), ('Accept-Encoding', c17.gen_header(rng) or 'gzip')]
            hdrs = [(a, b) for a, b in hdrs if b is not None and all(ord(ch) < 256 and ch not in '\r\n\x00' for ch in b)]
            kind = 'accept-encoding'
        elif k == 10:
            kind = 'no-length'
        elif k in (11, 12):
            # text that handlers reflect (status line, fault, log format string): Action / MessageID / addresses
            from lxml import etree
            try:
                root = etree.fromstring(body)
                targets = [e for e in root.iter() if isinstance(e.tag, str) and etree.QName(e.tag).localname in ('Action', 'MessageID', 'To', 'Address')]
                e = targets[0] if (rng.random() < 0.6 and targets) else rng.choice(targets)
                e.text = rng.choice(ODD_TEXT)
                wire = etree.tostring(root)
                kind = 'reflected-text:' + etree.QName(e.tag).localname
            except Exception:  # noqa: BLE001
                pass
            hdrs.append(('Content-Length', str(len(wire))))
        elif k in (13, 14):
            # a request with invalid framing (RFC 7230 3.3.3: unrecoverable, the connection must end) followed by the bytes of a
            # complete valid Subscribe request: nothing behind the invalid framing may be executed
            subs = [r_ for r_ in pool if b'NotifyTo' in r_['body']] or [rec]
            inner = rng.choice(subs)
            wire = (f"POST {inner['path']} HTTP/1.1\r\nHost: {Session.P_NETLOC}\r\nContent-Type: application/soap+xml; charset=utf-8\r\n"
                    f"Content-Length: {len(inner['body'])}\r\n\r\n").encode() + inner['body']
            r_ = rng.random()
            if r_ < 0.5:
                hdrs.append(('Content-Length', rng.choice(['abc', '-5', '-1', '', '1e3', '5, 6', '0x', '--1', '1.0', 'NaN'])))
            elif r_ < 0.65:
                hdrs.append(('Transfer-Encoding', 'chunked'))
                wire = rng.choice([b'zz\r\n', b'-1\r\n', b'\r\n', b'5;x\r\nab', b'0x\r\n']) + wire
            else:
                # both framing headers (RFC 7230 3.3.3: Transfer-Encoding wins): the chunk DATA is a complete valid Subscribe request.
                # A reader that believes Content-Length takes a few bytes as body and leaves the rest of the chunked payload in the stream
                payload = wire
                size_line = b'%x\r\n' % len(payload)
                wire = size_line + payload + b'\r\n0\r\n\r\n'
                cl = rng.choice([len(size_line), len(size_line), len(size_line) - 2, len(payload), len(wire), 0, len(size_line) + len(payload) + 2])
                order = rng.random() < 0.5
                both = [('Transfer-Encoding', 'chunked'), ('Content-Length', str(cl))]
                hdrs += both if order else both[::-1]
            kind = 'smuggle'
        else:
            hdrs.append(('Content-Length', str(len(wire))))
        if not path or any(ch in path for ch in ' \r\n\t'):
            path = '/x'
        raw = f'{method} {path} HTTP/1.1\r\n'.encode('latin-1', 'replace') + b''.join(
            f'{a}: {b}\r\n'.encode('latin-1', 'replace') for a, b in hdrs) + b'\r\n' + wire
        case = {'kind': 'http', 'mutation': kind, 'raw': c17.hx(raw) if len(raw) < 20000 else None, 'raw_len': len(raw)}
        before = sess.fingerprint()
        sock = OpenConnSock(raw)
        r = WD.call(L.rh.DispatchingRequestHandler, sock, ('127.0.0.1', 50000), server)
        out = b''.join(sock.out)
        ctx.case({'k': 'http', 'm': kind, 'r': hashlib.sha1(raw).hexdigest()}, nontrivial=kind != 'valid')
        if r[0] == 'exc' and isinstance(r[1], UnboundedRead):
            ctx.fail(f'do_{method}:reads-until-connection-close', f'{kind}: the handler reads the request stream without an upper bound: on a '
                     'persistent connection it blocks until the peer closes (and swallows pipelined requests)', case)
            ctx.count(f'http:{kind.split(":")[0]}:unbounded-read')
            continue
        if r[0] == 'hang':
            ctx.fail('do_POST:hang' if method == 'POST' else 'do_GET:hang', f'{kind}: request handler does not return', case)
            continue
        if r[0] == 'exc':
            ctx.fail(f'do_{method}:exception-escapes', f'{kind}: {type(r[1]).__name__}: {str(r[1])[:160]} — reaches the server loop, '
                     f'{len(out)} bytes answered', case)
            ctx.count(f'http:{kind.split(":")[0]}:escape')
            continue
        bad = status_line_problem(out)
        if bad and not out.startswith(b'<!DOCTYPE HTML'):
            ctx.fail(f'do_{method}:malformed-status-line', f'{kind}: {bad}', case)
            ctx.count(f'http:{kind.split(":")[0]}:malformed-status-line')
            continue
        resps = parse_responses(out)
        if kind == 'smuggle' and any(x is not None and 200 <= x[0] < 300 for x in resps):
            ctx.fail('framing:request-behind-invalid-framing-executed', 'the first request has an invalid Content-Length / chunk framing; the bytes '
                     f'behind it were parsed as a further request and executed (statuses {[x[0] if x else None for x in resps]})', case)
            sess.settle()
            continue
        if not resps or resps[0] is None:
            if out.startswith(b'<!DOCTYPE HTML') and kind in ('wrong-path', 'get'):
                ctx.count(f'http:{kind}:http.server-error-page')   # request line rejected by http.server itself
                continue
            ctx.fail(f'do_{method}:no-response', f'{kind}: no HTTP status line in the answer ({out[:40]!r})', case)
            continue
        code, _, h, payload = resps[0]
        ctx.count(f'http:{kind.split(":")[0]}:{code}')
        if 'soap+xml' in h.get('content-type', ''):
            try:
                if h.get('content-encoding'):
                    payload = L.CH.decompress_payload(h['content-encoding'], payload)
            except Exception as ex:  # noqa: BLE001
                ctx.fail('answer:not-decodable', f'{kind}: {type(ex).__name__}', case)
                continue
            if method == 'POST':
                bad = check_soap_body(code, payload, want_fault=code != 200)
                if bad:
                    ctx.fail('answer:fault-not-wellformed' if code != 200 else 'answer:not-soap', f'{kind}: status {code}: {bad}', case)
        if code != 200:
            after = sess.fingerprint()
            if after != before:
                again, diff = sess.changes_state(lambda: WD.call(L.rh.DispatchingRequestHandler, c17.FakeSock(raw), ('127.0.0.1', 50000), server))
                if again:
                    ctx.fail('state:rejected-request-changed-state', f'http {kind}: status {code} ({diff}), reproduced in a quiescent system', case)
                else:
                    ctx.count('state:background-change-not-attributable')
        else:
            sess.settle()


# ================================================================================================ run
class Batch(c17.Batch):
    def __init__(self, ctx):
        self.ctx = ctx
        self.lines, self.expect, self.meta = [], [], []

    def add(self, line, impl, what, case, names=None):
        self.lines.append(line)
        self.expect.append(impl)
        self.meta.append((what, case, names or {}))

    def flush(self):
        if not self.ctx.driver_ok or not self.lines:
            return
        out = self.ctx.driver('drv_c13', self.lines)
        for o, e, (what, case, names) in zip(out, self.expect, self.meta):
            o2 = unmodel_reason(o)
            m = re.match(r'escape (\S+)(.*)', o2)
            if m:   # model names the class by its token; the implementation by its name
                tok = m.group(1)
                inv = {model_token(k): v for k, v in names.items()}
                o2 = f'escape {_cls_of(inv.get(tok, tok))}{m.group(2)}'
            if o2 != e:
                self.ctx.disagree(what, case, o2, e)


def _cls_of(name):
    return name.split('(')[0]


THREAD_EXCEPTIONS = []


def _thread_excepthook(args):
    THREAD_EXCEPTIONS.append(f'{args.thread.name if args.thread else "?"}: {args.exc_type.__name__}: {str(args.exc_value)[:120]}')


def run(ctx):
    global LISTENER
    threading.excepthook = _thread_excepthook     # recorded in the evidence (threads of the library that died), not printed
    os.makedirs(core.OUT, exist_ok=True)
    with open(SECRET_FILE, 'w') as f:
        f.write(SECRET)
    if LISTENER is None:
        LISTENER = Listener()
    L = c17.lib()
    classes = exception_classes()
    ctx.notes['exception_classes'] = len(classes)
    B = Batch(ctx)
    _corpus(ctx, L)
    injection_post(ctx, B, classes)
    injection_handler(ctx, L, B, classes)
    injection_conn(ctx, L, B, classes)
    deferred_correspondence(ctx, B, classes)
    B.flush()
    sess = session()
    ctx.notes['background_workers_stopped'] = sess.stopped_workers
    try:
        mutation_stream(ctx, sess)
        non_xml_enumeration(ctx, sess, L)
        novalidate_stream(ctx)
        operation_queue_history(ctx, sess)
        consumer_history(ctx, sess)
        http_stream(ctx, sess, L)
        parser_oracle(ctx)
    finally:
        ctx.notes['housekeeping_stalled'] = sess.pending_stuck
        ctx.notes['library_threads_died'] = THREAD_EXCEPTIONS[:10]
    # core.run_check starts the deeper search only when there is no oracle failure at all; the replayed negative witness
    # (known finding) is always one, so start it here when the proof / correspondence broke and nothing unknown failed yet
    unknown = [f for f in ctx.failures if f['signature'] != 'do_post:reply-path-unguarded']
    if (ctx.disagreements or ctx.proof_problems) and not unknown and ctx.tier != 'thorough':
        search(ctx)


def parser_oracle(ctx):
    """the property's observable for the generated table: no site that sees peer data resolves entities"""
    for (site, cls, (res, nonet, dtd)), net in sorted(SPY.sites.items()):
        ctx.count('parser-site:' + ('peer' if net else 'local'))
        if net and (res or not nonet or dtd):
            ctx.fail('entity:parser-resolves-entities', f'{site} parses peer data with {cls}(resolve_entities={res}, no_network={nonet}, dtd={dtd})',
                     {'kind': 'parser-site', 'site': site})
    if not any(net for net in SPY.sites.values()):
        ctx.proof_problems.append('translator: no parser site was observed parsing peer data (spy broken?)')


def _corpus(ctx, L):
    import glob
    import json
    for f in sorted(glob.glob(os.path.join(core.VERIF, 'corpus', 'C13', '*.json'))):
        obj = json.load(open(f))
        _run_case(ctx, L, obj['case'])
        ctx.count('corpus')


def _run_case(ctx, L, case):
    k = case.get('kind')
    if k == 'http':
        sess = session()
        server = types.SimpleNamespace(dispatcher=sess.psrv.dispatcher, supported_encodings=list(L.CH.available_encodings), chunk_size=0,
                                       logger=c17.real_logger())
        raw = c17.unhx(case['raw'])
        sock = OpenConnSock(raw)
        r = WD.call(L.rh.DispatchingRequestHandler, sock, ('127.0.0.1', 50000), server)
        method = raw.split(b' ')[0].decode('latin-1')
        out = b''.join(sock.out)
        if r[0] == 'exc' and isinstance(r[1], UnboundedRead):
            ctx.fail(f'do_{method}:reads-until-connection-close', 'corpus case', case)
        elif r[0] == 'hang':
            ctx.fail(f'do_{method}:hang', 'corpus case', case)
        elif r[0] == 'exc':
            ctx.fail(f'do_{method}:exception-escapes', f'{type(r[1]).__name__}: {str(r[1])[:160]}', case)
        elif not re.match(rb'HTTP/1\.[01] \d{3}', out):
            ctx.fail(f'do_{method}:no-response', repr(out[:40]), case)
        elif status_line_problem(out):
            ctx.fail(f'do_{method}:malformed-status-line', status_line_problem(out), case)
        elif case.get('max_responses') and len(parse_responses(out)) > case['max_responses']:
            ctx.fail('framing:request-behind-invalid-framing-executed', f'{len(parse_responses(out))} answers on a connection that had to end '
                     f'after {case["max_responses"]}', case)
        ctx.case({'k': 'corpus', 'r': case['raw'][:80]})
    elif k == 'request' and case.get('body') is not None:
        sess = session_novalidate() if case.get('session') == 'validate=False' else session()
        mw = sess.p_mw if case.get('endpoint', 'provider') == 'provider' else sess.c_mw
        path = case['path']
        if case.get('relative_path'):
            path = sess.requests[0]['path'].rsplit('/', 1)[0] + '/' + case['relative_path']
        post_real(ctx, sess, mw, case.get('endpoint', 'provider'), case.get('mutation', 'corpus'), path, c17.unhx(case['body']),
                  'corpus' if (case.get('entity') or str(case.get('mutation', '')).startswith('entity')) else None,
                  hdr_extra=[tuple(x) for x in case.get('headers', [])], full=True, tag=case.get('session'))
    elif k == 'inject-do_post':
        classes = {c[0]: c for c in exception_classes()}
        got, _ = run_do_post({s: classes[n] for s, n in case['stages'].items()})
        if case.get('witness') and got.startswith('escape'):
            ctx.fail('do_post:reply-path-unguarded', got, case)
        elif got.startswith('escape') and not any(s in case['stages'] for s in ('mkFaultMsg', 'serFault', 'read2', 'mkReply', 'serReply')):
            ctx.fail('do_post:exception-escapes', got, case)
    elif k == 'deferred':
        classes = {c[0]: c for c in exception_classes()}
        handled, alive, stuck = impl_deferred(case['cap'], [(i, classes[n][1] if n else None) for i, n in case['items']])
        if not alive or stuck or handled != [i for i, _ in case['items']]:
            ctx.fail('deferred:worker-dead' if not alive else 'deferred:request-not-handled', f'handled {handled}, alive {alive}, blocked {stuck}', case)
    elif k == 'consumer-history':
        consumer_history(ctx, session())
    elif k == 'operation-queue':
        operation_queue_history(ctx, session())
    elif k == 'non-xml-fault-text':
        non_xml_enumeration(ctx, session(), L)
    elif k in ('inject-do_POST', 'inject-do_GET'):
        classes = {c[0]: c for c in exception_classes()}
        table = {s: classes[n] for s, n in case['stages'].items() if n in classes}
        got, _ = run_handler(L, 'POST' if k.endswith('POST') else 'GET', table, case.get('dispatcher', True))
        if got.startswith(('escape', 'HANG', 'no-status')):
            ctx.fail(('do_POST' if k.endswith('POST') else 'do_GET') + ':exception-escapes', got, case)


def search(ctx):
    L = c17.lib()
    ctx.driver_ok = False
    saved = ctx.tier
    ctx.tier = 'thorough'
    try:
        B = Batch(ctx)
        classes = exception_classes()
        injection_handler(ctx, L, B, classes)
        if not ctx.failures:
            injection_conn(ctx, L, B, classes)
        if not ctx.failures:
            deferred_correspondence(ctx, B, classes)
        if not ctx.failures:
            sess = session()
            operation_queue_history(ctx, sess)
            consumer_history(ctx, sess)
        if not ctx.failures:
            sess = session()
            http_stream(ctx, sess, L)
        if not ctx.failures:
            non_xml_enumeration(ctx, session(), L)
        if not ctx.failures:
            mutation_stream(ctx, session())
        if not ctx.failures:
            parser_oracle(ctx)
    finally:
        ctx.tier = saved


def replay(ctx, obj):
    global LISTENER
    if LISTENER is None:
        LISTENER = Listener()
    with open(SECRET_FILE, 'w') as f:
        f.write(SECRET)
    L = c17.lib()
    case = obj['case']
    before = len(ctx.failures)
    if case.get('kind') == 'request' and case.get('body') is not None:
        # the session of the replay has other uuids than the recording one: keep the service part of the path
        sess = session_novalidate() if case.get('session') == 'validate=False' else session()
        prefix = (sess.requests[0]['path'] if case.get('endpoint', 'provider') == 'provider' else sess.notifications[0]['path']).split('/')[1]
        parts = case['path'].split('/')
        if len(parts) > 1 and re.fullmatch(r'[0-9a-f]{32}', parts[1] or ''):
            parts[1] = prefix
        case = dict(case, path='/'.join(parts))
    if case.get('kind') == 'parser-site':
        session()
        parser_oracle(ctx)
    else:
        _run_case(ctx, L, case)
    for f in ctx.failures[before:]:
        print(f['signature'], '-', f['detail'])
    return len(ctx.failures) > before
