"""C03 — transactions are atomic and the data they hand out is isolated from the MDIB.

Same model, driver and history generator as C02 (harness/txharness.py), with (a) abort points (application raises),
rejected API calls (propagating or caught) and commit-time rejections in the histories, (b) *late writes*: after every
`with` block the harness writes at every nesting depth into every object the transaction handed out and into the objects
of the TransactionResult; the value-level Lean model has isolation by construction, so any leak shows up as a
model/implementation difference in the next table dump, and the oracle compares full snapshots directly.
"""
from __future__ import annotations

import core
import loopback as lb
import txharness as tx
from props import c02

READY = True
DRIVERS = ['drv_c03']
MANIFEST = dict(
    technique='Lean 4 theorems (abort / rejection / commit-time rejection leave the model state unchanged; commit never '
              'fails half-way on well-formed tables) + differential correspondence with late writes into all handed-out objects',
    text='Properties/C03.lean (14 theorems) proves over the transcribed transaction model, for every script of all seven kinds: an '
         'aborted, rejected or commit-rejected transaction returns exactly the tables it started from and an empty result (no '
         'report); a commit on well-formed tables cannot fail after its first mutation (descriptor commits: the only commit-time '
         'failure is the consistency check, which changes nothing); transaction_all_or_nothing. Isolation: a generated table of '
         'every hand-out route x container class (shared mutable objects with the MDIB object, observed with `is`) is proved '
         'empty by decide; the model is value-level, the real '
         'code is driven with writes at every nesting depth into every handed-out object and result object after each '
         'transaction, and must still agree with the model on every table dump; snapshots (content, versions, index '
         'consistency, sizes, wire messages) are compared before/after every non-commit.',
    note='Trusted: Lean kernel; harness/txharness.py; object identity abstracted to keys. Descriptors passed to '
         'add_descriptor are given to the MDIB (not handed out by it) and excluded from the isolation claim; failures of '
         'report serialisation inside the observers are not modelled.',
    ref='9 C03')
RULE = ('one case = one transaction script inside a history incl. abort / rejected call / commit-time rejection, followed by '
        'late writes into all handed-out objects; distinct by canonical script + position; non-trivial = has a call')
TRUSTED = c02.TRUSTED + ['deep_scribble reaches every nested mutable object through container properties']
ASSUMPTIONS = c02.ASSUMPTIONS

try:
    import mk_oracle
except Exception:  # noqa: BLE001
    mk_oracle = None


def handout_table():
    """Translator: for every hand-out route of the provider MDIB and one object of every state / descriptor class in the
    bundled MDIBs, the number of mutable objects (at any nesting depth, found with `is`) that the handed-out object
    shares with the object stored in the MDIB. `descriptor_container` and `node` are references by design and no
    container properties, they are not counted."""
    import sharing
    rows = []
    for path in c02.MDIBS:
        p = lb.Provider(mdib_path=path, start=False, role_providers=False)
        m = p.mdib
        w = tx.World(p, __import__('random').Random(7))
        try:
            by_cls = {}
            for s in sorted(m.states.objects, key=lambda s: s.DescriptorHandle):
                by_cls.setdefault(type(s).__name__, s)
            for cname, s in sorted(by_cls.items()):
                h = s.DescriptorHandle
                kind = tx.kind_of(s)
                mgr_name = {'metric': 'metric_state_transaction', 'alert': 'alert_state_transaction', 'component': 'component_state_transaction',
                            'operational': 'operational_state_transaction', 'rt': 'rt_sample_state_transaction'}[kind]
                # populate nested members first so that there is something to share
                with getattr(m, mgr_name)() as mgr:
                    st = mgr.get_state(h)
                    w.mutate_state(st, 5)
                table_obj = m.states.descriptor_handle.get_one(h)
                res = m.transaction
                rows.append(('result_vs_table', cname, len(sharing.sharing_matrix(res.all_states()[0], table_obj))))
                rows.append(('result_vs_handed_out', cname, len(sharing.sharing_matrix(res.all_states()[0], st))))
                rows.append(('handed_out_vs_table_after_commit', cname, len(sharing.sharing_matrix(st, table_obj))))
                try:
                    with getattr(m, mgr_name)() as mgr:
                        st2 = mgr.get_state(h)
                        rows.append(('get_state', cname, len(sharing.sharing_matrix(st2, table_obj))))
                        raise tx.AppAbort
                except tx.AppAbort:
                    pass
                ent = m.entities.by_handle(h)
                rows.append(('entities.by_handle.state', cname, len(sharing.sharing_matrix(ent.state, table_obj))))
                d_tab = m.descriptions.handle.get_one(h)
                rows.append(('entities.by_handle.descriptor', type(d_tab).__name__, len(sharing.sharing_matrix(ent.descriptor, d_tab))))
                e2 = m.get_entity(h)  # the older getter of MdibBase
                rows.append(('mdib.get_entity', cname, len(sharing.sharing_matrix(e2.state, table_obj)) + len(sharing.sharing_matrix(e2.descriptor, d_tab))
                             + int(e2.state is table_obj) + int(e2.descriptor is d_tab)))
                ent.update()          # a refreshed entity is as private as a fresh one
                rows.append(('entity.update.state', cname, len(sharing.sharing_matrix(ent.state, m.states.descriptor_handle.get_one(h)))
                             + len(sharing.sharing_matrix(ent.descriptor, d_tab))))
                try:
                    with m.descriptor_transaction() as mgr:
                        d2 = mgr.get_descriptor(h)
                        rows.append(('get_descriptor', type(d_tab).__name__, len(sharing.sharing_matrix(d2, d_tab))))
                        s3 = mgr.get_state(h)
                        rows.append(('descriptor_tx.get_state', cname, len(sharing.sharing_matrix(s3, table_obj))))
                        raise tx.AppAbort
                except tx.AppAbort:
                    pass
            for c in sorted(m.context_states.objects, key=lambda c: c.Handle)[:3]:
                with m.context_state_transaction() as mgr:
                    cs = mgr.get_context_state(c.Handle)
                    w.mutate_state(cs, 6)
                tab = m.context_states.handle.get_one(c.Handle)
                rows.append(('get_context_state_after_commit', type(c).__name__, len(sharing.sharing_matrix(cs, tab))))
                rows.append(('context_result_vs_table', type(c).__name__, len(sharing.sharing_matrix(m.transaction.ctxt_updates[0], tab))))
                # the entity getters for multi-state entities, and an entity refreshed with update()
                d_tab = m.descriptions.handle.get_one(tab.DescriptorHandle)
                routes = {'entities.by_handle.states': lambda: m.entities.by_handle(tab.DescriptorHandle),
                          'entities.by_node_type.states': lambda: next(e for e in m.entities.by_node_type(d_tab.NODETYPE) if e.handle == d_tab.Handle),
                          'entities.by_parent_handle.states': lambda: next(e for e in m.entities.by_parent_handle(d_tab.parent_handle) if e.handle == d_tab.Handle),
                          'entities.items.states': lambda: next(e for h_, e in m.entities.items() if h_ == d_tab.Handle)}
                for rname, get in routes.items():
                    e = get()
                    rows.append((rname, type(c).__name__, len(sharing.sharing_matrix(e.states[tab.Handle], tab))
                                 + len(sharing.sharing_matrix(e.descriptor, d_tab))))
                e2 = m.get_context_entity(tab.DescriptorHandle)
                rows.append(('mdib.get_context_entity', type(c).__name__, len(sharing.sharing_matrix(e2.states[tab.Handle], tab))
                             + len(sharing.sharing_matrix(e2.descriptor, d_tab)) + int(e2.states[tab.Handle] is tab) + int(e2.descriptor is d_tab)))
                e = m.entities.by_handle(tab.DescriptorHandle)
                with m.context_state_transaction() as mgr:
                    w.mutate_state(mgr.get_context_state(c.Handle), 8)
                tab = m.context_states.handle.get_one(c.Handle)
                e.update()
                rows.append(('entity.update.states', type(c).__name__, len(sharing.sharing_matrix(e.states[tab.Handle], tab))
                             + len(sharing.sharing_matrix(e.descriptor, m.descriptions.handle.get_one(tab.DescriptorHandle)))))
        finally:
            w.close()
    # one row per (route, class): the maximum over the MDIB files
    agg = {}
    for route, cls, n in rows:
        agg[(route, cls)] = max(agg.get((route, cls), 0), n)
    return sorted((r, c, n) for (r, c), n in agg.items())


def translate(ctx):
    lb.quiet()
    rows = handout_table()
    src = ('/-! generated by harness/props/c03.py: (hand-out route, class, number of mutable objects shared with the MDIB object) -/\n'
           'namespace Sdc.Generated\n\ndef handOuts : List (String × String × Nat) := [\n'
           + ',\n'.join(f'  ("{r}", "{c}", {n})' for r, c, n in rows) + '\n]\n\nend Sdc.Generated\n')
    core.write_if_changed(core.GENERATED + '/HandOuts.lean', src)
    ctx.notes['handout_rows'] = len(rows)


def full_snapshot(w):
    m = w.mdib
    snap = c02.norm_snap(lb.snapshot(m))
    snap['sizes'] = lb.snapshot_sizes(m)
    snap['saved'] = [dict(m.descriptions.handle_version_lookup), dict(m.states.handle_version_lookup),
                     dict(m.context_states.handle_version_lookup)]
    return snap


def index_problems(w):
    if mk_oracle is None:
        return []
    out = []
    for name in ('descriptions', 'states', 'context_states'):
        out += [f'{name}: {p}' for p in mk_oracle.table_problems(getattr(w.mdib, name))]
    return out


class C03Hook:
    def __init__(self, ctx):
        self.ctx = ctx

    def start(self, w):
        w.late_writes = True
        self.before_snap = None
        from props import c04
        self.retained_probe = c04.RetainedProbe(w)   # what earlier commits published for the periodic reports

    def before(self, w, script):
        self.before_snap = full_snapshot(w)
        w.p.take_wire()
        self.entity_probe(w, script)

    def entity_probe(self, w, script):
        """entity getters hand out private copies: write into them outside any transaction"""
        r = w.rng
        hs = w.descr_handles()
        if not hs or r.random() > 0.3:
            return
        try:
            ent = w.mdib.entities.by_handle(r.choice(hs))
        except KeyError:
            return  # descriptor without state: the entity getter has nothing to hand out
        if ent is None:
            return
        if r.random() < 0.5:
            ent.update()      # a refreshed entity is as private as a fresh one
        w.mutate_descr(ent.descriptor, r.randrange(1000))
        tx.deep_scribble(ent.descriptor)
        for st in ([ent.state] if not ent.is_multi_state else list(ent.states.values())):
            w.mutate_state(st, r.randrange(1000))
            tx.deep_scribble(st)
        after = full_snapshot(w)
        if after != self.before_snap:
            self.ctx.fail('entity-getter-object-shared-with-mdib',
                          f'writing into mdib.entities.by_handle({ent.handle}) changed the MDIB: {lb.diff_snapshots(self.before_snap, after)[:3]}',
                          {'history': [], 'mdib': w.mdib_path, 'entity': ent.handle})
        tx.undo_empty_appends()

    def after(self, w, script, info, history):
        ctx = self.ctx
        snap = full_snapshot(w)
        wire = w.p.take_wire()
        case = {'history': list(history), 'mdib': w.mdib_path}
        out = info['outcome']
        ctx.count('outcome:' + out)
        if out in ('aborted', 'rejected', 'commit-failed'):
            if snap != self.before_snap:
                d = lb.diff_snapshots(self.before_snap, snap)[:4] or ['sizes/saved versions differ']
                ctx.fail(f'{out}-transaction-changed-mdib', f'{out} ({info["error"]}): {d}', case)
            if wire:
                ctx.fail(f'{out}-transaction-sent-report', f'{[m.short for m in wire]}', case)
        if out == 'empty' and (snap != self.before_snap or wire):
            ctx.fail('empty-transaction-had-effect', str(lb.diff_snapshots(self.before_snap, snap)[:3]), case)
        if out == 'committed':
            # 'commits completely': nothing of what the transaction removed may be left behind half-way
            dangling = [f'state {h}' for h in snap['states'] if h not in snap['descriptors']] + \
                       [f'context state {h} of {s["dh"]}' for h, s in snap['context_states'].items() if s['dh'] not in snap['descriptors']] + \
                       [f'descriptor {h} below {d["parent"]}' for h, d in snap['descriptors'].items()
                        if d['parent'] is not None and d['parent'] not in snap['descriptors']]
            if dangling:
                ctx.fail('committed-transaction-applied-partly', f'left behind: {dangling[:4]}', case)
            # ... and what the application deleted through calls the API accepted is gone (unless the same script created it again)
            recreated = {c[2] for c in script['calls'] if c[0] in ('mk', 'addState', 'writeNew') and len(c) > 2}
            kept = [h for h in info.get('asked_removed_ctx', []) if h in snap['context_states'] and h not in recreated]
            if kept:
                ctx.fail('committed-transaction-applied-partly', f'context states deleted by the committed transaction are still in the MDIB: {kept}', case)
        for sig, detail in info.get('isolation_failures', []):
            ctx.fail(sig, detail, case)
        self.retained_probe.check(ctx, case)
        probs = index_problems(w)
        if probs:
            ctx.fail('lookup-inconsistent-after-transaction', '; '.join(probs[:3]), case)
        if w.p.capture_errors:
            ctx.fail('report-could-not-be-serialised', w.p.capture_errors[0], case)
            w.p.capture_errors.clear()
        for c in script['calls']:
            ctx.count('call:' + script['tx'] + '.' + c[0])
        ctx.count('rejected-calls', info['calls_rejected'])


def precommit_veto_scenario(ctx):
    """A role provider vetoes a transaction in its pre-commit handler (raises). That is an exception inside the commit
    phase before anything is applied: the application must see it, the MDIB and all lookups must be unchanged, nothing
    may be sent (in the model: the `aborted` outcome)."""
    from sdc11073.exceptions import ApiUsageError
    p = lb.Provider(mdib_path=c02.MDIBS[0], start=False, role_providers=True)
    m = p.mdib
    w = tx.World(p, ctx.subrng('veto'))
    w.mdib_path = c02.MDIBS[0]
    try:
        products = list(p.device.product_lookup.values())
        alerts = w.states_of_kind('alert')
        metrics = w.states_of_kind('metric')
        if not products or not alerts or not metrics:
            ctx.count('veto-scenario-skipped')
            return

        class Veto:
            def on_pre_commit(self, mdib, transaction):
                if any(h in alerts[:1] for h in transaction.alert_state_updates) or any(h == metrics[0] for h in transaction.metric_state_updates):
                    raise ApiUsageError('vetoed by interlock role provider')

            def on_post_commit(self, mdib, transaction):
                pass

            def stop(self):
                pass
        for prod in products:
            prod._ordered_role_providers.append(Veto())  # noqa: SLF001
        for kind, h in (('metric', metrics[0]), ('alert', alerts[0])):
            before = full_snapshot(w)
            p.take_wire()
            raised = None
            try:
                with getattr(m, f'{kind}_state_transaction')() as mgr:
                    st = mgr.get_state(h)
                    w.mutate_state(st, 77)
            except ApiUsageError as ex:
                raised = ex
            after = full_snapshot(w)
            wire = p.take_wire()
            case = {'veto_scenario': kind, 'handle': h}
            if raised is None:
                ctx.fail('pre-commit-veto-not-raised', f'{kind} transaction vetoed in pre-commit completed without an exception', case)
            if after != before:
                ctx.fail('pre-commit-veto-changed-mdib', f'{kind}: {lb.diff_snapshots(before, after)[:3]}', case)
            if wire:
                ctx.fail('pre-commit-veto-sent-report', str([x.short for x in wire]), case)
            ctx.case(case, nontrivial=True)
            ctx.count('veto-scenarios')
    finally:
        w.close()


def reader_during_transaction_scenario(ctx):
    """Atomicity as a concurrent reader sees it: while a descriptor transaction that removes a descriptor (with its states)
    is open, another thread asks the entity getters for it. The answer is the complete entity from before the transaction
    or `None` from after it - never an exception, never a descriptor of before with the states of after."""
    import threading
    p = lb.Provider(mdib_path=c02.MDIBS[1], start=False, role_providers=False)
    m = p.mdib
    w = tx.World(p, ctx.subrng('reader'))
    try:
        with m.context_state_transaction() as mgr:
            mgr.mk_context_state('PC.mds0', 'rd_patient', set_associated=False)
        metric = w.states_of_kind('metric')[0]
        for handle in (metric, 'PC.mds0'):
            before_n = len(m.context_states.descriptor_handle.get(handle, [])) if handle == 'PC.mds0' else 1
            inside, go = threading.Event(), threading.Event()
            result = {}

            def writer():
                with m.descriptor_transaction() as mgr:
                    mgr.remove_descriptor(handle)
                    inside.set()
                    go.wait(5)

            def reader(route):
                try:
                    if route == 'by_handle':
                        e = m.entities.by_handle(handle)
                    else:
                        e = next((x for h_, x in m.entities.items() if h_ == handle), None)
                    result[route] = None if e is None else (len(e.states) if e.is_multi_state else 1)
                except Exception as ex:  # noqa: BLE001
                    result[route] = f'raised {type(ex).__name__}: {ex}'
            tw = threading.Thread(target=writer, daemon=True)
            tw.start()
            inside.wait(5)
            readers = [threading.Thread(target=reader, args=(r,), daemon=True) for r in ('by_handle', 'items')]
            for t in readers:
                t.start()
            import time as _t
            _t.sleep(0.3)
            go.set()
            tw.join(5)
            for t in readers:
                t.join(5)
            case = {'reader_during_transaction': handle, 'answers': dict(result), 'states_before': before_n}
            for route, r in result.items():
                if r is not None and r != before_n:
                    ctx.fail('reader-saw-partly-applied-transaction',
                             f'entities.{route}({handle}) during a transaction that removes it: {r} (before: {before_n} state(s), after: None)', case)
            ctx.case(case, nontrivial=True)
            ctx.count('reader-scenarios')
    finally:
        w.close()


def helper_in_transaction_scenario(ctx):
    """The provider's own helpers that are written to work inside an open transaction (`mdib.xtra.
    mk_state_containers_for_all_descriptors`): descriptors without a state are in the MDIB (added to the description table
    directly, as when an MDIB is assembled by hand); a descriptor transaction touches one of them and calls the helper.
    If the body raises afterwards nothing may remain; if it commits, the states are part of the transaction result."""
    from sdc11073.xml_types import pm_qnames, pm_types
    p = lb.Provider(mdib_path=c02.MDIBS[1], start=False, role_providers=False)
    m = p.mdib
    w = tx.World(p, ctx.subrng('helper'))
    try:
        def node(qn):
            found = m.descriptions.NODETYPE.get(qn)
            return found[0] if found else None
        plan = [(pm_qnames.SetStringOperationDescriptor, node(pm_qnames.ScoDescriptor)),
                (pm_qnames.NumericMetricDescriptor, node(pm_qnames.ChannelDescriptor)),
                (pm_qnames.AlertConditionDescriptor, node(pm_qnames.AlertSystemDescriptor))]
        handles = []
        for i, (qn, parent) in enumerate(plan):
            if parent is None:
                continue
            cls = m.data_model.get_descriptor_container_class(qn)
            d = cls(f'helper_stateless_{i}', parent.Handle)
            d.Type = pm_types.CodedValue(str(88000 + i))
            if qn == pm_qnames.SetStringOperationDescriptor:
                d.OperationTarget = w.states_of_kind('metric')[0]
            if qn == pm_qnames.NumericMetricDescriptor:
                d.Unit = pm_types.CodedValue('262656')
                d.Resolution = __import__('decimal').Decimal(1)
            d.set_source_mds(parent.source_mds)
            m.descriptions.add_object(d)
            handles.append(d.Handle)
        if not handles:
            ctx.count('helper-scenario-skipped')
            return
        from sdc11073.exceptions import ApiUsageError
        for variant in ('abort', 'untouched', 'commit'):
            abort = variant != 'commit'
            before = full_snapshot(w)
            p.take_wire()
            raised = None
            try:
                with m.descriptor_transaction() as mgr:
                    # the helper hands every new state to the transaction, which takes only states of descriptors it holds;
                    # in the variant 'untouched' one descriptor is not in the transaction: the real code refuses (ApiUsageError)
                    for h in (handles[:-1] if variant == 'untouched' and len(handles) > 1 else handles):
                        mgr.get_descriptor(h).SafetyClassification = pm_types.SafetyClassification.MED_A
                    m.xtra.mk_state_containers_for_all_descriptors()
                    if abort:
                        raise tx.AppAbort('application error after the helper')
            except (tx.AppAbort, ApiUsageError) as ex:
                raised = ex
            after = full_snapshot(w)
            case = {'helper_in_transaction': 'mk_state_containers_for_all_descriptors', 'variant': variant, 'handles': handles}
            if abort:
                if raised is None:
                    ctx.fail('exception-in-transaction-body-swallowed', 'the exception of the body did not reach the caller', case)
                if after != before:
                    ctx.fail('aborted-transaction-changed-mdib', f'helper inside an aborted transaction: {lb.diff_snapshots(before, after)[:3]}', case)
            else:
                res = m.transaction
                got = sorted(s.DescriptorHandle for s in res.all_states()) if res is not None else []
                missing = [h for h in handles if m.states.descriptor_handle.get_one(h, allow_none=True) is None]
                if missing:
                    ctx.fail('committed-transaction-applied-partly', f'no state for {missing} after the committed transaction', case)
                if [h for h in handles if h not in got]:
                    ctx.fail('committed-transaction-applied-partly',
                             f'states created inside the transaction are not in its result: result has {got}, created {handles}', case)
                probs = index_problems(w)
                if probs:
                    ctx.fail('lookup-inconsistent-after-commit', '; '.join(probs[:3]), case)
            ctx.case(case, nontrivial=True)
            ctx.count('helper-scenarios')
    finally:
        w.close()


def send_failure_scenario(ctx):
    """The commit itself fails while the reports are sent (the committed content is not schema valid and a subscriber
    exists, so serialisation of the notification raises ValidationError inside the commit): the statement demands that the
    MDIB is exactly what it was before. The pinned code has applied the transaction before it sends (known finding)."""
    p = lb.Provider(mdib_path=c02.MDIBS[1], start=True, role_providers=False, sync=True)
    cons = None
    try:
        cons = lb.Consumer(p, init_mdib=False, subscribe_reports=True)
        m = p.mdib
        w = tx.World(p, ctx.subrng('sendfail'))
        w.mdib_path = c02.MDIBS[1]
        before = full_snapshot(w)
        raised = None
        try:
            with m.context_state_transaction() as mgr:
                st = mgr.mk_context_state('PC.mds0', 'sf_patient', set_associated=True)
                st.BindingMdibVersion = -1       # not an xsd:unsignedLong: the EpisodicContextReport cannot be serialised
        except Exception as ex:  # noqa: BLE001
            raised = type(ex).__name__
        after = full_snapshot(w)
        w.close()
        case = {'send_failure_scenario': True, 'raised': raised}
        if raised is not None and after != before:
            ctx.fail('commit-failed-in-report-serialisation-changed-mdib',
                     f'commit raised {raised} while sending the report, but the MDIB was changed: {lb.diff_snapshots(before, after)[:3]}', case)
        ctx.case(case, nontrivial=True)
        ctx.count('send-failure-scenarios')
    finally:
        if cons is not None:
            cons.stop()
        p.stop()


def run(ctx):
    c02.run(ctx, hook_cls=C03Hook, prop='C03', drv='drv_c03')
    precommit_veto_scenario(ctx)
    send_failure_scenario(ctx)
    reader_during_transaction_scenario(ctx)
    helper_in_transaction_scenario(ctx)


def search(ctx):
    c02.search(ctx, hook_cls=C03Hook)


def replay(ctx, obj):
    lb.quiet()
    case = obj['case']
    ctx2 = core.Ctx('C03', 'quick', 0)
    if 'send_failure_scenario' in case:
        send_failure_scenario(ctx2)
        for f in ctx2.failures:
            print('  ', f['signature'], ':', f['detail'])
        return any(f['signature'] == obj['signature'] for f in ctx2.failures)
    if 'reader_during_transaction' in case:
        reader_during_transaction_scenario(ctx2)
        for f in ctx2.failures:
            print('  ', f['signature'], ':', f['detail'])
        return any(f['signature'] == obj['signature'] for f in ctx2.failures)
    if 'veto_scenario' in case:
        precommit_veto_scenario(ctx2)
        for f in ctx2.failures:
            print('  ', f['signature'], ':', f['detail'])
        return any(f['signature'] == obj['signature'] for f in ctx2.failures)
    c02.run_history(ctx2, case.get('mdib', c02.MDIBS[0]), ctx2.subrng('replay'), 0, [C03Hook(ctx2)], scripts=case['history'])
    for f in ctx2.failures:
        print('  ', f['signature'], ':', f['detail'])
    return any(f['signature'] == obj['signature'] for f in ctx2.failures)
