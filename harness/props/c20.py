"""C20 — query services return exactly the selected states and texts.

Model: lean/SdcModel/Query.lean (handle resolution of GetMdState / GetContextStates, filter_localized_texts,
get_supported_languages).  Theorems: lean/SdcModel/Properties/C20.lean.
Tie: correspondence. The real consumer service clients are looped back in-process onto the real provider port type
implementations (harness/locktrace.Bench); every query is also answered by the Lean driver `drv_c20` which is fed the
provider tables (scanned, not looked up) and the text store.
Oracle: an independent reference selection computed from the provider tables straight from the property text.
"""
from __future__ import annotations

import itertools
import uuid
from unittest import mock

import core
import locktrace as lt

READY = True
MANIFEST = dict(
    technique='Lean 4 theorems over a transcribed model of the handle resolution and of the text filter pipeline (all MDIB contents, all handle lists, all stores, all filter parameters); correspondence of the model with the real handlers reached through the real consumer service clients (in-process loop-back); reference-selection oracle',
    text='Properties/C20.lean proves for every MDIB content and every handle list that GetMdState / GetContextStates return exactly the states selected by the BICEPS rules (incl. the MDS rule, via a proof that the subtree walk reaches exactly the descriptors below the MDS), each once, unknown handles contributing nothing; that every text returned by the filter satisfies every given constraint, that without constraints exactly the texts of the latest version are returned, and that the supported languages are exactly the stored ones. The model is compared on every run with the real handlers on the bundled one- and two-MDS MDIBs and randomly extended ones, and with filter_localized_texts on random stores x all 2^5 constraint-presence combinations.',
    note='Trusted: Lean kernel; harness + generators; index look-ups are modelled as table scans (that is property C11); XML (de)serialisation of requests/answers is exercised but not modelled. WF side conditions of the theorems (handles unique, a context state handle is no descriptor handle) are checked on every generated MDIB.',
    ref='5 C20')
DRIVERS = ['drv_c20']
RULE = ('one case = (MDIB variant, service, flag, handle list) or (text store, filter parameters) or (text store, languages); distinct by '
        'canonical JSON; non-trivial = the reference selection is non-empty or the handle list contains a known handle / the store is non-empty')
TRUSTED = ['index look-ups of the MDIB tables behave like scans (C11)', 'lxml serialisation / parsing of the request and response messages',
           'text content is abstracted to its number of lines (texts are generated as k lines)']
ASSUMPTIONS = ['provider is not started (no sockets, no role provider worker threads); service clients are looped back in-process',
               'with SdcProvider.contextstates_in_getmdib = False the Get service serves no context states (the context service does): the reference selection of GetMdState then contains single states only',
               'generated MDIBs satisfy Query.WF (checked per MDIB)']

WIDTHS = ['xs', 's', 'm', 'l', 'xl', 'xxl']


def enc(s):
    return '-' if s is None else 'x' + s.encode().hex()


def dec(tok):
    return bytes.fromhex(tok[1:]).decode()


# ------------------------------------------------------------------------------------------------------------
# MDIB variants
# ------------------------------------------------------------------------------------------------------------

CONTEXT_KINDS = ['PatientContextDescriptor', 'LocationContextDescriptor', 'EnsembleContextDescriptor',
                 'WorkflowContextDescriptor', 'MeansContextDescriptor', 'OperatorContextDescriptor']


def extend_mdib(bench, rng, n_descr, n_states):
    """Add context descriptors below every SystemContext (creating one where an MDS has none) and context states."""
    from sdc11073.xml_types import pm_qnames as pm
    mdib = bench.mdib
    dm = mdib.data_model
    sys_ctx = {d.parent_handle: d.Handle for d in mdib.descriptions.objects if d.NODETYPE == pm.SystemContextDescriptor}
    with mdib.descriptor_transaction() as tr:
        for mds in bench.mds_handles():
            if mds not in sys_ctx:
                cls = dm.get_descriptor_container_class(pm.SystemContextDescriptor)
                d = cls(handle=f'SC.{mds}.v', parent_handle=mds)
                tr.add_descriptor(d, state_container=dm.mk_state_container(d))
                sys_ctx[mds] = d.Handle
    ctx_descr = [d.Handle for d in mdib.descriptions.objects if d.is_context_descriptor]
    with mdib.descriptor_transaction() as tr:
        for i in range(n_descr):
            mds = rng.choice(sorted(sys_ctx))
            kind = rng.choice(CONTEXT_KINDS)
            cls = dm.get_descriptor_container_class(getattr(pm, kind))
            d = cls(handle=f'{kind[:3]}.{mds}.{i}', parent_handle=sys_ctx[mds])
            tr.add_descriptor(d)
            ctx_descr.append(d.Handle)
    if ctx_descr:
        for _ in range((n_states + 3) // 4):
            with mdib.context_state_transaction() as tr:
                for _ in range(min(4, n_states)):
                    tr.mk_context_state(rng.choice(sorted(ctx_descr)), f'cs{uuid.UUID(int=rng.getrandbits(128)).hex[:10]}',
                                        set_associated=rng.random() < 0.5)


def tables(bench):
    """Scan the provider tables: descriptors (handle, parent, is_mds), single states (dh), context states (h, dh)."""
    from sdc11073.xml_types import pm_qnames as pm
    m = bench.mdib
    descrs = sorted((d.Handle, d.parent_handle, d.NODETYPE == pm.MdsDescriptor) for d in m.descriptions.objects)
    states = sorted(s.DescriptorHandle for s in m.states.objects)
    ctxs = sorted((c.Handle, c.DescriptorHandle) for c in m.context_states.objects)
    return descrs, states, ctxs


def check_wf(tabs):
    """Side conditions `Query.WF` of the theorems (BICEPS: handles are unique over descriptors and multi states)."""
    descrs, states, ctxs = tabs
    dh = [d[0] for d in descrs]
    ch = [c[0] for c in ctxs]
    mds = {d[0] for d in descrs if d[2]}
    ok = len(set(dh)) == len(dh) and len(set(ch)) == len(ch) and len(set(states)) == len(states)
    ok = ok and not (set(ch) & (set(states) | {c[1] for c in ctxs}))
    ok = ok and not (mds & ({c[1] for c in ctxs} | set(ch)))
    return ok


def model_lines(tabs):
    descrs, states, ctxs = tabs
    lines = ['reset']
    lines += [f'd {enc(h)} {enc(p)} {int(is_mds)}' for h, p, is_mds in descrs]
    lines += [f's {enc(dh)}' for dh in states]
    lines += [f'c {enc(h)} {enc(dh)}' for h, dh in ctxs]
    return lines


# ------------------------------------------------------------------------------------------------------------
# reference selection (the property text) and the implementation adapter
# ------------------------------------------------------------------------------------------------------------

def mds_of(parent, handle):
    """Root of the parent chain (None for a cyclic / dangling chain)."""
    seen = set()
    while handle is not None and handle not in seen and handle in parent:
        seen.add(handle)
        if parent[handle] is None:
            return handle
        handle = parent[handle]
    return None


def ref_mdstate(tabs, handles, ctx_included):
    descrs, states, ctxs = tabs
    sel = set()
    if not handles:  # empty list: all states
        sel |= {('s', dh) for dh in states}
        if ctx_included:
            sel |= {('c', h, dh) for h, dh in ctxs}
    for hd in handles:
        sel |= {('s', dh) for dh in states if dh == hd}                                  # descriptor handle: all its states
        if ctx_included:
            sel |= {('c', h, dh) for h, dh in ctxs if h == hd or dh == hd}               # context state handle: that state
    return sorted(sel)


def ref_ctxstates(tabs, handles):
    descrs, states, ctxs = tabs
    parent = {h: p for h, p, _ in descrs}
    mds = {h for h, _, is_mds in descrs if is_mds}
    if not handles:
        return sorted(('c', h, dh) for h, dh in ctxs)
    sel = set()
    for hd in handles:
        sel |= {('c', h, dh) for h, dh in ctxs if h == hd or dh == hd}
        if hd in mds:  # MDS handle: all context states of that MDS
            sel |= {('c', h, dh) for h, dh in ctxs if mds_of(parent, dh) == hd}
    return sorted(sel)


def canon_states(containers):
    res = []
    for st in containers:
        if st.is_context_state:
            res.append(('c', st.Handle, st.DescriptorHandle))
        else:
            res.append(('s', st.DescriptorHandle))
    return res


def impl_mdstate(bench, handles, ctx_included):
    bench.device.contextstates_in_getmdib = ctx_included
    try:
        res = bench.get_client.get_md_state(handles if handles else None)
        return canon_states(res.result.MdState.State)
    except Exception as ex:  # noqa: BLE001
        return 'err ' + type(ex).__name__


def impl_ctxstates(bench, handles):
    try:
        res = bench.context_client.get_context_states(handles if handles else None)
        return canon_states(res.result.ContextState)
    except Exception as ex:  # noqa: BLE001
        return 'err ' + type(ex).__name__


def parse_model_states(out):
    if not out.startswith('ok'):
        return out
    res = []
    for tok in out.split()[1:]:
        parts = tok.split(':')
        res.append(('s', dec(parts[1])) if parts[0] == 's' else ('c', dec(parts[1]), dec(parts[2])))
    return sorted(res)


def judge(op, handles, impl, ref):
    """Property predicate on one answer. Returns (signature, detail) or None."""
    if isinstance(impl, str):
        return f'{op}:exception', f'{op}({handles}) raised {impl}'
    if len(set(impl)) != len(impl):
        dup = sorted({x for x in impl if impl.count(x) > 1})
        return f'{op}:duplicate', f'{op}({handles}) contains {dup[:3]} more than once'
    extra = sorted(set(impl) - set(ref))
    if extra:
        return f'{op}:extra', f'{op}({handles}) returns {extra[:3]} (+{max(0, len(extra) - 3)}) which no requested handle selects'
    missing = sorted(set(ref) - set(impl))
    if missing:
        return f'{op}:missing', f'{op}({handles}) lacks {missing[:3]} (+{max(0, len(missing) - 3)})'
    return None


def handle_lists(ctx, rng, tabs, n):
    descrs, states, ctxs = tabs
    mds = [h for h, _, m in descrs if m]
    ctx_dh = sorted({dh for _, dh in ctxs})
    ctx_descr_all = sorted({h for h, p, _ in descrs if h[:3] in ('PC.', 'LC.', 'Pat', 'Loc', 'Ens', 'Wor', 'Mea', 'Ope')})
    ch = [h for h, _ in ctxs]
    plain = [dh for dh in states]
    unknown = ['nope', 'mds', 'x' * 3, 'cs0', 'LC', '0']
    pools = {'mds': mds, 'ctx-descr': ctx_dh or ctx_descr_all, 'ctx-descr-empty': [h for h in ctx_descr_all if h not in ctx_dh],
             'ctx-state': ch, 'descr': plain, 'unknown': unknown}
    pools = {k: v for k, v in pools.items() if v}
    out = [[]]
    for k, v in pools.items():  # singletons of every kind and the duplicate of each
        h = rng.choice(v)
        out += [[h], [h, h]]
    for m in mds:
        out.append([m])
    if ch:
        c = rng.choice(ctxs)
        out += [[c[0], c[1]], [c[1], c[0]], [c[0], 'nope', c[0]]]
    kinds = sorted(pools)
    while len(out) < n:
        k = rng.randint(1, 6)
        hs = [rng.choice(pools[rng.choice(kinds)]) for _ in range(k)]
        if rng.random() < 0.4:
            hs.append(rng.choice(hs))
        rng.shuffle(hs)
        out.append(hs)
    return out, {h: k for k, v in reversed(list(pools.items())) for h in v}   # first pool (mds, ctx-descr, …) names the kind


def corpus_entries():
    import json
    import os
    d = core.VERIF + '/corpus/C20'
    return [json.load(open(os.path.join(d, f))) for f in sorted(os.listdir(d))] if os.path.isdir(d) else []


def mdib_variants(ctx):
    """(name, file, n extra context descriptors, n extra context states)"""
    rng = ctx.subrng('variants')
    res = [('two-mds', lt.MDIB_TWO, 0, 0), ('single-mds', lt.MDIB_SINGLE, 0, 0), ('multi', lt.MDIB_MULTI, 0, 0)]
    for i in range(ctx.n(4, 40)):
        f = rng.choice([lt.MDIB_TWO, lt.MDIB_TWO, lt.MDIB_MULTI, lt.MDIB_SINGLE])
        res.append((f'ext{i}', f, rng.randint(0, 6), rng.randint(1, 14)))
    return res


def run_states(ctx):
    all_lines, expect = [], []
    for name, fname, n_descr, n_states in mdib_variants(ctx):
        rng = ctx.subrng('mdib', name)
        bench = lt.Bench(fname, role_providers=False)
        if n_descr or n_states:
            extend_mdib(bench, rng, n_descr, n_states)
        tabs = tables(bench)
        if not check_wf(tabs):
            raise RuntimeError(f'generated MDIB {name} violates Query.WF')
        ctx.count(f'mdib:{len(bench.mds_handles())}-mds')
        ctx.count('mdib-context-states', len(tabs[2]))
        all_lines += model_lines(tabs)
        expect += [None] * (len(all_lines) - len(expect))
        hls, kind_of = handle_lists(ctx, rng, tabs, ctx.n(40, 120))
        hls = [c['handles'] for c in corpus_entries() if c.get('variant') == name] + hls   # past failures first
        for handles in hls:
            for hd in handles:
                ctx.count('handle-kind:' + kind_of.get(hd, '?'))
            for op, flag in (('GetMdState', True), ('GetMdState', False), ('GetContextStates', None)):
                if op == 'GetMdState':
                    impl = impl_mdstate(bench, handles, flag)
                    ref = ref_mdstate(tabs, handles, flag)
                    line = f'mdstate {int(flag)} ' + ' '.join(map(enc, handles))
                else:
                    impl = impl_ctxstates(bench, handles)
                    ref = ref_ctxstates(tabs, handles)
                    line = 'ctx ' + ' '.join(map(enc, handles))
                case = {'mdib': [name, fname, n_descr, n_states], 'op': op, 'ctx_included': flag, 'handles': handles, 'tier': ctx.tier}
                bad = judge(op, handles, impl, ref)
                if bad:
                    ctx.fail(bad[0], bad[1], {**case, 'seed': ctx.seed, 'impl': impl, 'reference': ref})
                ctx.case(case, nontrivial=bool(ref) or any(h in kind_of and kind_of[h] != 'unknown' for h in handles),
                         sample={**case, 'answer': impl[:4] if not isinstance(impl, str) else impl, 'n': len(impl)} if len(handles) == 3 else None)
                ctx.count('op:' + op)
                ctx.count('answer:' + ('empty' if not impl else 'non-empty'))
                all_lines.append(line)
                expect.append((case, impl))
        bench.device.contextstates_in_getmdib = True
    if ctx.driver_ok:
        out = ctx.driver('drv_c20', all_lines)
        for o, e in zip(out, expect):
            if e is None:
                if o != 'ok':
                    ctx.disagree('driver table set-up', o, o, 'ok')
                continue
            case, impl = e
            model = parse_model_states(o)
            impl_c = sorted(impl) if not isinstance(impl, str) else impl
            if model != impl_c:
                ctx.disagree(f"{case['op']}: model selection == states in the real answer", case, model, impl_c)


# ------------------------------------------------------------------------------------------------------------
# localized texts
# ------------------------------------------------------------------------------------------------------------

REFS = ['a', 'b', 'c']
LANGS = ['en', 'de-de', 'fr']


def mk_store(rng, n):
    """list of (ref, lang, version, width, nol); the text is `t<idx>` followed by nol-1 further lines"""
    res = []
    for _ in range(n):
        res.append((rng.choice(REFS), rng.choice(LANGS + [None]), rng.choice([None, 0, 1, 2, 3]),
                    rng.choice([None] + WIDTHS), rng.randint(1, 4)))
    return res


def mk_query(rng, pres, via_service):
    none = (lambda: None) if via_service else (lambda: rng.choice([None, []]))
    refs = [rng.choice(REFS + ['zz']) for _ in range(rng.randint(1, 3))] if pres[0] else none()
    ver = rng.choice([0, 1, 2, 3, 4]) if pres[1] else None
    langs = rng.sample(LANGS + ['it'], rng.randint(1, 2)) if pres[2] else none()
    widths = [rng.choice(WIDTHS) for _ in range(rng.randint(1, 2))] if pres[3] else none()
    nols = [rng.randint(0, 4) for _ in range(rng.randint(1, 2))] if pres[4] else none()
    return refs, ver, langs, widths, nols


def fill_storage(storage, store):
    from sdc11073.xml_types.pm_types import LocalizedText, LocalizedTextWidth
    objs = []
    for i, (ref, lang, ver, width, nol) in enumerate(store):
        t = LocalizedText('\n'.join([f't{i}'] + ['x'] * (nol - 1)), lang=lang, ref=ref, version=ver,
                          text_width=None if width is None else LocalizedTextWidth(width))
        objs.append(t)
        storage.add(t)
    return objs


def judge_texts(store, query, ids):
    """soundness of every returned text + completeness without constraints"""
    refs, ver, langs, widths, nols = query
    if isinstance(ids, str):
        return 'GetLocalizedText:exception', f'filter raised {ids}'
    for i in ids:
        if i is None or not 0 <= i < len(store):
            return 'GetLocalizedText:unknown-text', 'a returned text is not in the store'
        ref, lang, v, width, nol = store[i]
        if refs and ref not in refs:
            return 'GetLocalizedText:ref', f'text {store[i]} does not match Ref {refs}'
        if ver is not None and v != ver:
            return 'GetLocalizedText:version', f'text {store[i]} does not have Version {ver}'
        if langs and lang not in langs:
            return 'GetLocalizedText:lang', f'text {store[i]} does not match Lang {langs}'
        if widths and not (width is not None and any(WIDTHS.index(width) <= WIDTHS.index(w) for w in widths)):
            return 'GetLocalizedText:text-width', f'text {store[i]} is wider than every requested TextWidth {widths}'
        if nols and not any(nol <= n for n in nols):
            return 'GetLocalizedText:number-of-lines', f'text {store[i]} has more lines than every requested NumberOfLines {nols}'
    if not refs and ver is None and not langs and not widths and not nols:
        vs = [t[2] for t in store if t[2] is not None]
        latest = max(vs) if vs else None
        exp = sorted(i for i, t in enumerate(store) if t[2] == latest)
        if sorted(ids) != exp:
            return 'GetLocalizedText:unconstrained', f'without constraints {sorted(ids)} returned, texts of the latest version {latest} are {exp}'
    return None


def ids_of(texts):
    res = []
    for t in texts:
        first = (t.text or '').split('\n')[0]
        res.append(int(first[1:]) if first[:1] == 't' and first[1:].isdigit() else None)
    return res


def ask_texts(bench, storage, query, via_service):
    from sdc11073.xml_types.pm_types import LocalizedTextWidth
    refs, ver, langs, widths, nols = query
    try:
        if via_service:
            # NumberOfLines as strings: SubElementTextListProperty(value_class=int) cannot serialise ints (see report)
            res = bench.loc_client.get_localized_texts(refs, ver, langs, None if widths is None else [LocalizedTextWidth(w) for w in widths],
                                                       None if nols is None else [str(n) for n in nols])
            return ids_of(res.result.Text)
        return ids_of(storage.filter_localized_texts(refs, ver, langs, None if widths is None else [LocalizedTextWidth(w) for w in widths], nols))
    except Exception as ex:  # noqa: BLE001
        return 'err ' + type(ex).__name__


def apply_store(objs, store, storage):
    """make the stored objects say what `store` says (in place; texts beyond len(objs) are added)"""
    from sdc11073.xml_types.pm_types import LocalizedText, LocalizedTextWidth
    for i, (ref, lang, ver, width, nol) in enumerate(store):
        text = '\n'.join([f't{i}'] + ['x'] * (nol - 1))
        tw = None if width is None else LocalizedTextWidth(width)
        if i < len(objs):
            o = objs[i]
            o.text, o.Lang, o.Version, o.TextWidth = text, lang, ver, tw      # Ref is the storage key: never changed in place
        else:
            o = LocalizedText(text, lang=lang, ref=ref, version=ver, text_width=tw)
            objs.append(o)
            storage.add(o)


def mutate_store(rng, storage, objs, store):
    new = []
    for ref, lang, ver, width, nol in store:
        r = rng.random()
        if r < 0.5:
            nol = rng.choice([n for n in (1, 2, 3, 4) if n != nol])
        elif r < 0.6:
            lang = rng.choice(LANGS + [None])
        elif r < 0.7:
            ver = rng.choice([None, 0, 1, 2, 3, 4])
        elif r < 0.8:
            width = rng.choice([None] + WIDTHS)
        new.append((ref, lang, ver, width, nol))
    new += mk_store(rng, rng.choice([0, 0, 1, 2]))
    apply_store(objs, new, storage)
    return new


def texts_line(query):
    refs, ver, langs, widths, nols = query
    return ('texts ' + ' '.join(map(enc, refs or [])) + ' | ' + ('-' if ver is None else str(ver)) + ' | ' +
            ' '.join(map(enc, langs or [])) + ' | ' + ' '.join(str(WIDTHS.index(w)) for w in (widths or [])) + ' | ' +
            ' '.join(map(str, nols or [])))


def run_texts(ctx):
    from sdc11073.provider.porttypes import localizationservice as ls
    from sdc11073.xml_types.pm_types import LocalizedTextWidth
    bench = lt.Bench(lt.MDIB_SINGLE, role_providers=False)
    loc = bench.device.hosted_services.localization_service
    lines, expect = [], []
    # the _tw2i table (exhaustive)
    for w in [None] + [e.value for e in LocalizedTextWidth] + ['xxs']:
        try:
            impl = f'ok {ls._tw2i(None if w is None else (LocalizedTextWidth(w) if w in WIDTHS else w))}'  # noqa: SLF001
        except KeyError:
            impl = 'err KeyError'
        lines.append('tw ' + ('-' if w is None else w))
        expect.append(('tw', {'width': w}, impl))
    rng = ctx.subrng('texts')
    stores = [[tuple(t) for t in c['store']] for c in corpus_entries() if 'store' in c]
    for k in range(ctx.n(60, 600)):
        store = stores[k] if k < len(stores) else mk_store(rng, rng.choice([0, 1, 2, 3, 5, 8, 12, 16]))
        via_service = k % 3 == 0
        storage = ls.LocalizationStorage()
        objs = fill_storage(storage, store)
        loc.localization_storage = storage
        history = None
        for round_no in (0, 1):
            if round_no == 1:
                # the storage lives on: stored texts are edited in place (other number of lines, language, version, width)
                # and new texts are added; the same questions must be answered from what is stored NOW
                history = {'before': list(store), 'prior_queries': prior}
                store = mutate_store(rng, storage, objs, store)
                ctx.count('texts:storage-changed-between-queries')
            lines.append('reset')
            expect.append(None)
            # the model is given the storage content in the storage's key order (dict of lists keyed by Ref): a key can be
            # older than its first text, because a query for an unknown Ref creates the (empty) key (defaultdict)
            key_order = list(storage._localized_texts.keys())  # noqa: SLF001
            perm = sorted(range(len(store)), key=lambda i: (key_order.index(store[i][0]), i))
            for i in perm:
                ref, lang, ver, width, nol = store[i]
                lines.append(f't {enc(ref)} {enc(lang)} ' + ('-' if ver is None else str(ver)) + ' ' +
                             ('-' if width is None else str(WIDTHS.index(width))) + f' {nol}')
                expect.append(None)
            prior = []
            for pres in itertools.product([0, 1], repeat=5):
                query = mk_query(rng, pres, via_service)
                prior.append(query)
                ids = ask_texts(bench, storage, query, via_service)
                case = {'store': store, 'query': query, 'via_service': via_service}
                if history:
                    case.update(history)
                bad = judge_texts(store, query, ids)
                if bad:
                    ctx.fail(bad[0] + (':after-change' if history else ''), bad[1] + (' (after the stored texts were changed)' if history else ''),
                             {**case, 'returned_ids': ids})
                ctx.case(case, nontrivial=bool(store), sample={**case, 'returned_ids': ids} if k == 1 and sum(pres) == 3 and not history else None)
                ctx.count('texts:constraints-present=' + ''.join(map(str, pres)))
                ctx.count('texts:' + ('service' if via_service else 'storage') + (':empty' if not ids else ':non-empty'))
                lines.append(texts_line(query))
                expect.append(('texts', {k_: v for k_, v in case.items() if k_ != 'prior_queries'}, ids, perm))
            # supported languages
            try:
                if via_service:
                    langs = sorted(bench.loc_client.get_supported_languages().result.Lang)
                else:
                    langs = sorted(storage.get_supported_languages())
            except Exception as ex:  # noqa: BLE001
                langs = 'err ' + type(ex).__name__
            exp = sorted({t[1] for t in store if t[1] is not None})
            case = {'store': store, 'op': 'GetSupportedLanguages', 'via_service': via_service}
            if history:
                case['before'] = history['before']
            if langs != exp:
                ctx.fail('GetSupportedLanguages:not-exact', f'languages {langs} listed, stored languages are {exp}', {**case, 'languages': langs})
            ctx.case(case, nontrivial=bool(exp))
            lines.append('langs')
            expect.append(('langs', case, langs))
    if ctx.driver_ok:
        out = ctx.driver('drv_c20', lines)
        for o, e in zip(out, expect):
            if e is None:
                continue
            kind, case, impl = e[:3]
            if kind == 'tw':
                model = o
            elif kind == 'texts':
                model = [e[3][int(x)] for x in o.split()[1:]] if o.startswith('ok') else o
            else:
                model = sorted(dec(x) for x in o.split()[1:]) if o.startswith('ok') else o
            if model != impl:
                ctx.disagree({'tw': '_tw2i table', 'texts': 'filterTexts == ids returned by filter_localized_texts (same order)',
                              'langs': 'supportedLanguages'}[kind], case, model, impl)


def run(ctx):
    with mock.patch('uuid.uuid4', _Uuid(ctx.subrng('uuid'))):
        run_states(ctx)
    run_texts(ctx)


class _Uuid:
    """deterministic uuid4 (provider construction draws handles / sequence ids from it)"""

    def __init__(self, rng):
        self.rng = rng

    def __call__(self):
        return uuid.UUID(int=self.rng.getrandbits(128), version=4)


def search(ctx):
    """Failing-input search = the oracle over a larger generated set (run() already evaluates it on every case)."""
    save = ctx.tier
    ctx.tier = 'thorough'
    try:
        with mock.patch('uuid.uuid4', _Uuid(ctx.subrng('uuid-search'))):
            run_states(ctx)
        run_texts(ctx)
    finally:
        ctx.tier = save


def replay(ctx, obj):
    case = obj['case']
    if 'handles' in case:
        name, fname, n_descr, n_states = case['mdib']
        ctx.seed = case.get('seed', ctx.seed)
        ctx.tier = case.get('tier', ctx.tier)
        with mock.patch('uuid.uuid4', _Uuid(ctx.subrng('uuid'))):
            # rebuild the same variant: variants are regenerated in order so that uuid draws agree
            for vname, vf, nd, ns in mdib_variants(ctx):
                bench = lt.Bench(vf, role_providers=False)
                if nd or ns:
                    extend_mdib(bench, ctx.subrng('mdib', vname), nd, ns)
                if vname == name:
                    break
        tabs = tables(bench)
        if case['op'] == 'GetMdState':
            impl, ref = impl_mdstate(bench, case['handles'], case['ctx_included']), ref_mdstate(tabs, case['handles'], case['ctx_included'])
        else:
            impl, ref = impl_ctxstates(bench, case['handles']), ref_ctxstates(tabs, case['handles'])
        bad = judge(case['op'], case['handles'], impl, ref)
        print('answer   :', impl if isinstance(impl, str) else sorted(impl))
        print('reference:', ref)
        print('->', bad)
        return bad is not None
    from sdc11073.provider.porttypes import localizationservice as ls
    from sdc11073.xml_types.pm_types import LocalizedTextWidth
    store = [tuple(t) for t in case['store']]
    storage = ls.LocalizationStorage()
    if 'before' in case:   # history: the earlier content, the earlier questions, then the change
        objs = fill_storage(storage, [tuple(t) for t in case['before']])
        for q in case.get('prior_queries', []):
            ask_texts(None, storage, q, False)
        apply_store(objs, store, storage)
    else:
        fill_storage(storage, store)
    if case.get('op') == 'GetSupportedLanguages':
        langs = sorted(storage.get_supported_languages())
        exp = sorted({t[1] for t in store if t[1] is not None})
        print('languages:', langs, 'stored:', exp)
        return langs != exp
    refs, ver, langs, widths, nols = case['query']
    try:
        ids = ids_of(storage.filter_localized_texts(refs, ver, langs, None if widths is None else [LocalizedTextWidth(w) for w in widths], nols))
    except Exception as ex:  # noqa: BLE001
        ids = 'err ' + type(ex).__name__
    bad = judge_texts(store, (refs, ver, langs, widths, nols), ids)
    print('returned ids:', ids, '->', bad)
    return bad is not None
